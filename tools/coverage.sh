#!/bin/sh
# Development aid, not part of any check: which lines of the three crates do the quick suites execute?
# Builds the harness with -C instrument-coverage (nightly toolchain, its llvm-tools), runs every suite once
# (quick counts, seed 100) and prints the llvm-cov summary plus the uncovered lines of the library sources to
# .cache/coverage.txt. Scratch files live in COV_ROOT (default /tmp/cov) and are removed at the end.
set -e
V=$(cd "$(dirname "$0")/.." && pwd)
ROOT=${COV_ROOT:-/tmp/cov}
REPO=${VERIF_REPO:-/repo}
T=$(ls -d "$HOME"/.rustup/toolchains/nightly-x86_64-unknown-linux-gnu/lib/rustlib/*/bin | head -1)
mkdir -p "$ROOT/prof" "$ROOT/out"
(cd "$V/harness" && CARGO_NET_OFFLINE=true CARGO_TARGET_DIR="$ROOT/target" RUSTFLAGS="--cfg renet_verif -C instrument-coverage" cargo +nightly build --offline 2>&1 | tail -1)
for s in r-codec:300 r-pair:400 r-hostile:400 r-server:300 n-codec:120 n-replay:300 n-world:160 t-udp:120; do
  suite=${s%%:*}; cnt=${s##*:}
  LLVM_PROFILE_FILE="$ROOT/prof/$suite-%p.profraw" "$ROOT/target/debug/verif_harness" run --suite "$suite" --seed 100 --count "$cnt" \
    --out "$ROOT/out" --driver "$V/.cache/ocaml/driver" --replays "$ROOT/out" --tag "$suite" --corpus "$V/corpus" > /dev/null 2>&1 &
done
wait
"$T/llvm-profdata" merge -sparse "$ROOT"/prof/*.profraw -o "$ROOT/all.profdata"
OUT="$V/.cache/coverage.txt"
"$T/llvm-cov" report "$ROOT/target/debug/verif_harness" -instr-profile="$ROOT/all.profdata" --ignore-filename-regex='(\.cargo|rustc|/verif/)' > "$OUT" 2>&1
for f in $(cd "$REPO" && ls renet/src/*.rs renet/src/channel/*.rs renetcode/src/*.rs renet_netcode/src/*.rs); do
  echo "=== $f" >> "$OUT"
  "$T/llvm-cov" show "$ROOT/target/debug/verif_harness" -instr-profile="$ROOT/all.profdata" "$REPO/$f" --show-line-counts-or-regions 2>/dev/null \
    | grep -E "^ +[0-9]+\| +0\|" | grep -v "log::" >> "$OUT" || true
done
python3 -c "import shutil; shutil.rmtree('$ROOT', ignore_errors=True)"
grep -E "^TOTAL|^Filename" "$OUT"
