#!/usr/bin/env python3
"""Evaluate seeded changes (from independent sub-agents): confirm each one in a scratch worktree
(existing tests pass with the change; the demonstration fails with it and passes without), store it
under /verif/seeded/<id>/ and run the claimed checks against /repo with the change applied.
Usage: tools/seed_eval.py <Cxx> <source dir with m1 m2 ...> [--no-confirm]"""
import json, os, re, shutil, subprocess, sys, time

V = os.path.dirname(os.path.dirname(os.path.abspath(__file__)))
REPO = "/repo"
SCRATCH = os.environ.get("SEED_SCRATCH", "/tmp/seedcheck")
ENV = dict(os.environ, CARGO_NET_OFFLINE="true")


EXTRA_ENV = {}


def sh(cmd, cwd=None, timeout=3600, inp=None):
    p = subprocess.run(cmd, cwd=cwd, env=dict(ENV, **EXTRA_ENV), input=inp, stdout=subprocess.PIPE, stderr=subprocess.STDOUT, text=True, timeout=timeout)
    return p.returncode, p.stdout


def ensure_scratch():
    if not os.path.isdir(SCRATCH):
        sh(["git", "-C", REPO, "worktree", "add", "--detach", SCRATCH, "HEAD"])
    sh(["git", "-C", SCRATCH, "checkout", "--detach", sh(["git", "-C", REPO, "rev-parse", "HEAD"])[1].strip()])
    sh(["git", "-C", SCRATCH, "checkout", "--", "."])
    sh(["git", "-C", SCRATCH, "clean", "-fdq", "--exclude=target"])


def confirm(src):
    """returns dict with the three verdicts"""
    ensure_scratch()
    readme = open(os.path.join(src, "README.txt")).read() if os.path.exists(os.path.join(src, "README.txt")) else ""
    demo_src = open(os.path.join(src, "demo.rs")).read()
    EXTRA_ENV.clear()
    if "renet_verif" in readme or "renet_verif" in demo_src or "::verif::" in demo_src:
        EXTRA_ENV["RUSTFLAGS"] = "--cfg renet_verif"   # the demonstration uses the cfg-guarded re-exports
    m = re.search(r"(renet|renetcode|renet_netcode)/tests/(seed_demo_?\w*)\.rs", readme)
    crate, name = (m.group(1), m.group(2)) if m else (("renetcode" if "renetcode::" in demo_src or "use renetcode" in demo_src else "renet"), "seed_demo")
    demo_path = os.path.join(SCRATCH, crate, "tests", name + ".rs")
    patch = os.path.join(src, "patch.diff")
    out = {"crate": crate, "demo": f"{crate}/tests/{name}.rs"}
    # demo on the unchanged code
    os.makedirs(os.path.dirname(demo_path), exist_ok=True)
    shutil.copy(os.path.join(src, "demo.rs"), demo_path)
    rc, o = sh(["cargo", "test", "-p", crate, "--offline", "--test", name], cwd=SCRATCH)
    out["demo_without_change"] = "pass" if rc == 0 else "FAIL"
    os.remove(demo_path)
    # apply the change; existing tests unedited
    rc, o = sh(["git", "-C", SCRATCH, "apply", patch])
    if rc != 0:
        out["apply"] = "FAILED: " + o[-300:]
        return out
    rc, o = sh(["cargo", "test", "-p", "renet", "-p", "renetcode", "-p", "renet_netcode", "--offline"], cwd=SCRATCH)
    passed = sum(int(x) for x in re.findall(r"test result: ok\. (\d+) passed", o))
    out["suite_with_change"] = f"{'pass' if rc == 0 else 'FAIL'} ({passed} tests ok)"
    shutil.copy(os.path.join(src, "demo.rs"), demo_path)
    rc, o = sh(["cargo", "test", "-p", crate, "--offline", "--test", name], cwd=SCRATCH)
    out["demo_with_change"] = "fail" if rc != 0 else "PASSES"
    fails = re.findall(r"^(?:test .* FAILED|.*panicked at.*)$", o, re.M)
    out["demo_failure"] = fails[:3]
    os.remove(demo_path)
    sh(["git", "-C", SCRATCH, "checkout", "--", "."])
    return out


def run_checks(patch, props):
    sys.path.insert(0, os.path.join(V, "tools"))
    from propcfg import PROPS
    assert sh(["git", "-C", REPO, "status", "--porcelain"])[1].strip() == "", "/repo not clean"
    rc, o = sh(["git", "-C", REPO, "apply", patch])
    res = {}
    if rc != 0:
        return {"error": "patch does not apply to /repo: " + o[-300:]}
    try:
        for pid in props:
            if pid not in PROPS:
                res[pid] = "not claimed"
                continue
            t0 = time.time()
            rc, o = sh([os.path.join(V, "check"), pid, "--tier", "quick"], cwd=V)
            lines = [l[:400] for l in o.splitlines() if l.startswith("VIOLATION") or l.startswith("monitor:")]
            res[pid] = {"rc": rc, "wall_s": round(time.time() - t0, 1), "lines": lines[:3]}
            print("   ", pid, rc, (lines[-1] if lines else "")[:160], flush=True)
    finally:
        sh(["git", "-C", REPO, "checkout", "--", "."])
    return res


def main():
    prop, srcroot = sys.argv[1], sys.argv[2]
    do_confirm = "--no-confirm" not in sys.argv
    all_props = [l.strip() for l in sys.argv[3:] if re.fullmatch(r"C\d+", l)]
    sys.path.insert(0, os.path.join(V, "tools"))
    from propcfg import PROPS
    for m in sorted(os.listdir(srcroot)):
        src = os.path.join(srcroot, m)
        if not os.path.exists(os.path.join(src, "patch.diff")):
            continue
        # SEED_TAG=n stores out/m1 as <prop>_n1 (second wave of independent changes)
        sid = f"{prop}_{os.environ.get('SEED_TAG', 'm')}{m[1:]}" if m.startswith("m") else f"{prop}_{m}"
        dst = os.path.join(V, "seeded", sid)
        os.makedirs(dst, exist_ok=True)
        print("==", sid, flush=True)
        meta = {"id": sid, "property": prop, "origin": "independent sub-agent given only the property text and a scratch worktree"}
        old_meta = {}
        if os.path.exists(os.path.join(dst, "meta.json")):
            try:
                old_meta = json.load(open(os.path.join(dst, "meta.json")))
            except Exception:
                old_meta = {}
        if old_meta.get("confirmation", {}).get("demo_with_change"):
            meta["confirmation"] = old_meta["confirmation"]
        elif do_confirm:
            meta["confirmation"] = confirm(src)
            print("   confirm:", meta["confirmation"], flush=True)
        shutil.copy(os.path.join(src, "patch.diff"), os.path.join(dst, "patch.diff"))
        shutil.copy(os.path.join(src, "demo.rs"), os.path.join(dst, "demo.rs"))
        readme = open(os.path.join(src, "README.txt")).read() if os.path.exists(os.path.join(src, "README.txt")) else ""
        with open(os.path.join(dst, "README.txt"), "w") as f:
            f.write(readme)
        meta["needs"] = re.sub(r"\s+", " ", readme)[:1500]
        if "--confirm-only" in sys.argv:
            if old_meta.get("checks"):
                meta["checks"] = old_meta["checks"]
                meta["caught_by"] = old_meta.get("caught_by", [])
            json.dump(meta, open(os.path.join(dst, "meta.json"), "w"), indent=1)
            continue
        patch_text = open(os.path.join(src, "patch.diff")).read()
        renet_side = ["C01", "C02", "C03", "C06", "C08", "C09", "C11", "C12", "C13", "C14", "C15", "C16"]
        netcode_side = ["C04", "C05", "C07", "C10", "C13", "C16", "C17", "C18", "C19"]
        touched = []
        if "renet/src" in patch_text:
            touched += renet_side
        if "renetcode/src" in patch_text or "renet_netcode/src" in patch_text:
            touched += netcode_side
        if "renet_netcode/src" in patch_text or prop == "C20":
            touched += ["C20"]
        props = all_props or [p for p in sorted(set(touched + [prop])) if p in PROPS]
        meta["checks"] = run_checks(os.path.join(dst, "patch.diff"), props)
        caught = [p for p, r in meta["checks"].items() if isinstance(r, dict) and r["rc"] != 0]
        meta["caught_by"] = caught
        meta["ran"] = "tools/seed_eval.py: git apply in a scratch worktree, cargo test of the three crates, the demonstration with and without the change; then git -C /repo apply, ./check <id> --tier quick for every claimed property, git -C /repo checkout -- ."
        json.dump(meta, open(os.path.join(dst, "meta.json"), "w"), indent=1)
        print("   caught by:", caught, flush=True)
    if "--confirm-only" not in sys.argv:
        sh([os.path.join(V, "check"), "--setup"], cwd=V)


if __name__ == "__main__":
    main()
