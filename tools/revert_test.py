#!/usr/bin/env python3
"""Validation of the machinery itself: revert each `fix:` commit of /repo in the working tree
(git apply -R of the commit's diff), run the quick check of the properties it was filed under,
and undo the change (git checkout -- .).  Writes /verif/seeded/reverts.json.
Usage: tools/revert_test.py [commit-prefix ...]"""
import json, os, re, subprocess, sys, time

V = os.path.dirname(os.path.dirname(os.path.abspath(__file__)))
REPO = "/repo"


def sh(cmd, **kw):
    return subprocess.run(cmd, stdout=subprocess.PIPE, stderr=subprocess.STDOUT, text=True, **kw)


FIXES = []
for line in open(os.path.join(V, "known_findings.txt")):
    m = re.match(r"fixed: property=(C\d+) ([0-9a-f]{7}) (.*)", line.strip())
    if m:
        FIXES.append((m.group(2), m.group(1), m.group(3)))

EXTRA = {  # further properties a revert is expected to disturb
    "e78a72e": ["C13", "C08", "C16"], "4109bff": ["C09", "C02"], "c529a4b": ["C07", "C18"], "bf91e80": ["C10", "C05"],
    "1cb5b58": ["C07", "C16"], "9631d6d": ["C04", "C07"], "974cb70": ["C12"], "bb3f601": ["C17"],
}

sys.path.insert(0, os.path.join(V, "tools"))
from propcfg import PROPS  # noqa

want = sys.argv[1:]
results = []
assert sh(["git", "-C", REPO, "status", "--porcelain"]).stdout.strip() == "", "/repo has uncommitted changes"
for commit, prop, what in FIXES:
    if want and not any(commit.startswith(w) for w in want):
        continue
    diff = sh(["git", "-C", REPO, "diff", commit + "~1", commit]).stdout
    p = subprocess.run(["git", "-C", REPO, "apply", "-R"], input=diff, text=True, stdout=subprocess.PIPE, stderr=subprocess.STDOUT)
    entry = {"commit": commit, "filed_under": prop, "what": what, "checks": {}}
    if p.returncode != 0:
        entry["error"] = "reverse patch does not apply: " + p.stdout[-300:]
        results.append(entry)
        continue
    try:
        props = [prop] + [x for x in EXTRA.get(commit, []) if x != prop]
        for pid in props:
            if pid not in PROPS:
                entry["checks"][pid] = "not claimed yet"
                continue
            t0 = time.time()
            r = sh([os.path.join(V, "check"), pid, "--tier", "quick"], cwd=V)
            lines = [l for l in r.stdout.splitlines() if l.startswith("VIOLATION") or l.startswith("monitor:")]
            entry["checks"][pid] = {"rc": r.returncode, "wall_s": round(time.time() - t0, 1), "lines": lines[:3]}
            print(commit, pid, r.returncode, lines[:2], flush=True)
    finally:
        sh(["git", "-C", REPO, "checkout", "--", "."])
    results.append(entry)

os.makedirs(os.path.join(V, "seeded"), exist_ok=True)
out = os.path.join(V, "seeded", "reverts.json")
old = []
if want and os.path.exists(out):
    old = [e for e in json.load(open(out)) if not any(e["commit"].startswith(w) for w in want)]
json.dump(old + results, open(out, "w"), indent=1)
# leave the caches consistent with the unchanged tree
sh([os.path.join(V, "check"), "--setup"], cwd=V)
