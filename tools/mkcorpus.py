#!/usr/bin/env python3
"""Writes the committed corpus: one minimal history per defect found in the unchanged tree
(they must PASS on the repaired tree and fail again when a fix is reverted), plus the witnesses
of the known findings.  Histories are operation trees, see DESIGN.md appendix B."""
import os

V = os.path.dirname(os.path.dirname(os.path.abspath(__file__)))
OUT = os.path.join(V, "corpus")
os.makedirs(OUT, exist_ok=True)


def hx(b):
    return "x" + bytes(b).hex()


def varint(v):
    if v <= 63:
        return bytes([v])
    if v <= 16383:
        return (v | 0x4000).to_bytes(2, "big")
    if v <= 1073741823:
        return (v | 0x80000000).to_bytes(4, "big")
    return (v | 0xC000000000000000).to_bytes(8, "big")


def slice_pkt(kind, seq, ch, mid, idx, num, payload):
    return bytes([kind]) + varint(seq) + bytes([ch]) + varint(mid) + varint(idx) + varint(num) + varint(len(payload)) + payload


def write(name, suite, what, lines):
    with open(os.path.join(OUT, name + ".hist"), "w") as f:
        f.write(f"# suite={suite}\n# {what}\n")
        for l in lines:
            f.write(l + "\n")


CFG_REL = "((0 100000 1 300000000))"
CFG_BOTH = "((0 100000 1 300000000) (1 100000 0 0))"
A = "(0 0)"
B = "(0 1)"

# ---- R1: slice index >= slice count
write("R1_slice_index_out_of_range", "r-hostile", "fixed 1cfbe39 (C06): slice_index >= num_slices indexed out of bounds", [
    f"(1 0 60000 {CFG_BOTH} {CFG_BOTH})",
    f"(8 {A} {hx(slice_pkt(2, 0, 0, 0, 1, 1, b'a' * 1200))})",
    f"(9 {A})",
    f"(1 1 60000 {CFG_BOTH} {CFG_BOTH})",
    f"(8 {B} {hx(slice_pkt(3, 0, 1, 0, 5, 2, b'a' * 1200))})",
    f"(9 {B})",
])

# ---- R2: completing slice announces a larger count than the constructor was created with
write("R2_slice_count_mismatch", "r-hostile", "fixed 5779b67 (C06): memory released with the completing slice's own num_slices", [
    f"(1 0 60000 {CFG_BOTH} {CFG_BOTH})",
    f"(8 {A} {hx(slice_pkt(2, 0, 0, 0, 0, 2, b'a' * 1200))})",
    f"(8 {A} {hx(slice_pkt(2, 1, 0, 0, 1, 1000, b'b'))})",
    f"(9 {A})",
    f"(4 {A} 0)",
    f"(9 {A})",
    f"(1 1 60000 {CFG_BOTH} {CFG_BOTH})",
    f"(8 {B} {hx(slice_pkt(3, 0, 1, 0, 0, 2, b'a' * 1200))})",
    f"(8 {B} {hx(slice_pkt(3, 1, 1, 0, 1, 1000, b'b'))})",
    f"(9 {B})",
    f"(4 {B} 1)",
    f"(9 {B})",
])

# ---- R3: descending, non adjacent sequence numbers
lines = [f"(1 0 60000 {CFG_BOTH} {CFG_BOTH})"]
for i in range(700):
    seq = 4000 - 2 * i
    lines.append(f"(8 {A} {hx(bytes([1]) + varint(seq) + bytes([1, 0, 0]))})")
lines += [f"(7 {A})", f"(9 {A})", f"(7 {A})"]
write("R3_descending_sequences", "r-hostile", "fixed e78a72e (C13): pending ack ranges unbounded for descending sequences", lines)

# ---- R4: duplicate slice of a delivered unordered message while an older one is missing
CFG_UNORD = "((1 100000 2 0))"
m0 = bytes([1, 0, 0, 0]) + b"s" * 6
m1 = bytes([2, 0, 0, 0]) + b"L" * 2496
write("R4_unordered_duplicate_slice_leak", "r-pair", "fixed 4109bff (C09): duplicate slice of an already delivered unordered message leaked its reservation", [
    f"(1 0 60000 {CFG_UNORD} {CFG_UNORD})",
    f"(1 1 60000 {CFG_UNORD} {CFG_UNORD})",
    f"(60 {A} {B})",
    f"(3 {A} 1 {hx(m0)})",
    f"(3 {A} 1 {hx(m1)})",
    f"(7 {A})",
    f"(50 {A} {B} 3)",
    f"(50 {A} {B} 2)",
    f"(50 {A} {B} 1)",
    f"(61 {B} 1)",
    f"(50 {A} {B} 3)",
    f"(9 {B})",
    f"(50 {A} {B} 0)",
    f"(61 {B} 1)",
    f"(62 {B} {A})",
    f"(9 {A})",
    f"(9 {B})",
])

# ---- R5: disconnect_local_client after the server disconnected the client
write("R5_local_client_first_reason", "r-server", "fixed 974cb70 (C12): disconnect_local_client reported DisconnectedByClient instead of the first reason", [
    f"(2 60000 {CFG_REL} {CFG_REL})",
    "(28 7 3)",
    "(22 7)",
    "(29 7 3)",
    "(26)", "(26)", "(26)",
    "(28 8 4)",
    "(29 8 4)",
    "(26)", "(26)", "(26)",
])

# ---- R7: stale unreliable reassembly behind a fresher, lower message id
CFG_UNREL = "((0 100000 0 0))"
write("R7_stale_fragment_behind_fresh_one", "r-hostile", "fixed f51b551 (C09): discard loop stopped at the first fresh message id", [
    f"(1 0 60000 {CFG_UNREL} {CFG_UNREL})",
    f"(8 {A} {hx(slice_pkt(3, 0, 0, 5, 0, 2, b'a' * 1200))})",
    f"(5 {A} 2000000000)",
    f"(8 {A} {hx(slice_pkt(3, 1, 0, 4, 0, 2, b'a' * 1200))})",
    f"(5 {A} 1500000000)",
    f"(9 {A})",
    f"(5 {A} 1500000000)",
    f"(9 {A})",
])

# ---- R6 (known finding): reservations are rounded up to whole slices
CFG_SMALL = "((2 5000 1 300000000))"
msg = lambda k: bytes([k, 0, 0, 0]) + b"r" * 1197
write("R6_rounded_reservation", "r-pair", "known finding (C09): three 1201 byte messages (3603 bytes, within the 5000 byte budget) reserve 3 x 2400 bytes at the receiver", [
    f"(1 0 60000 {CFG_SMALL} {CFG_SMALL})",
    f"(1 1 60000 {CFG_SMALL} {CFG_SMALL})",
    f"(60 {A} {B})",
    f"(3 {A} 2 {hx(msg(1))})",
    f"(3 {A} 2 {hx(msg(2))})",
    f"(3 {A} 2 {hx(msg(3))})",
    f"(7 {A})",
    f"(50 {A} {B} 5)",
    f"(61 {B} 2)",
    f"(50 {A} {B} 3)",
    f"(61 {B} 2)",
    f"(50 {A} {B} 1)",
    f"(9 {B})",
])

# =================== renetcode ===================
KEY = bytes(range(32))
ZKEY = "(1 " + hx(KEY) + ")"
write("N1_sequence_length_nibble", "n-codec", "fixed e736be1 (C07): announced sequence length 9..15 sliced an 8 byte buffer", [
    f"(120 {hx(bytes([0x95]) + bytes(25))} 7 {ZKEY})",
    f"(120 {hx(bytes([0xF4]) + bytes(40))} 7 {ZKEY})",
    "(121 0)",
    f"(127 0 {hx(bytes([0xA5]) + bytes(30))} 7 {hx(KEY)})",
])
write("N2_body_shorter_than_tag", "n-codec", "fixed 1cc6fac (C07): body shorter than the 16 byte tag underflowed in the decrypt helper", [
    f"(120 {hx(bytes([0x85]) + bytes(17))} 7 {ZKEY})",
    f"(120 {hx(bytes([0x84]) + bytes(23))} 7 {ZKEY})",
    f"(120 {hx(bytes([0x16]) + bytes(17))} 7 {ZKEY})",
])
write("N3_sequence_u64_max", "n-codec", "fixed 17e8470 (C07): sequence + 256 overflowed in already_received", [
    "(121 0)",
    "(122 0 18446744073709551615)",
    "(122 0 18446744073709551360)",
    "(123 0 18446744073709551614)",
    "(122 0 18446744073709551615)",
    f"(127 0 {hx(bytes([0x85]) + bytes([255]) * 8 + bytes(20))} 7 {hx(KEY)})",
])


def token_bytes(create, expire, entries, count=None):
    b = (5).to_bytes(8, "little") + b"NETCODE 1.02\0" + (7).to_bytes(8, "little")
    b += create.to_bytes(8, "little") + expire.to_bytes(8, "little") + bytes(24) + bytes(1024) + (15).to_bytes(4, "little")
    b += (len(entries) if count is None else count).to_bytes(4, "little")
    for e in entries:
        b += e
    b += bytes(64)
    return b


V4 = bytes([1, 127, 0, 0, 1]) + (5000).to_bytes(2, "little")
write("N8a_token_without_address", "n-codec", "fixed 1cb5b58 (C07, C16): tokens with no usable address panicked NetcodeClient::new; holes did not round trip", [
    f"(117 {hx(token_bytes(0, 30, []))})",
    f"(118 50 0 {hx(token_bytes(0, 30, []))})",
    f"(117 {hx(token_bytes(0, 30, [bytes([0])]))})",
    f"(118 51 0 {hx(token_bytes(0, 30, [bytes([0])]))})",
    f"(117 {hx(token_bytes(0, 30, [bytes([0]), V4]))})",
    f"(118 52 0 {hx(token_bytes(0, 30, [bytes([0]), V4]))})",
    "(103 52 0)",
    "(107 52)",
    f"(117 {hx(token_bytes(0, 30, [V4, bytes([0]), V4, bytes([0])]))})",
])
write("N8b_token_expires_before_creation", "n-codec", "fixed 5a07595 (C07): expire_timestamp - create_timestamp underflowed in NetcodeClient::update", [
    f"(117 {hx(token_bytes(1000, 999, [V4]))})",
    f"(118 50 0 {hx(token_bytes(1000, 999, [V4]))})",
    "(103 50 250000000)",
    "(107 50)",
])

SADDR = "(4 x0a000001 5000)"
X, Y, Z = "(4 x7f000001 3000)", "(4 x7f000001 3001)", "(4 x7f000001 3002)"
SKEY = bytes(range(100, 132))
USER = lambda k: hx(bytes([k]) * 256)


def server(maxc):
    return f"(100 0 {maxc} 7 ({SADDR}) (1 {hx(SKEY)}) x)"


def token(tk, cid, user, expire=30, timeout=5):
    return f"(101 {tk} 0 7 {expire} {cid} (0 {timeout}) ({SADDR}) {USER(user)} {hx(SKEY)})"


write("N4_unauthenticated_refresh", "n-world", "fixed c529a4b (C07, C18): any datagram that decoded from a client's address refreshed its timeout", [
    server(4), f"(160 0 {X})", token(0, 1, 1), "(102 0 0 0)", "(170 0 4)",
    "(111 4000000000)", "(116)", "(119 1)",
    f"(110 {X} {hx(bytes(1078))})", "(119 1)",
    "(150 0 2 0 0 0)", "(119 1)",
    "(111 1500000000)", "(112 1)", "(116)",
])
write("N5_crossed_challenge", "n-world", "fixed bf91e80 (C05, C10): a response echoing the challenge of another token connected a second client under the same id", [
    server(4), f"(160 0 {X})", f"(160 1 {Y})", f"(160 2 {Z})",
    token(0, 1, 1), token(1, 1, 2), token(2, 2, 3),
    "(102 0 0 0)", "(102 1 0 1)", "(102 2 0 2)",
    "(103 1 0)", "(150 1 0 0 0 0)",
    "(170 0 4)",
    "(103 2 0)", "(150 2 0 0 0 0)",
    "(155 1 2 50)",
    "(116)",
    "(155 2 1 51)",
    "(116)",
])
write("N6_raised_client_limit", "n-world", "fixed 743a5ac (C18): set_max_clients did not grow the slot array", [
    "(100 0 1 7 (" + SADDR + ") (1 " + hx(SKEY) + ") x)", "(115 3)",
    f"(160 0 {X})", f"(160 1 {Y})", token(0, 1, 1), token(1, 2, 2),
    "(102 0 0 0)", "(102 1 0 1)",
    "(170 0 4)", "(170 1 4)", "(116)",
])
write("N7_global_sequence_nonce_reuse", "n-world", "fixed bb3f601 (C17): the first challenge and the first keep-alive were both sealed with nonce 0 under one key", [
    server(4), f"(160 0 {X})", token(0, 1, 1), "(102 0 0 0)", "(170 0 4)", "(114 1 x0102)", "(116)",
])
write("N11_replayed_handshake", "n-world", "fixed 9631d6d (C04, C07): a recorded handshake could be replayed as a whole after the session ended", [
    server(4), f"(160 0 {X})", token(0, 1, 1), "(102 0 0 0)", "(170 0 4)",
    "(105 0 x70617931)", "(150 0 0 0 0 0)",
    "(106 0)", "(150 0 0 0 0 0)", "(116)",
    "(150 0 5 0 0 0)", "(150 0 4 0 0 0)", "(116)",
    "(150 0 1 0 0 0)", "(116)",
])
print("corpus written:", len(os.listdir(OUT)), "files")
