#!/usr/bin/env python3
"""Generate coq/Props/Cxx.v: each file restates, in full, the theorems that decide property Cxx
(`Theorem Cxx_name : <statement>. Proof. exact lemma. Qed.` + `Print Assumptions`).  The statement
text is copied from the proof file once, here; afterwards the Props file pins it: a lemma that is
later weakened no longer proves the pinned statement and the build of Props/Cxx.v fails."""
import os, re, sys

V = os.path.dirname(os.path.dirname(os.path.abspath(__file__)))
COQ = os.path.join(V, "coq")

# property -> (title, [ (proof file, [lemma, ...]) ], note)
TABLE = {
    "C01": ("ReliableOrdered: exactly-once, in-order, intact delivery under any faults", [
        ("Proofs/RecvRelP.v", ["ordered_prefix", "honest_step_ok_or_memory", "exec_stops_only_on_memory", "ordered_complete_buffered", "ordered_receive_available", "drained_is_empty"]),
        ("Proofs/SliceP.v", ["slices_partition", "ctor_reassembles"]),
        ("Proofs/PacketP.v", ["packet_roundtrip"]),
        ("Proofs/SendRelP.v", ["sr_send_safe", "sr_get_packets_safe", "prompt_all", "prompt_small"]),
        ("Proofs/ConnP.v", ["cstep_safe", "crun_safe"]),
        ("Proofs/RSysP.v", ["sys_inv_holds", "sys_ordered_prefix", "sys_ordered_prefix_ba"]),
        ("Proofs/RLiveP.v", ["good_tick_delivers_budget_suffices", "good_tick_progress", "good_ticks_deliver", "eventually_delivered", "drain_succeeds", "good_ticks_is_run"]),
    ], "Safety: for every order, duplication and loss of honest packets and every interleaving of receive calls, what the application obtained is a byte-identical prefix of what was submitted. Liveness is stated as progress: once every part of a message has arrived it is buffered and receive_message hands it over; a due message that fits the budget is retransmitted at the next tick."),
    "C02": ("ReliableUnordered: each message delivered exactly once, intact", [
        ("Proofs/RecvRelP.v", ["unordered_exactly_once", "unordered_eager", "unordered_receive_available", "honest_step_ok_or_memory", "exec_stops_only_on_memory", "drained_is_empty"]),
        ("Proofs/SliceP.v", ["ctor_reassembles"]),
        ("Proofs/SendRelP.v", ["sr_get_packets_safe", "prompt_all", "prompt_small"]),
        ("Proofs/RSysP.v", ["sys_unordered_exactly_once", "sys_unordered_exactly_once_ba"]),
        ("Proofs/RLiveP.v", ["good_tick_progress", "good_ticks_deliver", "eventually_delivered"]),
    ], ""),
    "C03": ("Message integrity / fragmentation", [
        ("Proofs/SliceP.v", ["slices_partition", "ctor_reassembles", "sctor_process_safe"]),
        ("Proofs/RecvRelP.v", ["ordered_prefix", "unordered_exactly_once"]),
        ("Proofs/PacketP.v", ["packet_roundtrip", "from_bytes_wf"]),
        ("Proofs/SendRelP.v", ["sr_get_packets_safe"]),
        ("Proofs/SendUnrelP.v", ["su_get_packets_safe", "su_get_packets_spec", "su_carried"]),
        ("Proofs/RecvUnrelP.v", ["ru_process_slice_safe"]),
        ("Proofs/RSysP.v", ["sys_unreliable_submitted", "sys_got_submitted", "sys_ordered_prefix", "sys_unordered_exactly_once"]),
        ("Proofs/RMultP.v", ["sys_unreliable_multiplicity", "sys_unreliable_multiplicity_ba", "non_duplicating_network_at_most_once", "lost_slice_loses_message", "lost_packet_loses_message"]),
        ("Proofs/RCarryP.v", ["sys_unreliable_carried", "submitted_once_obtained_at_most_once"]),
    ], ""),
    "C06": ("renet survives hostile packets", [
        ("Proofs/PacketP.v", ["from_bytes_no_panic"]),
        ("Proofs/SliceP.v", ["sctor_process_safe"]),
        ("Proofs/RecvRelP.v", ["rr_process_message_safe", "rr_process_slice_safe", "rr_receive_safe"]),
        ("Proofs/RecvUnrelP.v", ["ru_process_message_safe", "ru_process_slice_safe", "ru_discard_old_safe", "ru_receive_safe"]),
        ("Proofs/DisconnectP.v", ["process_packet_reasons"]),
        ("Proofs/ServerP.v", ["process_packet_from_others", "server_frame"]),
        ("Proofs/ConnP.v", ["conn_inv_init", "process_packet_total", "process_packet_memory_bounded", "cstep_safe", "crun_safe", "flush_no_overflow"]),
        ("Proofs/HooksP.v", ["process_local_client_safe", "warp_inv_strong"]),
    ], ""),
    "C08": ("A reliable message is released only after the peer really has it", [
        ("Proofs/AcksP.v", ["add_pending_ack_wf", "add_pending_ack_sound", "feed_sound", "feed_wf", "acked_largest_spec", "acked_largest_wf"]),
        ("Proofs/SendRelP.v", ["sr_ack_message_safe", "sr_ack_slice_safe"]),
        ("Proofs/ConnP.v", ["ack_only_parsed", "acks_grow_only_by_parsed", "flush_acks_subset", "sent_info_faithful", "release_needs_ack"]),
        ("Proofs/RSysP.v", ["acks_only_received", "ack_packets_only_received", "release_implies_delivered", "acked_slice_delivered"]),
    ], ""),
    "C09": ("Channel memory budgets: never exceeded, never leaked, fully returned", [
        ("Proofs/RecvRelP.v", ["rr_inv_init", "rr_process_message_safe", "rr_process_slice_safe", "rr_receive_safe", "drained_is_empty"]),
        ("Proofs/RecvUnrelP.v", ["ru_process_slice_safe", "ru_discard_old_safe", "stale_discarded", "ru_receive_safe"]),
        ("Proofs/SendRelP.v", ["sr_send_safe", "sr_ack_message_safe", "sr_ack_slice_safe", "drained_send", "sr_available_ok"]),
        ("Proofs/SendUnrelP.v", ["su_send_safe", "su_get_packets_safe"]),
    ], ""),
    "C11": ("Isolation between clients and channels; broadcast reaches exactly its targets", [
        ("Proofs/ServerP.v", ["server_frame", "server_frame_absent", "server_frame_run", "broadcast_exact", "broadcast_except_exact", "broadcast_skips_disconnected", "attribution", "process_packet_from_others"]),
        ("Proofs/ConnP.v", ["channel_frame"]),
    ], ""),
    "C12": ("Disconnection is final and reported exactly once, with the first reason", [
        ("Proofs/DisconnectP.v", ["disconnected_absorbing", "first_reason_kept"]),
        ("Proofs/ServerP.v", ["events_alternate", "removal_reports_first_reason", "disconnect_local_reports_first_reason", "remove_connection_absent"]),
    ], ""),
    "C13": ("Every produced packet fits its carrier", [
        ("Proofs/PacketP.v", ["to_bytes_enc", "enc_len_small_reliable", "enc_len_small_unreliable", "enc_len_reliable_slice", "enc_len_unreliable_slice", "enc_len_ack"]),
        ("Proofs/AcksP.v", ["add_pending_ack_bound", "feed_bound"]),
        ("Proofs/SendRelP.v", ["sr_get_packets_sizes", "small_bodies_shape", "empty_packet_iff"]),
        ("Proofs/SendUnrelP.v", ["su_get_packets_sizes"]),
        ("Proofs/ConnP.v", ["renet_packets_fit"]),
        ("Proofs/NPacketP.v", ["encode_length", "netcode_datagrams_fit"]),
    ], ""),
    "C14": ("Per-tick bandwidth budget, in channel priority order", [
        ("Proofs/SendRelP.v", ["sr_get_packets_safe"]),
        ("Proofs/SendRelP.v", ["budget_consumed_le_pending", "untransmitted_keep_stamp", "untransmitted_keep_stamp_slice"]),
        ("Proofs/SendUnrelP.v", ["su_get_packets_safe", "su_get_packets_spec", "su_carried"]),
        ("Proofs/ConnP.v", ["gather_spec", "budget_respected", "priority_order", "first_channel_gets_full_budget"]),
    ], ""),
    "C15": ("Retransmission: not before resend_time, promptly after it, never once acked", [
        ("Proofs/SendRelP.v", ["no_early_resend", "no_early_resend_slice", "transmission_stamps", "transmission_stamps_slice", "prompt_if_budget_left", "prompt_small", "prompt_all", "no_duplicates_in_tick", "acked_slice_not_resent", "acked_message_not_resent", "acked_flags_kept", "sr_ack_message_safe", "sr_ack_slice_safe"]),
    ], ""),
    "C16": ("Wire formats round-trip; acks = the set", [
        ("Proofs/VarintP.v", ["varint_roundtrip", "varint_bytes_len", "get_varint_sound"]),
        ("Proofs/PacketP.v", ["packet_roundtrip", "from_bytes_wf", "reencode_len", "to_bytes_total"]),
        ("Proofs/AcksP.v", ["feed_exact", "feed_sound", "add_pending_ack_exact", "feed_wf"]),
        ("Proofs/AcksTopP.v", ["feed_keeps_max"]),
        ("Proofs/NPacketP.v", ["npacket_roundtrip", "prefix_roundtrip", "challenge_roundtrip"]),
        ("Proofs/TokenP.v", ["private_roundtrip", "token_roundtrip", "token_read_write_read"]),
    ], ""),
    "C04": ("Netcode payloads: only authentic ones surface, each at most once", [
        ("Proofs/ReplayP.v", ["replay_at_most_once", "replay_fresh_accepted", "replay_old_rejected", "replay_inv_init", "replay_inv_step", "accepted_stays_received"]),
        ("Proofs/NPacketP.v", ["decode_sound", "decode_duplicate", "decode_replay_rejected", "decode_keeps_replay_unless_opened"]),
        ("Proofs/NClientP.v", ["client_payload_only_connected", "client_replay_is_noop"]),
        ("Proofs/NAuthP.v", ["payload_only_authentic", "session_payloads_once", "payload_implies_valid_request", "replayed_is_noop"]),
    ], ""),
    "C05": ("Only a valid, unexpired, untampered token from its own address connects", [
        ("Proofs/NAuthP.v", ["connected_implies_pending_match", "pending_implies_valid_request", "connected_implies_valid_request", "client_implies_valid_request", "request_rejects", "request_rejects_noop", "request_validates_sealed", "token_bound_to_address", "token_bound_request_dropped", "token_rebinding_refuted"]),
        ("Proofs/HooksP.v", ["fill_entries_lookup", "fill_entries_bound_to_address", "fill_entries_evicts_first"]),
    ], ""),
    "C07": ("renetcode survives hostile datagrams and tokens; no state change", [
        ("Proofs/NPacketP.v", ["decode_no_panic", "decode_unopened_keeps_replay", "decode_duplicate"]),
        ("Proofs/TokenP.v", ["token_read_no_panic", "private_decode_no_panic"]),
        ("Proofs/NServerP.v", ["process_packet_no_panic", "update_client_no_panic", "nserver_disconnect_no_panic", "generate_payload_no_panic", "nsstep_no_panic", "time_since_no_panic"]),
        ("Proofs/NAuthP.v", ["inauthentic_is_noop", "unvalidated_request_is_noop", "request_from_connected_ignored", "replayed_is_noop", "replayed_is_noop_pending"]),
        ("Proofs/NClientP.v", ["client_inv_init", "client_no_panic", "client_run_safe", "client_reachable_safe", "client_inauthentic_is_noop", "client_unsealed_is_noop_or_window", "client_ignores_requests", "client_replay_is_noop"]),
    ], ""),
    "C10": ("Netcode connection table: unique ids, unique addresses, bounded", [
        ("Proofs/NServerP.v", ["table_inv_init", "table_inv_step", "table_inv_run", "lookup_unique", "events_matched", "slots_bound", "connected_bound_run", "full_server_refuses"]),
    ], ""),
    "C17": ("AEAD discipline: tamper-evident, no nonce reuse", [
        ("Proofs/AeadP.v", ["aead_open_iff", "xaead_open_iff", "aead_seal_inj"]),
        ("Proofs/NPacketP.v", ["decode_sound", "dgram_parts_injective", "aead_input_injective"]),
        ("Proofs/TokenP.v", ["private_decode_sound", "token_aad_inj"]),
        ("Proofs/NServerP.v", ["server_seals_with", "global_seq_ge_init_run", "global_seq_never_reused", "conn_seqs_contiguous", "conn_dgram_seqs_distinct"]),
        ("Proofs/NClientP.v", ["client_sequence_increases", "disconnected_emits_nothing", "disconnected_frame"]),
    ], ""),
    "C18": ("Netcode liveness", [
        ("Proofs/NClientP.v", ["client_retries", "client_rate_limited", "client_failover", "client_failover_exhausted", "client_times_out", "client_stays_alive", "client_token_expiry", "client_accepts_challenge", "client_accepts_keepalive", "client_denied", "client_server_disconnect"]),
        ("Proofs/NServerP.v", ["server_times_out_silent", "server_keeps_live", "pending_expires", "response_connects"]),
        ("Proofs/NAuthP.v", ["request_gets_challenge", "handshake_connects"]),
        ("Proofs/NSysP.v", ["handshake_two_good_rounds", "handshake_inv_preserved", "handshake_completes_after_loss", "handshake_eventually", "handshake_eventually_closed", "handshake_liveness", "failover_round", "waiting_round", "failover_then_connects"]),
        ("Proofs/HooksP.v", ["unsecure_client_ok"]),
    ], ""),
    "C20": ("UDP netcode transport keeps message and handshake layers in lock-step", [
        ("Proofs/GlueP.v", ["nsstep_ids_step", "handle_result_lockstep", "tserver_update_lockstep", "tserver_update_events", "tserver_update_pushes_down", "app_step_lockstep", "tserver_send_lockstep", "tserver_disconnect_all_lockstep", "tclient_update_mirrors", "tclient_disconnect_spec", "client_recv_loop_spec", "recv_loop_surfaced", "payload_finds_connection", "wrun_inv", "world_events_alternate"]),
    ], ""),
    "C19": ("No traffic amplification", [
        ("Proofs/NServerP.v", ["no_amplification"]),
    ], ""),
}


def strip_comments(text):
    out, depth, i = [], 0, 0
    while i < len(text):
        if text.startswith("(*", i):
            depth += 1
            i += 2
        elif text.startswith("*)", i) and depth > 0:
            depth -= 1
            i += 2
        else:
            if depth == 0:
                out.append(text[i])
            i += 1
    return "".join(out)


def statement_of(path, lemma):
    text = strip_comments(open(os.path.join(COQ, path)).read())
    m = re.search(r"^(?:Theorem|Lemma|Corollary)\s+%s(?![\w'])(.*?)\.\s*\n\s*Proof" % re.escape(lemma), text, re.S | re.M)
    if not m:
        return checked_statement(path, lemma)
    body = m.group(1).strip()
    if not body.startswith(":"):
        # binders before the colon: take the closed statement from Coq instead
        return checked_statement(path, lemma)
    return body


def checked_statement(path, lemma):
    """For theorems stated inside a Section: ask Coq for the generalised statement."""
    import subprocess
    mod = path[:-2].split("/")[-1]
    script = "\n".join(imports_of(path)) + f"\nFrom RenetV Require Import {mod}.\nOpen Scope N_scope.\nSet Printing Width 110.\nSet Printing Depth 100000.\nCheck {lemma}.\n"
    r = subprocess.run(["coqtop", "-Q", COQ, "RenetV"], input=script, stdout=subprocess.PIPE, stderr=subprocess.STDOUT, text=True, timeout=300)
    out = r.stdout
    m = re.search(r"^(?:Coq < )*%s\s*\n\s*:(.*?)(?=\n\nCoq <|\nCoq <)" % re.escape(lemma), out, re.S | re.M)
    if not m:
        return None
    return ": " + m.group(1).strip()


def imports_of(path):
    text = open(os.path.join(COQ, path)).read()
    imps = re.findall(r"^((?:From\s+\S+\s+)?Require\s+(?:Import|Export)\s+.*?\.)\s*$", text, re.M)
    return imps


def main():
    which = sys.argv[1:] or sorted(TABLE)
    os.makedirs(os.path.join(COQ, "Props"), exist_ok=True)
    made = []
    for pid in which:
        title, groups, note = TABLE[pid]
        lines = [f"(* {pid} - {title}", "   GENERATED by tools/mkprops.py, then committed: this file pins the statements.",
                 "   Nothing but `Theorem`, `exact`, `Print Assumptions`. The proofs live in Proofs/. *)"]
        imps, body, count, missing = [], [], 0, []
        seen_names = set()
        for gi, (path, lemmas) in enumerate(groups):
            if not os.path.exists(os.path.join(COQ, path)):
                missing.append(path)
                continue
            mod = path[:-2].split("/")[-1]
            gimps = []
            for line in list(imports_of(path)) + [f"From RenetV Require Import {mod}."]:
                m = re.match(r"((?:From\s+\S+\s+)?)Require\s+(?:Import|Export)\s+(.*)\.\s*$", line, re.S)
                if not m:
                    continue
                names = m.group(2).split()
                req = f"{m.group(1)}Require {' '.join(names)}."
                if req not in imps:
                    imps.append(req)
                gimps.append("Import " + " ".join(names) + ".")
            gbody = []
            for lem in lemmas:
                st = statement_of(path, lem)
                if st is None:
                    missing.append(f"{path}:{lem}")
                    continue
                name = f"{pid}_{lem}"
                if name in seen_names:
                    continue
                seen_names.add(name)
                gbody.append(f"Theorem {name} {st}.\nProof. exact {binder_free(mod + '.' + lem, st)}. Qed.\nPrint Assumptions {name}.\n")
                count += 1
            if gbody:
                # each group in its own module: names resolve exactly as in the proof file the statements come from
                body.append(f"Module From_{mod}_{gi}.\n" + "\n".join(gimps) + "\nOpen Scope N_scope.\n\n" + "\n".join(gbody) + f"End From_{mod}_{gi}.\n")
        if note:
            lines.append(f"(* {note} *)")
        if missing:
            lines.append("(* not yet available (listed in DESIGN.md as open): " + ", ".join(missing) + " *)")
        seen, uimps = set(), []
        for i in imps:
            if i not in seen:
                seen.add(i)
                uimps.append(i)
        text = "\n".join(lines) + "\n" + "\n".join(imps) + "\n\n" + "\n".join(body)
        if count == 0:
            continue
        with open(os.path.join(COQ, "Props", pid + ".v"), "w") as f:
            f.write(text)
        made.append((pid, count, missing))
    for pid, count, missing in made:
        print(pid, count, "theorems", ("missing: " + ", ".join(missing)) if missing else "")


def binder_free(lem, st):
    """`Theorem n (x : T) : P` is proved by `exact (lem x)`; collect binder names before the top-level colon."""
    depth, i = 0, 0
    names = []
    while i < len(st):
        c = st[i]
        if c in "({[":
            if depth == 0 and c == "(":
                j = st.index(")", i)
                inner = st[i + 1:j]
                if ":" in inner:
                    names += inner.split(":")[0].split()
            depth += 1
        elif c in ")}]":
            depth -= 1
        elif c == ":" and depth == 0:
            break
        i += 1
    return lem if not names else "(" + lem + " " + " ".join(names) + ")"


if __name__ == "__main__":
    main()
