use chacha20poly1305::aead::{AeadInPlace, KeyInit};
use chacha20poly1305::{ChaCha20Poly1305, XChaCha20Poly1305, Key, Nonce, XNonce, Tag};

struct Rng(u64);
impl Rng {
    fn next(&mut self) -> u8 {
        // xorshift64*
        self.0 ^= self.0 >> 12; self.0 ^= self.0 << 25; self.0 ^= self.0 >> 27;
        (self.0.wrapping_mul(0x2545F4914F6CDD1D) >> 56) as u8
    }
    fn bytes(&mut self, n: usize) -> Vec<u8> { (0..n).map(|_| self.next()).collect() }
}
fn lst(v: &[u8]) -> String {
    let s: Vec<String> = v.iter().map(|b| b.to_string()).collect();
    format!("[{}]", s.join(";"))
}
fn main() {
    let mut rng = Rng(0x9E3779B97F4A7C15);
    let lens = [0usize, 1, 15, 16, 17, 63, 64, 65, 300, 1024];
    let alens = [0usize, 1, 12, 16, 17, 33];
    println!("From RenetV Require Import Base.\nFrom RenetV.Crypto Require Import Chacha20 Poly1305 Aead.");
    let mut i = 0;
    for (li, &pl) in lens.iter().enumerate() {
        for x in 0..2 {
            for rep in 0..2 {
                let al = alens[(li + x + 3 * rep) % alens.len()];
                let key = rng.bytes(32);
                let aad = rng.bytes(al);
                let pt = rng.bytes(pl);
                let mut buf = pt.clone();
                let (nonce, tag): (Vec<u8>, Tag) = if x == 0 {
                    let n = rng.bytes(12);
                    let c = ChaCha20Poly1305::new(Key::from_slice(&key));
                    let t = c.encrypt_in_place_detached(Nonce::from_slice(&n), &aad, &mut buf).unwrap();
                    (n, t)
                } else {
                    let n = rng.bytes(24);
                    let c = XChaCha20Poly1305::new(Key::from_slice(&key));
                    let t = c.encrypt_in_place_detached(XNonce::from_slice(&n), &aad, &mut buf).unwrap();
                    (n, t)
                };
                let mut out = buf.clone();
                out.extend_from_slice(&tag);
                let f = if x == 0 { "aead" } else { "xaead" };
                println!("Definition k{i} := {}.\nDefinition n{i} := {}.\nDefinition a{i} := {}.\nDefinition p{i} := {}.\nDefinition c{i} := {}.",
                    lst(&key), lst(&nonce), lst(&aad), lst(&pt), lst(&out));
                println!("Example seal{i} : {f}_seal k{i} n{i} a{i} p{i} = c{i}. Proof. vm_compute. reflexivity. Qed.");
                println!("Example open{i} : {f}_open k{i} n{i} a{i} c{i} = Some p{i}. Proof. vm_compute. reflexivity. Qed.");
                // tampered tag / ciphertext must be rejected
                println!("Example bad{i} : {f}_open k{i} n{i} a{i} (c{i} ++ [0]) = None /\\ {f}_open k{i} n{i} (0 :: a{i}) c{i} = None. Proof. vm_compute. split; reflexivity. Qed.");
                i += 1;
            }
        }
    }
    eprintln!("{} cases", i);
}
