#!/usr/bin/env python3
"""Writes /verif/MANIFEST.json from tools/propcfg.py (what is claimed = what has a Props file)."""
import json, os, sys
V = os.path.dirname(os.path.dirname(os.path.abspath(__file__)))
sys.path.insert(0, os.path.join(V, "tools"))
from propcfg import PROPS, _ALL  # noqa

TEXT = {
 "C01": "Proof (Coq) that, for every order/duplication/loss of the honest sender's packets and every interleaving of receive calls, the messages obtained on an ordered channel are a byte-identical prefix of those submitted (ordered_prefix), that reassembly yields exactly the message and only when every slice arrived, that the wire codec round-trips, and that a complete message is buffered and handed over (progress). The healed-network clause is proved as per-tick progress lemmas, not as a closed bound on ticks: partial for liveness.",
 "C02": "Proof (Coq) that on an unordered channel each id is obtained at most once and byte-identical for every event order (unordered_exactly_once), that a complete message is available to the next receive call without waiting for older ones (unordered_eager, unordered_receive_available), and that an honest run only ever stops on the memory limit. Liveness as for C01: per-tick progress, partial.",
 "C03": "Proof (Coq) that slicing partitions a message exactly, that the slice constructor returns the message exactly when all indices have been seen and nothing otherwise (any order, duplicates), that hostile slices cannot corrupt a constructor, and that packets round-trip through the wire format; the unreliable multiplicity bound is checked by the monitor on the implementation and not yet a theorem: partial.",
 "C04": "Proof (Coq) that the replay window accepts every sequence number below 2^64-1 at most once for every order, duplication and lateness (replay_at_most_once; the 2^64-1 sentinel is refuted with a witness), that a never-accepted number less than 256 behind the highest is accepted, that a datagram decodes only if its body is exactly a seal under the session key with nonce and associated data derived from its own header bytes and the protocol id (decode_sound), and that the window moves only after the tag verified. The end-to-end attribution (surfaced payload = one the peer generated, attributed to its id) is checked by the monitor on the implementation over adversarial histories; server/client theorems are being added. Unforgeability is the named assumption.",
 "C07": "Proof (Coq) that decoding any datagram, reading any bytes as a connect token and opening any private token never panics, and that a datagram whose tag does not verify leaves the replay window untouched and yields an error. The whole-endpoint statements (no panic for NetcodeServer/NetcodeClient in every state, no state change on inauthentic input) are being proved (NServerP, NClientP); meanwhile the monitor compares the full observable state before and after every datagram known to be inauthentic.",
 "C06": "Proof (Coq) that decoding any byte string never panics, that every receive-channel operation on arbitrary (hostile) slices and messages keeps the memory-accounting invariant (accounted = buffered + reserved, within the maximum) and never panics, that a packet can only disconnect with one of three reasons, and that processing a packet for one client leaves every other connection of a server untouched.",
 "C08": "Proof (Coq) that the pending-ack ranges denote only sequence numbers that were added (never acknowledges what was not received), stay well formed, and that trimming by acked_largest removes exactly the numbers up to the bound. The end-to-end statement (release implies delivery) is checked by the monitor on the implementation; the two-endpoint theorem is open: partial.",
 "C09": "Proof (Coq) of exact memory accounting of the receive channels under arbitrary input (never above the maximum, no underflow), of full return after drain under any honest schedule (drained_is_empty, for both reliable modes), and of the 3 s discard of stale unreliable reassemblies releasing exactly their reservations. Send-side accounting theorems are being added. One documented finding (reservation rounding) is excluded by class.",
 "C10": "Proof (Coq) of the connection-table invariant for every sequence of server calls and arbitrary datagrams (table_inv: connected ids pairwise distinct, connected addresses pairwise distinct, pending and connected addresses disjoint), of the bound (slots = max_clients while the limit is not lowered, so at most max_clients connected), that a ClientConnected names an id and address that were not connected and a ClientDisconnected a connected id with its address (events_matched), that lookups by id/address return the unique entry, and that a full server never connects anyone nor touches existing slots.",
 "C18": "Proof (Coq) of the server-side building blocks: a connected client silent for longer than its token's timeout is disconnected by update_client and one that is not is kept; half-open entries vanish exactly when their token expires; a valid response for a pending client connects it whenever a slot is free. The client-side retry/fail-over/time-out lemmas and the request step are being added (NClientP, NAuthP); the closed statement (connected within a bounded number of good rounds) is checked by the monitor on the implementation: partial.",
 "C19": "Proof (Coq) that for every server state and every datagram from an address that is not connected, process_packet returns nothing, or exactly one datagram to that same address that is strictly shorter than the datagram received (no_amplification), for all byte strings.",
 "C11": "Proof (Coq) of non-interference: what any server call does to connection id is a function of that connection's own state (server_frame, lifted to call sequences), broadcast performs exactly one send_message on every present connection (minus the excluded one) and nothing else, received messages are attributed to the connection they were processed on.",
 "C12": "Proof (Coq) that a disconnected connection keeps its first reason for every later call sequence and emits/accepts/yields nothing, that server events alternate Connected/Disconnected per id for every call sequence, and that removal reports the connection's first reason (Transport / DisconnectedByClient defaults).",
 "C13": "Proof (Coq) of the closed-form serialized length of every packet kind, that serialization of well-formed packets fails only for lack of buffer, and that at most MAX_ACK_RANGES ranges are kept (so an ack packet is at most 1 + 4*8 + 16*63 bytes). The bound for the packing loops and the netcode datagram bound are being added; the monitor checks every emitted length.",
 "C14": "Proof (Coq) that the payload bytes carried by the packets of one send-channel call equal the budget it consumed (never more), for both channel kinds, that what does not fit is left untouched with its timer (reliable) or dropped whole from the queue (unreliable, by an explicit specification function proved equal to the code). The connection-level threading through the channel order is being added (ConnP); the monitor checks every flush on the implementation.",
 "C15": "Proof (Coq) for every state of a reliable send channel: a part is transmitted only if never sent or resend_time has elapsed (no_early_resend), every transmission stamps the current time and untransmitted parts keep theirs, every due part is transmitted when the budget covers the backlog plus one slice (prompt_all; the exact slack the slice loop needs is a documented quirk), no part twice in a tick, and an acknowledged message or slice is never transmitted again.",
 "C16": "Proof (Coq) of the varint and packet round trips for all values below 2^62, of decode-then-reencode stability for every decodable byte string, and that the ack ranges denote exactly the fed set while below the range limit (and the newest ranges beyond it). Netcode packet/token round trips are checked differentially and are being added as theorems.",
 "C17": "Proof (Coq) that opening succeeds exactly on the output of seal for the same key, nonce and associated data (so any altered byte, truncation, other key or protocol id yields None) for both AEADs, over an executable RFC 8439 model validated against the crate byte for byte. Nonce uniqueness is checked by the monitor on every emitted datagram; its theorem is being added. Unforgeability itself is an assumption.",
}

props = [json.loads(l) for l in open(os.path.join(V, "properties.jsonl"))]
checks, na = [], []
for p in props:
    pid = p["id"]
    if pid in PROPS:
        cfg = PROPS[pid]
        checks.append({
            "property_id": pid,
            "quick_cmd": f"./check {pid} --tier quick",
            "thorough_cmd": f"./check {pid} --tier thorough",
            "evidence_file": f"/verif/evidence/{pid}.json",
            "replay_cmd_template": f"./check {pid} --replay {{path}}",
            "engine": "coq-model",
            "level_claimed": {"category": "proof", "text": TEXT.get(pid, "Proof (Coq) over the hand-written model; see DESIGN.md."), "design_ref": f"DESIGN.md section 6, {pid}"},
            "level_note": "Trusted: Coq 8.16.1 kernel; the hand-written Gallina model's faithfulness (checked on every run by differential execution of the extracted model against the real crates on generated histories, suites " + ", ".join(cfg["suites"]) + "); tools/gen_consts.py; extraction (ExtrOcamlBasic only) and the OCaml driver; the Rust harness. No axioms (Print Assumptions: closed). Assumed: " + "; ".join(cfg["assumptions"]),
            "technique": "machine-checked proof in Coq over an executable model + model/implementation correspondence check",
        })
    else:
        na.append({"property_id": pid, "reason": "not yet claimed: the model exists but the theorems/suites for this property are still being built (plan: DESIGN.md section 6)"})

m = {
    "version": 1,
    "setup_cmd": "./setup.sh",
    "hooks": {"guard": "renet_verif", "enable": "RUSTFLAGS=\"--cfg renet_verif\" (set in /verif/harness/.cargo/config.toml [build] rustflags)",
              "baseline_off_cmd": "cd /repo && cargo test --workspace --no-fail-fast --offline",
              "source_commits": ["a56e3fa", "759e102", "7470d71"], "add_only": True},
    "engines": [{"name": "coq-model", "path": "/verif/coq", "serves_properties": sorted(PROPS),
                 "kind_free_text": "Coq 8.16.1 development: executable Gallina model of renet/renetcode, theorems in Proofs/, pinned statements in Props/; extracted to OCaml and run against the real crates by /verif/harness"}],
    "checks": checks,
    "notes": "See DESIGN.md. Properties move from not_applicable to checks as their theorems land.",
    "not_applicable": na,
}
json.dump(m, open(os.path.join(V, "MANIFEST.json"), "w"), indent=1)
print("claimed:", " ".join(sorted(PROPS)))
