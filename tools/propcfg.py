"""Per-property configuration of ./check: which Props file states the theorems, which
correspondence suites exercise the model files those theorems depend on."""
import os

ALLOWED_AXIOMS = set()  # Print Assumptions must report "Closed under the global context"

# histories per suite: quick = every change (split over `shards` processes); thorough = 16 shards (+ release profile)
SUITES = {
    "r-codec": {"quick": 300, "thorough": 20000, "shards": 1},
    "r-pair": {"quick": 600, "thorough": 20000, "shards": 4},
    "r-hostile": {"quick": 800, "thorough": 20000, "shards": 4},
    "r-server": {"quick": 400, "thorough": 20000, "shards": 4},
    "n-codec": {"quick": 120, "thorough": 6000, "shards": 4},
    "n-replay": {"quick": 300, "thorough": 20000, "shards": 1},
    "n-world": {"quick": 320, "thorough": 6000, "shards": 8},
    "t-udp": {"quick": 280, "thorough": 4000, "shards": 8},
}

R_ALL = ["r-pair", "r-hostile", "r-server"]
N_ALL = ["n-codec", "n-replay", "n-world"]
MISUSE = "API misuse that the crate documents as panicking (unknown channel id, duplicate channel ids, max_clients > 1024) is out of scope"
COUNTERS = "packet sequence numbers and message ids stay below 2^62 (the varint limit; more than 10^11 years of traffic)"
HONEST = "the peer is honest and only packets the peer emitted are delivered (any loss, duplication, delay, reordering); hostile input is C06/C07"
NOFORGE = "unforgeability of ChaCha20-Poly1305 / XChaCha20-Poly1305 is not provable: what is proved is that opening succeeds only on the exact output of a seal under the same key, nonce and associated data (aead_open_iff); that a party without the key cannot produce such bytes is the assumption"

_ALL = {
    "C01": {"suites": ["r-pair", "r-server", "t-udp"], "assumptions": [HONEST, MISUSE, COUNTERS]},
    "C02": {"suites": ["r-pair", "r-server", "t-udp"], "assumptions": [HONEST, MISUSE, COUNTERS]},
    "C03": {"suites": ["r-pair", "r-server", "r-codec", "t-udp"], "assumptions": [HONEST, MISUSE, COUNTERS]},
    "C04": {"suites": N_ALL, "assumptions": [NOFORGE, "sequence numbers below 2^64 - 256"]},
    "C05": {"suites": ["n-world", "n-codec", "t-udp"], "assumptions": [NOFORGE]},
    "C06": {"suites": ["r-hostile", "r-server", "r-codec"], "assumptions": [MISUSE, COUNTERS]},
    "C07": {"suites": N_ALL, "assumptions": [NOFORGE]},
    "C08": {"suites": ["r-pair", "r-hostile", "r-server"], "assumptions": [HONEST, COUNTERS]},
    "C09": {"suites": R_ALL, "assumptions": [HONEST, MISUSE]},
    "C10": {"suites": ["n-world", "t-udp"], "assumptions": ["max_clients is not lowered at run time for the bound"]},
    "C11": {"suites": ["r-server", "r-hostile", "t-udp"], "assumptions": [MISUSE]},
    "C12": {"suites": ["r-server", "r-pair", "r-hostile", "t-udp"], "assumptions": [MISUSE]},
    "C13": {"suites": ["r-codec", "r-pair", "r-hostile", "r-server", "n-codec", "n-world"], "assumptions": [COUNTERS]},
    "C14": {"suites": ["r-pair", "r-server"], "assumptions": [MISUSE]},
    "C15": {"suites": ["r-pair", "r-server"], "assumptions": [HONEST]},
    "C16": {"suites": ["r-codec", "r-pair", "r-hostile", "n-codec", "n-world"], "assumptions": [COUNTERS]},
    "C17": {"suites": ["n-codec", "n-world"], "assumptions": [NOFORGE, "distinct tokens carry distinct keys (random 256-bit values)", "one connection attempt per token"]},
    "C18": {"suites": ["n-world", "t-udp"], "assumptions": ["the network eventually delivers: stated as explicit good rounds"]},
    "C19": {"suites": ["n-world", "n-codec"], "assumptions": []},
    "C20": {"suites": ["t-udp", "n-world", "r-server"], "assumptions": ["OS socket behaviour (kernel buffering, WouldBlock/ConnectionReset, ICMP, scheduling) is observed through real loopback sockets, not proved", "connections created with new_local_client are outside the transport (they break lock-step by construction)", NOFORGE]},
}

_coq = os.path.join(os.path.dirname(os.path.dirname(os.path.abspath(__file__))), "coq", "Props")
PROPS = {}
for _pid, _cfg in _ALL.items():
    if os.path.exists(os.path.join(_coq, _pid + ".v")) and all(s in SUITES for s in _cfg["suites"]):
        PROPS[_pid] = dict(_cfg, props="Props/%s.v" % _pid)
