"""Per-property configuration of ./check: which Props file states the theorems, which
correspondence suites exercise the model files those theorems depend on."""

ALLOWED_AXIOMS = set()  # Print Assumptions must report "Closed under the global context"

# histories per suite: quick = every change; thorough = sharded over 16 processes (+ release profile)
SUITES = {
    "r-codec": {"quick": 300, "thorough": 20000},
    "r-pair": {"quick": 400, "thorough": 20000},
    "r-hostile": {"quick": 400, "thorough": 20000},
    "r-server": {"quick": 300, "thorough": 20000},
}

PROPS = {
    "C12": {"props": "Props/C12.v", "suites": ["r-server", "r-pair", "r-hostile"],
            "assumptions": ["API misuse that the crate documents as panicking (unknown channel id) is out of scope"]},
}
