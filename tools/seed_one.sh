#!/bin/sh
# tools/seed_one.sh <seeded id> <property>...: apply one seeded change to /repo, run the named checks (quick), undo.
cd "$(dirname "$0")/.." || exit 1
id=$1; shift
test -z "$(git -C /repo status --porcelain)" || { echo "/repo not clean"; exit 2; }
git -C /repo apply "$PWD/seeded/$id/patch.diff" || exit 2
for p in "$@"; do
  ./check "$p" --tier quick 2>&1 | grep -E "^(VIOLATION|KNOWN|monitor:|C[0-9]+:)" | cut -c1-330
done
git -C /repo checkout -- .
