#!/usr/bin/env python3
"""Run the quick checks against every seeded change, several at a time.  Each worker owns a scratch copy
of /verif (with its build caches) and a scratch git worktree of /repo (both under SEED_PAR_ROOT, default
/tmp/seedpar, removed at the end); the change is applied to the worktree, never to /repo, and the checks
are pointed at it with VERIF_REPO.  Results go to seeded/<id>/meta.json ("checks", "caught_by",
"caught_with_input").
Usage: tools/seed_par.py [-j N] [--only-target] [--keep] <seeded id>..."""
import json, os, re, shutil, subprocess, sys, time
from concurrent.futures import ThreadPoolExecutor
from queue import Queue

V = os.path.dirname(os.path.dirname(os.path.abspath(__file__)))
ROOT = os.environ.get("SEED_PAR_ROOT", "/tmp/seedpar")
REPO = "/repo"
sys.path.insert(0, os.path.join(V, "tools"))
from propcfg import PROPS  # noqa: E402

RENET_SIDE = ["C01", "C02", "C03", "C06", "C08", "C09", "C11", "C12", "C13", "C14", "C15", "C16"]
NETCODE_SIDE = ["C04", "C05", "C07", "C10", "C13", "C16", "C17", "C18", "C19"]


def sh(cmd, cwd=None, env=None, timeout=7200):
    p = subprocess.run(cmd, cwd=cwd, env=env, stdout=subprocess.PIPE, stderr=subprocess.STDOUT, text=True, timeout=timeout)
    return p.returncode, p.stdout


def make_worker(i):
    ve, rp = os.path.join(ROOT, f"verif_{i}"), os.path.join(ROOT, f"repo_{i}")
    os.makedirs(ROOT, exist_ok=True)
    if not os.path.isdir(rp):
        sh(["git", "-C", REPO, "worktree", "add", "--detach", rp, "HEAD"])
    sh(["git", "-C", rp, "checkout", "--detach", sh(["git", "-C", REPO, "rev-parse", "HEAD"])[1].strip()])
    sh(["git", "-C", rp, "checkout", "--", "."])
    if os.path.exists(os.path.join(REPO, "Cargo.lock")):
        shutil.copy(os.path.join(REPO, "Cargo.lock"), os.path.join(rp, "Cargo.lock"))
    sh(["rsync", "-a", "--delete", "--exclude", ".git", "--exclude", "replays", "--exclude", ".cache/lock", V + "/", ve + "/"])
    return ve, rp


def props_for(sid, patch_text, only_target):
    prop = sid.split("_")[0]
    if only_target:
        return [prop]
    touched = []
    if "renet/src" in patch_text:
        touched += RENET_SIDE
    if "renetcode/src" in patch_text or "renet_netcode/src" in patch_text:
        touched += NETCODE_SIDE
    if "renet_netcode/src" in patch_text or prop == "C20":
        touched += ["C20"]
    # the target property first
    rest = [p for p in sorted(set(touched)) if p in PROPS and p != prop]
    return [prop] + rest


def evaluate(sid, worker, only_target):
    ve, rp = worker
    patch = os.path.join(V, "seeded", sid, "patch.diff")
    text = open(patch).read()
    sh(["git", "-C", rp, "checkout", "--", "."])
    rc, o = sh(["git", "-C", rp, "apply", patch])
    if rc != 0:
        return {"error": "patch does not apply: " + o[-300:]}
    env = dict(os.environ, VERIF_REPO=rp, CARGO_NET_OFFLINE="true")
    res = {}
    try:
        for pid in props_for(sid, text, only_target):
            t0 = time.time()
            rc, o = sh([os.path.join(ve, "check"), pid, "--tier", "quick"], cwd=ve, env=env)
            lines = [l[:400] for l in o.splitlines() if l.startswith("VIOLATION") or l.startswith("monitor:") or l.startswith("mismatch")]
            res[pid] = {"rc": rc, "wall_s": round(time.time() - t0, 1), "lines": lines[:4]}
    finally:
        sh(["git", "-C", rp, "checkout", "--", "."])
    return res


def main():
    args = sys.argv[1:]
    jobs = 4
    if "-j" in args:
        k = args.index("-j")
        jobs = int(args[k + 1])
        del args[k:k + 2]
    only_target = "--only-target" in args
    keep = "--keep" in args
    ids = [a for a in args if not a.startswith("--")]
    if not ids:
        ids = sorted(d for d in os.listdir(os.path.join(V, "seeded")) if os.path.exists(os.path.join(V, "seeded", d, "patch.diff")))
    workers = Queue()
    for i in range(jobs):
        workers.put(make_worker(i))
    print(f"{len(ids)} seeded changes, {jobs} workers", flush=True)

    def one(sid):
        w = workers.get()
        try:
            t0 = time.time()
            res = evaluate(sid, w, only_target)
        finally:
            workers.put(w)
        mp = os.path.join(V, "seeded", sid, "meta.json")
        meta = json.load(open(mp)) if os.path.exists(mp) else {"id": sid, "property": sid.split("_")[0]}
        if only_target and isinstance(meta.get("checks"), dict):
            meta["checks"].update(res)
        else:
            meta["checks"] = res
        checks = meta["checks"]
        meta["caught_by"] = sorted(p for p, r in checks.items() if isinstance(r, dict) and r.get("rc"))
        meta["caught_with_input"] = sorted(p for p, r in checks.items() if isinstance(r, dict) and r.get("rc") and any(l.startswith("VIOLATION") and "no-failing-input-found" not in l for l in r.get("lines", [])))
        meta["ran"] = "tools/seed_par.py: patch applied to a scratch worktree of /repo (VERIF_REPO), ./check <id> --tier quick for the properties on the side of the code the change touches, worktree restored"
        json.dump(meta, open(mp, "w"), indent=1)
        tgt = sid.split("_")[0]
        print(f"{sid}: target {'INPUT' if tgt in meta['caught_with_input'] else ('caught' if tgt in meta['caught_by'] else 'MISSED')}; with input {meta['caught_with_input']}; caught {meta['caught_by']} ({time.time() - t0:.0f}s)", flush=True)

    with ThreadPoolExecutor(jobs) as ex:
        list(ex.map(one, ids))
    if not keep:
        for i in range(jobs):
            sh(["git", "-C", REPO, "worktree", "remove", "--force", os.path.join(ROOT, f"repo_{i}")])
        shutil.rmtree(ROOT, ignore_errors=True)
        sh(["git", "-C", REPO, "worktree", "prune"])


if __name__ == "__main__":
    main()
