#!/bin/sh
# Re-runs every claimed check (quick tier, seed 1) on the current tree so that the committed
# evidence files describe exactly what a fresh run produces.
cd "$(dirname "$0")/.." || exit 1
export VERIF_SEED=1 VERIF_TIER=quick
./check --setup | tail -1
fail=0
for p in $(python3 -c "import sys; sys.path.insert(0,'tools'); from propcfg import PROPS; print(' '.join(sorted(PROPS)))"); do
  out=$(./check "$p" --tier quick 2>&1 | tail -2 | cut -c1-220)
  echo "$out"
  case "$out" in *VIOLATION*) fail=1;; esac
done
exit $fail
