#!/usr/bin/env python3
"""Behaviour-preserving refactorings of /repo (benign/<id>/patch.diff, written by independent sub-agents): every
quick check on the side of the code a refactoring touches must stay green.  Same mechanics as seed_par.py
(scratch worktrees, VERIF_REPO).  Anything that goes red is a false alarm of the machinery (or the refactoring
is not behaviour preserving after all: the replay tells).  Results in benign/<id>/result.json.
Usage: tools/benign_par.py [-j N] [<id>...]"""
import json, os, sys, time
from concurrent.futures import ThreadPoolExecutor
from queue import Queue

V = os.path.dirname(os.path.dirname(os.path.abspath(__file__)))
sys.path.insert(0, os.path.join(V, "tools"))
import seed_par as sp  # noqa: E402


def main():
    args = sys.argv[1:]
    jobs = 3
    if "-j" in args:
        k = args.index("-j"); jobs = int(args[k + 1]); del args[k:k + 2]
    root = os.path.join(V, "benign")
    ids = args or sorted(d for d in os.listdir(root) if os.path.exists(os.path.join(root, d, "patch.diff")))
    workers = Queue()
    for i in range(jobs):
        workers.put(sp.make_worker(i))

    def one(bid):
        w = workers.get()
        try:
            ve, rp = w
            patch = os.path.join(root, bid, "patch.diff")
            text = open(patch).read()
            sp.sh(["git", "-C", rp, "checkout", "--", "."])
            rc, o = sp.sh(["git", "-C", rp, "apply", patch])
            res = {}
            if rc != 0:
                res = {"error": "patch does not apply: " + o[-300:]}
            else:
                props = []
                if "renet/src" in text:
                    props += sp.RENET_SIDE
                if "renetcode/src" in text or "renet_netcode/src" in text:
                    props += sp.NETCODE_SIDE
                props = sorted(set(props + ["C20"]))
                env = dict(os.environ, VERIF_REPO=rp, CARGO_NET_OFFLINE="true")
                for pid in props:
                    t0 = time.time()
                    rc, o = sp.sh([os.path.join(ve, "check"), pid, "--tier", "quick"], cwd=ve, env=env)
                    lines = [l[:400] for l in o.splitlines() if l.startswith("VIOLATION") or l.startswith("monitor:")]
                    res[pid] = {"rc": rc, "wall_s": round(time.time() - t0, 1), "lines": lines[:3]}
                    if rc != 0:
                        # keep the replay for inspection
                        for l in lines:
                            if l.startswith("VIOLATION") and "replay=" in l:
                                rpth = l.split("replay=")[1].split()[0]
                                if os.path.exists(rpth):
                                    import shutil
                                    shutil.copy(rpth, os.path.join(root, bid, pid + "-" + os.path.basename(rpth)))
                sp.sh(["git", "-C", rp, "checkout", "--", "."])
        finally:
            workers.put(w)
        json.dump(res, open(os.path.join(root, bid, "result.json"), "w"), indent=1)
        red = [p for p, r in res.items() if isinstance(r, dict) and r.get("rc")]
        print(f"{bid}: {'ALL GREEN' if not red and 'error' not in res else ('RED ' + str(red) if red else res.get('error'))}", flush=True)

    with ThreadPoolExecutor(jobs) as ex:
        list(ex.map(one, ids))
    for i in range(jobs):
        sp.sh(["git", "-C", sp.REPO, "worktree", "remove", "--force", os.path.join(sp.ROOT, f"repo_{i}")])
    import shutil
    shutil.rmtree(sp.ROOT, ignore_errors=True)
    sp.sh(["git", "-C", sp.REPO, "worktree", "prune"])


if __name__ == "__main__":
    main()
