#!/usr/bin/env python3
"""False alarm hunt on the unchanged tree: runs the quick tier of every check for a range of seeds in a
scratch copy of /verif (SOAK_ROOT, default /tmp/soak; removed at the end unless --keep) against a scratch
worktree of /repo's HEAD; any VIOLATION line is a defect of the machinery or of /repo and is printed with its replay, which is
copied to /verif/.cache/soak/.  Usage: tools/soak.py <first seed> <last seed> [-j N] [--props C01,C02]"""
import os, shutil, subprocess, sys
from concurrent.futures import ThreadPoolExecutor

V = os.path.dirname(os.path.dirname(os.path.abspath(__file__)))
ROOT = os.environ.get("SOAK_ROOT", "/tmp/soak")
sys.path.insert(0, os.path.join(V, "tools"))
from propcfg import PROPS  # noqa: E402


def sh(cmd, cwd=None, env=None):
    p = subprocess.run(cmd, cwd=cwd, env=env, stdout=subprocess.PIPE, stderr=subprocess.STDOUT, text=True)
    return p.returncode, p.stdout


def main():
    args = sys.argv[1:]
    jobs = 2
    props = sorted(PROPS)
    if "-j" in args:
        k = args.index("-j"); jobs = int(args[k + 1]); del args[k:k + 2]
    if "--props" in args:
        k = args.index("--props"); props = args[k + 1].split(","); del args[k:k + 2]
    keep = "--keep" in args
    args = [a for a in args if not a.startswith("--")]
    first, last = int(args[0]), int(args[1])
    seeds = list(range(first, last + 1))
    os.makedirs(ROOT, exist_ok=True)
    out_dir = os.path.join(V, ".cache", "soak")
    os.makedirs(out_dir, exist_ok=True)
    # the checks read a scratch worktree of /repo at its HEAD, so that work in /repo itself cannot disturb the hunt
    rp = os.path.join(ROOT, "repo")
    sh(["git", "-C", "/repo", "worktree", "add", "--detach", rp, "HEAD"])
    if os.path.exists("/repo/Cargo.lock"):
        shutil.copy("/repo/Cargo.lock", os.path.join(rp, "Cargo.lock"))
    copies = []
    for i in range(jobs):
        ve = os.path.join(ROOT, f"verif_{i}")
        sh(["rsync", "-a", "--delete", "--exclude", ".git", "--exclude", "replays", "--exclude", ".cache/lock", "--exclude", ".cache/soak", V + "/", ve + "/"])
        copies.append(ve)
    bad = []

    def run(idx_seed):
        idx, seed = idx_seed
        ve = copies[idx % jobs]
        return seed, ve

    # seeds are distributed round robin; one worker runs its seeds sequentially
    def worker(i):
        ve = copies[i]
        for seed in seeds[i::jobs]:
            env = dict(os.environ, VERIF_SEED=str(seed), CARGO_NET_OFFLINE="true", VERIF_REPO=rp)
            for pid in props:
                rc, o = sh([os.path.join(ve, "check"), pid, "--tier", "quick"], cwd=ve, env=env)
                lines = [l for l in o.splitlines() if l.startswith("VIOLATION") or l.startswith("monitor:") or l.startswith("mismatch")]
                if rc != 0 or any(l.startswith("VIOLATION") for l in lines):
                    for l in lines:
                        print(f"seed {seed} {pid}: {l[:300]}", flush=True)
                        if l.startswith("VIOLATION"):
                            rfile = l.split("replay=")[1].split()[0]
                            if os.path.exists(rfile):
                                shutil.copy(rfile, os.path.join(out_dir, f"seed{seed}-" + os.path.basename(rfile)))
                    bad.append((seed, pid))
            print(f"seed {seed}: done", flush=True)

    with ThreadPoolExecutor(jobs) as ex:
        list(ex.map(worker, range(jobs)))
    print("violations:", bad if bad else "none")
    sh(["git", "-C", "/repo", "worktree", "remove", "--force", rp])
    if not keep:
        shutil.rmtree(ROOT, ignore_errors=True)
    sh(["git", "-C", "/repo", "worktree", "prune"])
    return 1 if bad else 0


if __name__ == "__main__":
    sys.exit(main())
