#!/usr/bin/env python3
"""Regenerates the generated tables of DESIGN.md: between <!-- THEOREMS-BEGIN/END --> the theorems of
Props/Cxx.v per property (from tools/mkprops.py TABLE) and between <!-- SEEDS-BEGIN/END --> the verdicts
on the seeded changes (from seeded/*/meta.json and seeded/reverts.json)."""
import glob, json, os, re, sys

V = os.path.dirname(os.path.dirname(os.path.abspath(__file__)))
sys.path.insert(0, os.path.join(V, "tools"))
from mkprops import TABLE  # noqa: E402

OUTSIDE = {
    "C01": "disconnection by the slice-rounded reservation (known finding R6) is a hypothesis of the liveness theorem (`alive`); budget below 1200 bytes: no progress for sliced messages (refuted with witness)",
    "C02": "as C01",
    "C03": "a channel id configured both as unreliable and as reliable (accepted by the library, routes to the reliable channel): excluded by hypothesis, refuted without it",
    "C04": "unforgeability (named assumption); sequence `2^64-1` (the window's empty marker, refuted with a witness); one session per connect token",
    "C05": "the table of 2048 token entries forgets bindings (known finding N10)",
    "C06": "counters above 2^62-1 (unreachable: 2^62 packets)",
    "C07": "-",
    "C08": "-",
    "C09": "rounded reservations (known finding R6)",
    "C10": "limit lowered at run time (excluded by the property's wording)",
    "C11": "-", "C12": "-", "C13": "-", "C14": "-", "C15": "-", "C16": "-",
    "C17": "unforgeability (named assumption); one session per connect token",
    "C18": "other clients competing for the last slot during the handshake (frozen in the two-party theorem); second session on one token",
    "C19": "-",
    "C20": "OS sockets: real in the `t-udp` suite, not proved",
}


def theorems_table():
    rows = ["| id | theorems pinned in `Props/Cxx.v` (proof file: names) | outside the theorems |", "|---|---|---|"]
    for pid in sorted(TABLE):
        groups = TABLE[pid][1]
        cell = "; ".join("%s: %s" % (os.path.basename(f)[:-2], ", ".join("`%s`" % n for n in names)) for f, names in groups)
        rows.append("| %s | %s | %s |" % (pid, cell, OUTSIDE.get(pid, "-")))
    return "\n".join(rows)


def seeds_table():
    rows = ["| seeded change | what it does (first line of its README) | target property: verdict | other checks that go red (with failing input in bold) |", "|---|---|---|---|"]
    for mp in sorted(glob.glob(os.path.join(V, "seeded", "*", "meta.json"))):
        m = json.load(open(mp))
        sid = m.get("id") or os.path.basename(os.path.dirname(mp))
        tgt = m.get("property", sid.split("_")[0])
        readme = os.path.join(os.path.dirname(mp), "README.txt")
        first = ""
        if os.path.exists(readme):
            for line in open(readme):
                line = line.strip()
                if line and not set(line) <= set("=-"):
                    first = line
                    break
        first = re.sub(r"\|", "/", first)[:150]
        checks = m.get("checks") or {}
        if not checks:
            rows.append("| %s | %s | %s: not evaluated yet | |" % (sid, first, tgt))
            continue
        with_input = set(m.get("caught_with_input") or [p for p, r in checks.items() if isinstance(r, dict) and r.get("rc") and any(l.startswith("VIOLATION") and "no-failing-input-found" not in l for l in r.get("lines", []))])
        caught = set(m.get("caught_by") or [])
        verdict = "**violation with failing input**" if tgt in with_input else ("violation, no-failing-input-found" if tgt in caught else "MISSED")
        others = ", ".join(("**%s**" % p) if p in with_input else p for p in sorted(caught) if p != tgt)
        rows.append("| %s | %s | %s: %s | %s |" % (sid, first, tgt, verdict, others))
    rv = os.path.join(V, "seeded", "reverts.json")
    if os.path.exists(rv):
        for d in json.load(open(rv)):
            checks = d.get("checks", {})
            tgt = d.get("filed_under", "?")
            r = checks.get(tgt, {})
            r = r if isinstance(r, dict) else {}
            red = bool(r.get("rc"))
            with_input = red and any(l.startswith("VIOLATION") and "no-failing-input-found" not in l for l in r.get("lines", []))
            verdict = "**violation with failing input**" if with_input else ("violation, no-failing-input-found" if red else "MISSED")
            if d.get("error"):
                verdict = "the reverse patch no longer applies (a later fix rewrote the same lines); the same mechanism is covered by the seeded changes C05_m3 and C10_m3"
            others = ", ".join(sorted(p for p, x in checks.items() if p != tgt and isinstance(x, dict) and x.get("rc")))
            rows.append("| revert of fix `%s` | %s | %s: %s | %s |" % (d.get("commit", ""), re.sub(r"\|", "/", d.get("what", ""))[:150], tgt, verdict, others))
    return "\n".join(rows)


def splice(text, tag, body):
    a, z = "<!-- %s-BEGIN -->" % tag, "<!-- %s-END -->" % tag
    if a not in text:
        return text
    i, j = text.index(a) + len(a), text.index(z)
    return text[:i] + "\n" + body + "\n" + text[j:]


def main():
    p = os.path.join(V, "DESIGN.md")
    t = open(p).read()
    t = splice(t, "THEOREMS", theorems_table())
    t = splice(t, "SEEDS", seeds_table())
    open(p, "w").write(t)


if __name__ == "__main__":
    main()
