//! Executes renet operation trees against the real crate and renders the observation tree.
use crate::tree::*;
use bytes::Bytes;
use renet::verif::{Packet, SerializationError, Slice};
use renet::{ChannelConfig, ChannelError, ConnectionConfig, DisconnectReason, RenetClient, RenetServer, SendType, ServerEvent};
use std::collections::{BTreeMap, HashMap};
use std::panic::{catch_unwind, AssertUnwindSafe};
use std::time::Duration;

#[derive(Clone, Copy, Hash, PartialEq, Eq, Debug, PartialOrd, Ord)]
pub enum Ep {
    Conn(u64),
    Srv(u64),
}

pub fn ep_tree(e: Ep) -> Tree {
    match e {
        Ep::Conn(k) => l(vec![n(0u8), n(k)]),
        Ep::Srv(id) => l(vec![n(1u8), n(id)]),
    }
}
pub fn parse_ep(t: &Tree) -> Option<Ep> {
    let v = t.as_l()?;
    if v.len() != 2 {
        return None;
    }
    match v[0].as_u64()? {
        0 => Some(Ep::Conn(v[1].as_u64()?)),
        1 => Some(Ep::Srv(v[1].as_u64()?)),
        _ => None,
    }
}

#[derive(Clone, Debug)]
pub struct ChanCfg {
    pub id: u8,
    pub max: usize,
    pub ty: u8, // 0 U, 1 RO, 2 RU
    pub resend_ns: u64,
}

pub fn cfg_tree(c: &[ChanCfg]) -> Tree {
    l(c.iter().map(|c| l(vec![n(c.id), nu(c.max), n(c.ty), n(c.resend_ns)])).collect())
}
pub fn parse_cfgs(t: &Tree) -> Option<Vec<ChanCfg>> {
    let mut out = vec![];
    for c in t.as_l()? {
        let v = c.as_l()?;
        if v.len() != 4 {
            return None;
        }
        out.push(ChanCfg {
            id: u8::try_from(v[0].as_u64()?).ok()?,
            max: v[1].as_u64()? as usize,
            ty: u8::try_from(v[2].as_u64()?).ok()?,
            resend_ns: v[3].as_u64()?,
        });
    }
    Some(out)
}
fn to_channel_configs(c: &[ChanCfg]) -> Vec<ChannelConfig> {
    c.iter()
        .map(|c| ChannelConfig {
            channel_id: c.id,
            max_memory_usage_bytes: c.max,
            send_type: match c.ty {
                0 => SendType::Unreliable,
                1 => SendType::ReliableOrdered { resend_time: Duration::from_nanos(c.resend_ns) },
                _ => SendType::ReliableUnordered { resend_time: Duration::from_nanos(c.resend_ns) },
            },
        })
        .collect()
}

pub fn ser_err_tree(e: SerializationError) -> Tree {
    n(match e {
        SerializationError::BufferTooShort => 0u8,
        SerializationError::InvalidNumSlices => 1,
        SerializationError::SliceSizeAboveLimit => 2,
        SerializationError::EmptySlice => 3,
        SerializationError::InvalidAckRange => 4,
        SerializationError::InvalidPacketType => 5,
        // a variant the model does not know: the observation differs from the model's, the run goes on
        #[allow(unreachable_patterns)]
        _ => 99,
    })
}
fn chan_err_tree(e: ChannelError) -> Tree {
    n(match e {
        ChannelError::ReliableChannelMaxMemoryReached => 0u8,
        ChannelError::InvalidSliceMessage => 1,
        #[allow(unreachable_patterns)]
        _ => 99,
    })
}
pub fn reason_tree(r: DisconnectReason) -> Tree {
    match r {
        DisconnectReason::Transport => l(vec![n(0u8)]),
        DisconnectReason::DisconnectedByClient => l(vec![n(1u8)]),
        DisconnectReason::DisconnectedByServer => l(vec![n(2u8)]),
        DisconnectReason::PacketSerialization(e) => l(vec![n(3u8), ser_err_tree(e)]),
        DisconnectReason::PacketDeserialization(e) => l(vec![n(4u8), ser_err_tree(e)]),
        DisconnectReason::ReceivedInvalidChannelId(ch) => l(vec![n(5u8), n(ch)]),
        DisconnectReason::SendChannelError { channel_id, error } => l(vec![n(6u8), n(channel_id), chan_err_tree(error)]),
        DisconnectReason::ReceiveChannelError { channel_id, error } => l(vec![n(7u8), n(channel_id), chan_err_tree(error)]),
        #[allow(unreachable_patterns)]
        _ => l(vec![n(99u8)]),
    }
}
pub fn status_tree(c: &RenetClient) -> Tree {
    if c.is_connected() {
        l(vec![n(0u8)])
    } else if c.is_connecting() {
        l(vec![n(1u8)])
    } else {
        l(vec![n(2u8), reason_tree(c.disconnect_reason().unwrap())])
    }
}

pub fn slice_tree(s: &Slice) -> Tree {
    l(vec![n(s.message_id), nu(s.slice_index), nu(s.num_slices), b(&s.payload)])
}
pub fn packet_tree(p: &Packet) -> Tree {
    match p {
        Packet::SmallReliable { sequence, channel_id, messages } => l(vec![
            n(0u8),
            n(*sequence),
            n(*channel_id),
            l(messages.iter().map(|(id, m)| l(vec![n(*id), b(m)])).collect()),
        ]),
        Packet::SmallUnreliable { sequence, channel_id, messages } => {
            l(vec![n(1u8), n(*sequence), n(*channel_id), l(messages.iter().map(|m| b(m)).collect())])
        }
        Packet::ReliableSlice { sequence, channel_id, slice } => l(vec![n(2u8), n(*sequence), n(*channel_id), slice_tree(slice)]),
        Packet::UnreliableSlice { sequence, channel_id, slice } => l(vec![n(3u8), n(*sequence), n(*channel_id), slice_tree(slice)]),
        Packet::Ack { sequence, ack_ranges } => {
            l(vec![n(4u8), n(*sequence), l(ack_ranges.iter().map(|r| l(vec![n(r.start), n(r.end)])).collect())])
        }
    }
}
fn parse_slice(t: &Tree) -> Option<Slice> {
    let v = t.as_l()?;
    if v.len() != 4 {
        return None;
    }
    Some(Slice {
        message_id: v[0].as_u64()?,
        slice_index: v[1].as_u64()? as usize,
        num_slices: v[2].as_u64()? as usize,
        payload: Bytes::copy_from_slice(v[3].as_b()?),
    })
}
pub fn parse_packet(t: &Tree) -> Option<Packet> {
    let v = t.as_l()?;
    match v.first()?.as_u64()? {
        0 if v.len() == 4 => {
            let mut messages = vec![];
            for m in v[3].as_l()? {
                let m = m.as_l()?;
                if m.len() != 2 {
                    return None;
                }
                messages.push((m[0].as_u64()?, Bytes::copy_from_slice(m[1].as_b()?)));
            }
            Some(Packet::SmallReliable { sequence: v[1].as_u64()?, channel_id: v[2].as_u64()? as u8, messages })
        }
        1 if v.len() == 4 => {
            let mut messages = vec![];
            for m in v[3].as_l()? {
                messages.push(Bytes::copy_from_slice(m.as_b()?));
            }
            Some(Packet::SmallUnreliable { sequence: v[1].as_u64()?, channel_id: v[2].as_u64()? as u8, messages })
        }
        2 if v.len() == 4 => Some(Packet::ReliableSlice { sequence: v[1].as_u64()?, channel_id: v[2].as_u64()? as u8, slice: parse_slice(&v[3])? }),
        3 if v.len() == 4 => Some(Packet::UnreliableSlice { sequence: v[1].as_u64()?, channel_id: v[2].as_u64()? as u8, slice: parse_slice(&v[3])? }),
        4 if v.len() == 3 => {
            let mut ack_ranges = vec![];
            for r in v[2].as_l()? {
                let r = r.as_l()?;
                if r.len() != 2 {
                    return None;
                }
                ack_ranges.push(r[0].as_u64()?..r[1].as_u64()?);
            }
            Some(Packet::Ack { sequence: v[1].as_u64()?, ack_ranges })
        }
        _ => None,
    }
}

/// Packet::to_bytes into a buffer of `cap` bytes
pub fn encode_packet(p: &Packet, cap: usize) -> Result<Vec<u8>, SerializationError> {
    let mut buf = vec![0u8; cap];
    let len = {
        let mut oct = octets::OctetsMut::with_slice(&mut buf);
        p.to_bytes(&mut oct)?
    };
    buf.truncate(len);
    Ok(buf)
}
pub fn decode_packet(bytes: &[u8]) -> Result<Packet, SerializationError> {
    let mut oct = octets::Octets::with_slice(bytes);
    Packet::from_bytes(&mut oct)
}

pub fn conn_state_tree(c: &RenetClient) -> Tree {
    let live = !c.is_disconnected();
    let smem = c.verif_send_memory();
    let rmem = c.verif_receive_memory();
    let pair = |rel: bool, v: &[(u8, bool, usize)]| -> Tree {
        l(v.iter().filter(|x| x.1 == rel).map(|x| l(vec![n(x.0), nu(x.2)])).collect())
    };
    let unacked = l(c
        .verif_unacked()
        .iter()
        .map(|(ch, ms)| {
            l(vec![
                n(*ch),
                l(ms.iter().map(|(id, flags)| l(vec![n(*id), l(flags.iter().map(|f| tbool(*f)).collect())])).collect()),
            ])
        })
        .collect());
    let acks = l(c.verif_pending_acks().iter().map(|(a, bb)| l(vec![n(*a), n(*bb)])).collect());
    let sent = nlist(&c.verif_sent_packets());
    let recv = if live {
        l(vec![
            pair(true, &rmem),
            pair(false, &rmem),
            l(c.verif_receive_reliable_state()
                .iter()
                .map(|(ch, oldest, ms, sl)| l(vec![n(*ch), n(*oldest), nlist(ms), nlist(sl)]))
                .collect()),
            l(c.verif_receive_unreliable_state().iter().map(|(ch, sl)| l(vec![n(*ch), nlist(sl)])).collect()),
        ])
    } else {
        l(vec![])
    };
    l(vec![status_tree(c), n(c.verif_packet_sequence()), pair(true, &smem), pair(false, &smem), unacked, acks, sent, recv])
}

fn event_tree(e: &ServerEvent) -> Tree {
    match e {
        ServerEvent::ClientConnected { client_id } => l(vec![n(0u8), n(*client_id)]),
        ServerEvent::ClientDisconnected { client_id, reason } => l(vec![n(1u8), n(*client_id), reason_tree(*reason)]),
    }
}

pub struct RWorld {
    pub conns: BTreeMap<u64, RenetClient>,
    pub server: Option<RenetServer>,
    pub conn_cfgs: HashMap<u64, (u64, Vec<ChanCfg>, Vec<ChanCfg>)>, // budget, send, recv
    pub server_cfg: Option<(u64, Vec<ChanCfg>, Vec<ChanCfg>)>,
    pub poisoned: bool,
}

macro_rules! guard {
    ($self:ident, $body:expr) => {
        match catch_unwind(AssertUnwindSafe(|| $body)) {
            Ok(v) => v,
            Err(_) => {
                $self.poisoned = true;
                return panic_tree();
            }
        }
    };
}

impl RWorld {
    pub fn new() -> Self {
        RWorld { conns: BTreeMap::new(), server: None, conn_cfgs: HashMap::new(), server_cfg: None, poisoned: false }
    }

    pub fn conn_ref(&self, e: Ep) -> Option<&RenetClient> {
        match e {
            Ep::Conn(k) => self.conns.get(&k),
            Ep::Srv(id) => self.server.as_ref().and_then(|s| s.verif_connection(id)),
        }
    }

    pub fn send_cfg(&self, e: Ep) -> Option<&Vec<ChanCfg>> {
        match e {
            Ep::Conn(k) => self.conn_cfgs.get(&k).map(|c| &c.1),
            Ep::Srv(_) => self.server_cfg.as_ref().map(|c| &c.1),
        }
    }
    pub fn recv_cfg(&self, e: Ep) -> Option<&Vec<ChanCfg>> {
        match e {
            Ep::Conn(k) => self.conn_cfgs.get(&k).map(|c| &c.2),
            Ep::Srv(_) => self.server_cfg.as_ref().map(|c| &c.2),
        }
    }
    pub fn budget(&self, e: Ep) -> Option<u64> {
        match e {
            Ep::Conn(k) => self.conn_cfgs.get(&k).map(|c| c.0),
            Ep::Srv(_) => self.server_cfg.as_ref().map(|c| c.0),
        }
    }

    fn st(&self, e: Ep) -> Tree {
        match self.conn_ref(e) {
            Some(c) => status_tree(c),
            None => unresolved_tree(),
        }
    }

    /// Executes a resolved operation (opcodes < 50) and returns the observation.
    pub fn exec(&mut self, op: &Tree) -> Tree {
        let v = match op.as_l() {
            Some(v) => v,
            None => return l(vec![n(98u8)]),
        };
        let code = match op.opcode() {
            Some(c) => c,
            None => return l(vec![n(98u8)]),
        };
        let bad = || l(vec![n(98u8)]);
        match code {
            1 => {
                let (k, budget) = (v[1].as_u64().unwrap(), v[2].as_u64().unwrap());
                let (sc, rc) = (parse_cfgs(&v[3]).unwrap(), parse_cfgs(&v[4]).unwrap());
                let cfg = ConnectionConfig {
                    available_bytes_per_tick: budget,
                    client_channels_config: to_channel_configs(&sc),
                    server_channels_config: to_channel_configs(&rc),
                };
                let c = guard!(self, RenetClient::new(cfg));
                let t = status_tree(&c);
                self.conns.insert(k, c);
                self.conn_cfgs.insert(k, (budget, sc, rc));
                t
            }
            2 => {
                let budget = v[1].as_u64().unwrap();
                let (sc, cc) = (parse_cfgs(&v[2]).unwrap(), parse_cfgs(&v[3]).unwrap());
                let cfg = ConnectionConfig {
                    available_bytes_per_tick: budget,
                    server_channels_config: to_channel_configs(&sc),
                    client_channels_config: to_channel_configs(&cc),
                };
                self.server = Some(RenetServer::new(cfg));
                self.server_cfg = Some((budget, sc, cc));
                l(vec![])
            }
            3 => {
                let e = match parse_ep(&v[1]) { Some(e) => e, None => return bad() };
                let ch = v[2].as_u64().unwrap() as u8;
                let m = Bytes::copy_from_slice(v[3].as_b().unwrap());
                if self.conn_ref(e).is_none() {
                    return unresolved_tree();
                }
                match e {
                    Ep::Conn(k) => {
                        let c = self.conns.get_mut(&k).unwrap();
                        guard!(self, c.send_message(ch, m));
                    }
                    Ep::Srv(id) => {
                        let s = self.server.as_mut().unwrap();
                        guard!(self, s.send_message(id, ch, m));
                    }
                }
                self.st(e)
            }
            4 => {
                let e = match parse_ep(&v[1]) { Some(e) => e, None => return bad() };
                let ch = v[2].as_u64().unwrap() as u8;
                if self.conn_ref(e).is_none() {
                    return unresolved_tree();
                }
                let m = match e {
                    Ep::Conn(k) => {
                        let c = self.conns.get_mut(&k).unwrap();
                        guard!(self, c.receive_message(ch))
                    }
                    Ep::Srv(id) => {
                        let s = self.server.as_mut().unwrap();
                        guard!(self, s.receive_message(id, ch))
                    }
                };
                topt(m.map(|m| b(&m)))
            }
            5 => {
                let e = match parse_ep(&v[1]) { Some(e) => e, None => return bad() };
                let dt = v[2].as_u64().unwrap();
                match e {
                    Ep::Conn(k) => {
                        let c = match self.conns.get_mut(&k) { Some(c) => c, None => return unresolved_tree() };
                        guard!(self, c.update(Duration::from_nanos(dt)));
                        self.st(e)
                    }
                    Ep::Srv(_) => unresolved_tree(),
                }
            }
            6 => {
                let dt = v[1].as_u64().unwrap();
                let s = match self.server.as_mut() { Some(s) => s, None => return unresolved_tree() };
                guard!(self, s.update(Duration::from_nanos(dt)));
                l(vec![])
            }
            7 => {
                let e = match parse_ep(&v[1]) { Some(e) => e, None => return bad() };
                if self.conn_ref(e).is_none() {
                    return unresolved_tree();
                }
                let pk = match e {
                    Ep::Conn(k) => {
                        let c = self.conns.get_mut(&k).unwrap();
                        guard!(self, c.get_packets_to_send())
                    }
                    Ep::Srv(id) => {
                        let s = self.server.as_mut().unwrap();
                        guard!(self, s.get_packets_to_send(id).unwrap())
                    }
                };
                l(vec![l(pk.iter().map(|p| b(p)).collect()), self.st(e)])
            }
            8 => {
                let e = match parse_ep(&v[1]) { Some(e) => e, None => return bad() };
                let bytes = v[2].as_b().unwrap().to_vec();
                if self.conn_ref(e).is_none() {
                    return unresolved_tree();
                }
                match e {
                    Ep::Conn(k) => {
                        let c = self.conns.get_mut(&k).unwrap();
                        guard!(self, c.process_packet(&bytes));
                    }
                    Ep::Srv(id) => {
                        let s = self.server.as_mut().unwrap();
                        guard!(self, s.process_packet_from(&bytes, id).unwrap());
                    }
                }
                self.st(e)
            }
            9 => {
                let e = match parse_ep(&v[1]) { Some(e) => e, None => return bad() };
                match self.conn_ref(e) {
                    Some(c) => conn_state_tree(c),
                    None => unresolved_tree(),
                }
            }
            10 | 11 | 12 | 13 => {
                let e = match parse_ep(&v[1]) { Some(e) => e, None => return bad() };
                match e {
                    Ep::Conn(k) => {
                        let c = match self.conns.get_mut(&k) { Some(c) => c, None => return unresolved_tree() };
                        match code {
                            10 => c.set_connected(),
                            11 => c.set_connecting(),
                            12 => c.disconnect(),
                            _ => c.disconnect_due_to_transport(),
                        }
                        self.st(e)
                    }
                    Ep::Srv(_) => unresolved_tree(),
                }
            }
            14 => {
                // (14 e seq id): verification hook, the counters of a fresh connection move forward
                let e = match parse_ep(&v[1]) { Some(e) => e, None => return bad() };
                let (seq, id) = match (v.get(2).and_then(|t| t.as_u64()), v.get(3).and_then(|t| t.as_u64())) { (Some(a), Some(bb)) => (a, bb), _ => return bad() };
                match e {
                    Ep::Conn(k) => {
                        let c = match self.conns.get_mut(&k) { Some(c) => c, None => return unresolved_tree() };
                        c.verif_warp(seq, id);
                        l(vec![])
                    }
                    Ep::Srv(_) => unresolved_tree(),
                }
            }
            30 => {
                let e = match parse_ep(&v[1]) { Some(e) => e, None => return bad() };
                let ch = v[2].as_u64().unwrap() as u8;
                let c = match self.conn_ref(e) { Some(c) => c, None => return unresolved_tree() };
                let r = guard!(self, c.channel_available_memory(ch));
                nu(r)
            }
            31 => {
                let e = match parse_ep(&v[1]) { Some(e) => e, None => return bad() };
                let ch = v[2].as_u64().unwrap() as u8;
                let size = v[3].as_u64().unwrap() as usize;
                let c = match self.conn_ref(e) { Some(c) => c, None => return unresolved_tree() };
                let r = guard!(self, c.can_send_message(ch, size));
                tbool(r)
            }
            20..=29 | 32..=39 | 42 => {
                if self.server.is_none() {
                    return unresolved_tree();
                }
                self.exec_server(code, v)
            }
            40 => {
                let bytes = v[1].as_b().unwrap().to_vec();
                let r = guard!(self, decode_packet(&bytes));
                match r {
                    Ok(p) => l(vec![n(0u8), packet_tree(&p)]),
                    Err(e) => l(vec![n(1u8), ser_err_tree(e)]),
                }
            }
            41 => {
                let cap = v[1].as_u64().unwrap() as usize;
                let p = match parse_packet(&v[2]) { Some(p) => p, None => return bad() };
                let r = guard!(self, encode_packet(&p, cap));
                match r {
                    Ok(bytes) => l(vec![n(0u8), b(&bytes)]),
                    Err(e) => l(vec![n(1u8), ser_err_tree(e)]),
                }
            }
            _ => bad(),
        }
    }

    fn exec_server(&mut self, code: u64, v: &[Tree]) -> Tree {
        let s = self.server.as_mut().unwrap();
        match code {
            20 => {
                let id = v[1].as_u64().unwrap();
                guard!(self, s.add_connection(id));
                l(vec![])
            }
            21 => {
                s.remove_connection(v[1].as_u64().unwrap());
                l(vec![])
            }
            22 => {
                s.disconnect(v[1].as_u64().unwrap());
                l(vec![])
            }
            23 => {
                s.disconnect_all();
                l(vec![])
            }
            24 => {
                let ch = v[1].as_u64().unwrap() as u8;
                let m = Bytes::copy_from_slice(v[2].as_b().unwrap());
                guard!(self, s.broadcast_message(ch, m));
                l(vec![])
            }
            25 => {
                let id = v[1].as_u64().unwrap();
                let ch = v[2].as_u64().unwrap() as u8;
                let m = Bytes::copy_from_slice(v[3].as_b().unwrap());
                guard!(self, s.broadcast_message_except(id, ch, m));
                l(vec![])
            }
            26 => topt(s.get_event().as_ref().map(event_tree)),
            27 => {
                let mut a = s.clients_id();
                a.sort_unstable();
                let mut d = s.disconnections_id();
                d.sort_unstable();
                l(vec![nlist(&a), nlist(&d), nlist(&s.verif_connection_ids())])
            }
            28 => {
                let (id, k) = (v[1].as_u64().unwrap(), v[2].as_u64().unwrap());
                let c = guard!(self, s.new_local_client(id));
                let t = status_tree(&c);
                let cfg = self.server_cfg.clone().unwrap();
                self.conns.insert(k, c);
                // a local client is built with new_from_server: it sends on the server channels
                self.conn_cfgs.insert(k, (cfg.0, cfg.1.clone(), cfg.2.clone()));
                t
            }
            29 => {
                let (id, k) = (v[1].as_u64().unwrap(), v[2].as_u64().unwrap());
                let c = match self.conns.get_mut(&k) { Some(c) => c, None => return unresolved_tree() };
                s.disconnect_local_client(id, c);
                status_tree(c)
            }
            39 => {
                let (id, k) = (v[1].as_u64().unwrap(), v[2].as_u64().unwrap());
                let c = match self.conns.get_mut(&k) { Some(c) => c, None => return unresolved_tree() };
                let r = guard!(self, s.process_local_client(id, c));
                l(vec![tbool(r.is_ok()), status_tree(c)])
            }
            42 => l(vec![nu(s.connected_clients()), tbool(s.has_connections())]),
            32 => {
                let (id, ch) = (v[1].as_u64().unwrap(), v[2].as_u64().unwrap() as u8);
                let m = Bytes::copy_from_slice(v[3].as_b().unwrap());
                guard!(self, s.send_message(id, ch, m));
                l(vec![])
            }
            33 => {
                let (id, ch) = (v[1].as_u64().unwrap(), v[2].as_u64().unwrap() as u8);
                let m = guard!(self, s.receive_message(id, ch));
                topt(m.map(|m| b(&m)))
            }
            34 => {
                let id = v[1].as_u64().unwrap();
                let r = guard!(self, s.get_packets_to_send(id));
                topt(r.ok().map(|pk| l(pk.iter().map(|p| b(p)).collect())))
            }
            35 => {
                let id = v[1].as_u64().unwrap();
                let bytes = v[2].as_b().unwrap().to_vec();
                let r = guard!(self, s.process_packet_from(&bytes, id));
                tbool(r.is_ok())
            }
            36 => {
                let id = v[1].as_u64().unwrap();
                l(vec![tbool(s.is_connected(id)), topt(s.disconnect_reason(id).map(reason_tree))])
            }
            37 => {
                let (id, ch) = (v[1].as_u64().unwrap(), v[2].as_u64().unwrap() as u8);
                let r = guard!(self, s.channel_available_memory(id, ch));
                nu(r)
            }
            38 => {
                let (id, ch, size) = (v[1].as_u64().unwrap(), v[2].as_u64().unwrap() as u8, v[3].as_u64().unwrap() as usize);
                let r = guard!(self, s.can_send_message(id, ch, size));
                tbool(r)
            }
            _ => l(vec![n(98u8)]),
        }
    }
}
