//! Runs a renet history (high-level operation trees) against the implementation,
//! producing the resolved operations for the model, the observations, and the
//! verdicts of the property monitors (which look only at the implementation).
use crate::rexec::*;
use crate::tree::*;
use renet::verif::Packet;
use std::collections::{BTreeMap, HashMap, HashSet};

#[derive(Clone, Debug)]
pub struct Violation {
    pub prop: &'static str,
    pub step: usize,
    pub msg: String,
}

#[derive(Default)]
pub struct RunResult {
    pub lines: Vec<String>,    // resolved operation lines (or comment lines), for the model driver
    pub impl_obs: Vec<String>, // same number of lines
    pub violations: Vec<Violation>,
    pub features: BTreeMap<&'static str, u64>,
    pub panicked: bool,
    pub nontrivial: bool,
}

type Part = (u8, u64, Option<usize>); // channel, message id, slice index

struct OutPkt {
    bytes: Vec<u8>,
    pkt: Option<Packet>,
    good_deliveries: u32,
}

#[derive(Default)]
struct EpMon {
    outs: Vec<OutPkt>,
    clock: u64,
    hostile_in: bool,
    sent: HashMap<u8, Vec<Vec<u8>>>,
    got: HashMap<u8, Vec<Vec<u8>>>,
    last_tx: HashMap<Part, u64>,
    acked_parts: HashSet<Part>,
    sent_parts: HashMap<u64, (u64, Vec<Part>)>,
    first_reason: Option<Tree>,
    updated_at: Option<u64>, // clock value right after the last update() call
    // unreliable: payload -> indices of the packets of outs carrying (a piece of) it
    unrel_carriers: HashMap<(u8, Vec<u8>), Vec<Vec<usize>>>,
    unrel_slices: HashMap<(u8, u64), Vec<Option<(usize, Vec<u8>)>>>,
    // unreliable reassemblies at this endpoint: (channel, message id) -> clock of the last slice that arrived
    unrel_last_slice: HashMap<(u8, u64), u64>,
    // acknowledgements: sequence numbers of the packets this endpoint processed, its own ack packets (sequence ->
    // largest sequence acknowledged), the largest value an acknowledged ack packet may have trimmed, and whether
    // packets reached it without the monitor seeing them
    recv_seqs: std::collections::BTreeSet<u64>,
    ack_sent: HashMap<u64, u64>,
    trimmed_upto: Option<u64>,
    ack_opaque: bool,
}

pub struct RHistory {
    pub world: RWorld,
    mons: HashMap<Ep, EpMon>,
    pairs: HashMap<Ep, Ep>,
    ev_state: HashMap<u64, bool>, // server events: id -> currently connected according to events
    removed_reason: HashMap<u64, std::collections::VecDeque<Option<Tree>>>, // id -> first reasons of its connections, in order of removal
    pub res: RunResult,
    step: usize,
}

fn part_list(p: &Packet) -> Vec<Part> {
    match p {
        Packet::SmallReliable { channel_id, messages, .. } => messages.iter().map(|(id, _)| (*channel_id, *id, None)).collect(),
        Packet::ReliableSlice { channel_id, slice, .. } => vec![(*channel_id, slice.message_id, Some(slice.slice_index))],
        _ => vec![],
    }
}

fn payload_bytes(p: &Packet) -> u64 {
    match p {
        Packet::SmallReliable { messages, .. } => messages.iter().map(|(_, m)| m.len() as u64).sum(),
        Packet::SmallUnreliable { messages, .. } => messages.iter().map(|m| m.len() as u64).sum(),
        Packet::ReliableSlice { slice, .. } | Packet::UnreliableSlice { slice, .. } => slice.payload.len() as u64,
        Packet::Ack { .. } => 0,
    }
}

fn packet_channel(p: &Packet) -> Option<(bool, u8)> {
    match p {
        Packet::SmallReliable { channel_id, .. } | Packet::ReliableSlice { channel_id, .. } => Some((true, *channel_id)),
        Packet::SmallUnreliable { channel_id, .. } | Packet::UnreliableSlice { channel_id, .. } => Some((false, *channel_id)),
        Packet::Ack { .. } => None,
    }
}

impl RHistory {
    pub fn new() -> Self {
        RHistory { world: RWorld::new(), mons: HashMap::new(), pairs: HashMap::new(), ev_state: HashMap::new(), removed_reason: HashMap::new(), res: RunResult::default(), step: 0 }
    }

    fn feat(&mut self, name: &'static str) {
        *self.res.features.entry(name).or_insert(0) += 1;
    }

    fn violate(&mut self, prop: &'static str, msg: String) {
        // one report per property and history is enough
        if !self.res.violations.iter().any(|v| v.prop == prop) {
            let msg: String = if msg.len() > 360 { format!("{}...", msg.chars().take(360).collect::<String>()) } else { msg };
            self.res.violations.push(Violation { prop, step: self.step, msg });
        }
    }

    fn mon(&mut self, e: Ep) -> &mut EpMon {
        self.mons.entry(e).or_default()
    }

    fn is_disc(&self, e: Ep) -> bool {
        self.world.conn_ref(e).map(|c| c.is_disconnected()).unwrap_or(true)
    }

    fn chan_type(&self, sender: Ep, ch: u8) -> Option<u8> {
        self.world.send_cfg(sender).and_then(|c| c.iter().find(|c| c.id == ch)).map(|c| c.ty)
    }

    fn emit(&mut self, op: &Tree) -> Tree {
        let obs = self.world.exec(op);
        self.res.lines.push(op.to_text());
        self.res.impl_obs.push(obs.to_text());
        if self.world.poisoned {
            self.res.panicked = true;
        }
        obs
    }

    fn comment(&mut self, text: &str) {
        self.res.lines.push(format!("# {}", text));
        self.res.impl_obs.push(format!("# {}", text));
    }

    /// Runs one high-level operation. Returns false when the history must stop (panic).
    pub fn run_op(&mut self, op: &Tree) -> bool {
        self.step += 1;
        let v = match op.as_l() {
            Some(v) if !v.is_empty() => v.to_vec(),
            _ => {
                self.comment("malformed operation skipped");
                return true;
            }
        };
        let code = op.opcode().unwrap_or(999);
        match code {
            60 => {
                if let (Some(a), Some(bb)) = (v.get(1).and_then(parse_ep), v.get(2).and_then(parse_ep)) {
                    // only two endpoints without any history form a monitored pair
                    let fresh = |m: Option<&EpMon>| m.map(|m| m.outs.is_empty() && m.sent.is_empty() && m.got.is_empty() && !m.hostile_in).unwrap_or(true);
                    if fresh(self.mons.get(&a)) && fresh(self.mons.get(&bb)) && !self.pairs.contains_key(&a) && !self.pairs.contains_key(&bb) {
                        self.pairs.insert(a, bb);
                        self.pairs.insert(bb, a);
                    }
                }
                self.comment(&format!("pair {}", op.to_text()));
            }
            50 | 51 => {
                let (src, dst, i) = match (v.get(1).and_then(parse_ep), v.get(2).and_then(parse_ep), v.get(3).and_then(|t| t.as_u64())) {
                    (Some(s), Some(d), Some(i)) => (s, d, i as usize),
                    _ => {
                        self.comment("malformed deliver skipped");
                        return true;
                    }
                };
                // the index counts back from the newest packet the source emitted
                let i = match self.mons.get(&src).map(|m| m.outs.len()) {
                    Some(len) if i < len => len - 1 - i,
                    _ => usize::MAX,
                };
                let bytes = match self.mons.get(&src).and_then(|m| m.outs.get(i)) {
                    Some(o) => o.bytes.clone(),
                    None => {
                        self.comment("deliver of a packet that does not exist skipped");
                        return true;
                    }
                };
                if self.world.conn_ref(dst).is_none() {
                    self.comment("deliver to an endpoint that does not exist skipped");
                    return true;
                }
                let mut data = bytes.clone();
                let mut genuine = self.pairs.get(&src) == Some(&dst);
                if code == 51 {
                    let kind = v.get(4).and_then(|t| t.as_u64()).unwrap_or(0);
                    let a = v.get(5).and_then(|t| t.as_u64()).unwrap_or(0) as usize;
                    let bb = v.get(6).and_then(|t| t.as_u64()).unwrap_or(0);
                    match kind {
                        0 => {
                            if !data.is_empty() {
                                let bit = a % (data.len() * 8);
                                data[bit / 8] ^= 1 << (bit % 8);
                            }
                        }
                        1 => data.truncate(a.min(data.len())),
                        2 => {
                            if !data.is_empty() {
                                let at = a % data.len();
                                data[at] = bb as u8;
                            }
                        }
                        _ => data.extend(std::iter::repeat(bb as u8).take(a.min(64))),
                    }
                    if data != bytes {
                        genuine = false;
                    }
                }
                self.deliver(src, dst, Some(i), data, genuine);
            }
            62 => {
                // flush `src` and hand every packet it returned to `dst`, in order
                let (src, dst) = match (v.get(1).and_then(parse_ep), v.get(2).and_then(parse_ep)) {
                    (Some(s), Some(d)) => (s, d),
                    _ => {
                        self.comment("malformed exchange skipped");
                        return true;
                    }
                };
                if self.world.conn_ref(src).is_none() || self.world.conn_ref(dst).is_none() {
                    self.comment("exchange between endpoints that do not exist skipped");
                    return true;
                }
                let before = self.mons.get(&src).map(|m| m.outs.len()).unwrap_or(0);
                self.do_flush(&l(vec![n(7u8), ep_tree(src)]), src);
                let after = self.mons.get(&src).map(|m| m.outs.len()).unwrap_or(0);
                let genuine = self.pairs.get(&src) == Some(&dst);
                for i in before..after {
                    if self.res.panicked {
                        break;
                    }
                    let data = self.mons.get(&src).unwrap().outs[i].bytes.clone();
                    self.deliver(src, dst, Some(i), data, genuine);
                }
            }
            64 => {
                // (64 a b max): healing - the network delivers everything again; every submitted reliable message must arrive
                let (a, bb) = match (v.get(1).and_then(parse_ep), v.get(2).and_then(parse_ep)) {
                    (Some(x), Some(y)) => (x, y),
                    _ => return true,
                };
                let max_rounds = v.get(3).and_then(|t| t.as_u64()).unwrap_or(40);
                self.heal(a, bb, max_rounds);
            }
            61 => {
                let (e, ch) = match (v.get(1).and_then(parse_ep), v.get(2).and_then(|t| t.as_u64())) {
                    (Some(e), Some(ch)) => (e, ch),
                    _ => {
                        self.comment("malformed drain skipped");
                        return true;
                    }
                };
                // until the channel is empty (a packet of tiny messages can carry several hundred of them)
                for _ in 0..4096 {
                    let got = self.do_recv(e, ch as u8);
                    if !got || self.res.panicked {
                        break;
                    }
                }
            }
            8 => {
                // raw injection of arbitrary bytes
                let (dst, bytes) = match (v.get(1).and_then(parse_ep), v.get(2).and_then(|t| t.as_b())) {
                    (Some(d), Some(bb)) => (d, bb.to_vec()),
                    _ => {
                        self.comment("malformed raw skipped");
                        return true;
                    }
                };
                if self.world.conn_ref(dst).is_none() {
                    self.comment("raw to an endpoint that does not exist skipped");
                    return true;
                }
                self.deliver(dst, dst, None, bytes, false);
            }
            1 => {
                // a new connection object: the monitors start afresh for this endpoint
                let k = v.get(1).and_then(|t| t.as_u64()).unwrap_or(0);
                self.emit(op);
                self.mons.insert(Ep::Conn(k), EpMon::default());
                if let Some(p) = self.pairs.remove(&Ep::Conn(k)) {
                    self.pairs.remove(&p);
                }
            }
            3 => self.do_send(op, &v),
            4 => {
                if let (Some(e), Some(ch)) = (v.get(1).and_then(parse_ep), v.get(2).and_then(|t| t.as_u64())) {
                    self.do_recv(e, ch as u8);
                }
            }
            5 => {
                let e = v.get(1).and_then(parse_ep);
                let dt = v.get(2).and_then(|t| t.as_u64()).unwrap_or(0);
                self.emit(op);
                if let Some(e) = e {
                    self.mon(e).clock += dt;
                    let c = self.mon(e).clock;
                    self.mon(e).updated_at = Some(c);
                }
            }
            6 => {
                let dt = v.get(1).and_then(|t| t.as_u64()).unwrap_or(0);
                self.emit(op);
                let ids: Vec<u64> = self.world.server.as_ref().map(|s| s.verif_connection_ids()).unwrap_or_default();
                for id in ids {
                    self.mon(Ep::Srv(id)).clock += dt;
                    let c = self.mon(Ep::Srv(id)).clock;
                    self.mon(Ep::Srv(id)).updated_at = Some(c);
                }
            }
            7 => {
                if let Some(e) = v.get(1).and_then(parse_ep) {
                    self.do_flush(op, e);
                }
            }
            20 => {
                // add_connection: a new connection object replaces any monitor state of an older one with this id
                let id = v.get(1).and_then(|t| t.as_u64()).unwrap_or(0);
                let existed = self.world.server.as_ref().map(|s| s.verif_connection(id).is_some()).unwrap_or(false);
                self.emit(op);
                if !existed {
                    self.mons.insert(Ep::Srv(id), EpMon::default());
                    // the former peer talked to another connection object
                    if let Some(p) = self.pairs.remove(&Ep::Srv(id)) {
                        self.pairs.remove(&p);
                    }
                }
            }
            21 | 29 => {
                // removal: remember the first disconnect reason the connection had at that moment
                let id = v.get(1).and_then(|t| t.as_u64()).unwrap_or(0);
                let exists = self.world.server.as_ref().map(|s| s.verif_connection(id).is_some()).unwrap_or(false);
                let local_alive = if code == 29 { v.get(2).and_then(|t| t.as_u64()).and_then(|k| self.world.conns.get(&k)).map(|c| !c.is_disconnected()).unwrap_or(false) } else { true };
                let reason = self.world.server.as_ref().and_then(|s| s.verif_connection(id)).and_then(|c| c.disconnect_reason()).map(reason_tree);
                if exists && local_alive {
                    self.removed_reason.entry(id).or_default().push_back(reason);
                }
                self.emit(op);
            }
            24 | 25 => {
                // broadcast: record one accepted send per live connection (minus the excluded one)
                let (except, ch, m) = if code == 24 {
                    (None, v.get(1).and_then(|t| t.as_u64()), v.get(2).and_then(|t| t.as_b()).map(|x| x.to_vec()))
                } else {
                    (v.get(1).and_then(|t| t.as_u64()), v.get(2).and_then(|t| t.as_u64()), v.get(3).and_then(|t| t.as_b()).map(|x| x.to_vec()))
                };
                let ids: Vec<u64> = self.world.server.as_ref().map(|s| s.verif_connection_ids()).unwrap_or_default();
                let live: Vec<u64> = ids.iter().copied().filter(|id| !self.is_disc(Ep::Srv(*id)) && Some(*id) != except).collect();
                // C11: the broadcast is queued exactly once on every live connection but the excluded one, nowhere else
                let mem_of = |h: &Self, id: u64, ch: u8| -> Option<(bool, usize)> {
                    h.world.conn_ref(Ep::Srv(id)).and_then(|c| c.verif_send_memory().into_iter().find(|(c2, _, _)| *c2 == ch).map(|(_, _, mem)| (c.is_disconnected(), mem)))
                };
                let before: Vec<(u64, Option<(bool, usize)>)> = ids.iter().map(|id| (*id, ch.and_then(|ch| mem_of(self, *id, ch as u8)))).collect();
                self.emit(op);
                if let (Some(ch), Some(m)) = (ch, m.clone()) {
                    if !self.res.panicked && !m.is_empty() {
                        let cfg = self.world.server_cfg.clone();
                        let chan = cfg.as_ref().and_then(|c| c.1.iter().find(|c| c.id as u64 == ch).cloned());
                        for (id, b) in before {
                            let a = mem_of(self, id, ch as u8);
                            if let (Some((bd, bm)), Some((ad, am)), Some(chan)) = (b, a, chan.as_ref()) {
                                let target = live.contains(&id);
                                let dropped_unreliable = chan.ty == 0 && bm + m.len() > chan.max && am == bm;
                                if target && !(ad || am == bm + m.len() || dropped_unreliable) {
                                    self.violate("C11", format!("after a broadcast of {} bytes on channel {} the send channel of connected client {} holds {} bytes, before {}", m.len(), ch, id, am, bm));
                                }
                                if !target && (am != bm || ad != bd) {
                                    self.violate("C11", format!("a broadcast on channel {} changed the connection of client {} which is {}", ch, id, if Some(id) == except { "the excluded one" } else { "disconnected" }));
                                }
                            }
                        }
                    }
                    for id in live {
                        self.record_send(Ep::Srv(id), ch as u8, &m);
                    }
                }
                self.feat("broadcast");
            }
            26 => {
                let obs = self.emit(op);
                self.check_event(&obs);
            }
            14 => {
                // counters warped forward: message ids no longer start at 0, the monitors that index the submitted
                // messages by id stop for this endpoint; sizes, codecs and the comparison with the model go on
                if let Some(e) = v.get(1).and_then(parse_ep) {
                    self.emit(op);
                    self.mon(e).hostile_in = true;
                    self.mon(e).ack_opaque = true;
                    if let Some(p) = self.pairs.get(&e).copied() {
                        self.mon(p).hostile_in = true;
                        self.mon(p).ack_opaque = true;
                    }
                    self.feat("counters_warped");
                }
            }
            39 => {
                // process_local_client moves packets between the two halves without showing them: the packet level
                // monitors of both endpoints stop here, the comparison with the model goes on
                let id = v.get(1).and_then(|t| t.as_u64()).unwrap_or(0);
                let k = v.get(2).and_then(|t| t.as_u64()).unwrap_or(0);
                self.emit(op);
                self.mon(Ep::Srv(id)).hostile_in = true;
                self.mon(Ep::Conn(k)).hostile_in = true;
                self.mon(Ep::Srv(id)).ack_opaque = true;
                self.mon(Ep::Conn(k)).ack_opaque = true;
                self.feat("process_local_client");
            }
            28 => {
                let id = v.get(1).and_then(|t| t.as_u64()).unwrap_or(0);
                let k = v.get(2).and_then(|t| t.as_u64()).unwrap_or(0);
                let existed = self.world.server.as_ref().map(|s| s.verif_connection(id).is_some()).unwrap_or(false);
                self.emit(op);
                if !existed {
                    self.mons.insert(Ep::Srv(id), EpMon::default());
                    if let Some(p) = self.pairs.remove(&Ep::Srv(id)) {
                        self.pairs.remove(&p);
                    }
                }
                self.mons.insert(Ep::Conn(k), EpMon::default());
                if let Some(p) = self.pairs.remove(&Ep::Conn(k)) {
                    self.pairs.remove(&p);
                }
            }
            32 => {
                // server.send_message(id, ch, m)
                let (id, ch, m) = (v.get(1).and_then(|t| t.as_u64()), v.get(2).and_then(|t| t.as_u64()), v.get(3).and_then(|t| t.as_b()).map(|x| x.to_vec()));
                let live = id.map(|id| !self.is_disc(Ep::Srv(id))).unwrap_or(false);
                self.emit(op);
                if let (Some(id), Some(ch), Some(m), true) = (id, ch, m, live) {
                    self.record_send(Ep::Srv(id), ch as u8, &m);
                }
            }
            35 => {
                // bytes handed to process_packet_from without coming from the paired client
                let id = v.get(1).and_then(|t| t.as_u64()).unwrap_or(0);
                self.mon(Ep::Srv(id)).hostile_in = true;
                self.mon(Ep::Srv(id)).ack_opaque = true;
                self.feat("hostile_delivery");
                self.emit(op);
            }
            33 => {
                let (id, ch) = (v.get(1).and_then(|t| t.as_u64()).unwrap_or(0), v.get(2).and_then(|t| t.as_u64()).unwrap_or(0));
                let was_disc = self.is_disc(Ep::Srv(id));
                let obs = self.emit(op);
                self.record_recv(Ep::Srv(id), ch as u8, &obs, was_disc);
            }
            41 => {
                // C16: what to_bytes wrote for a packet of small messages (any number of them below 65536, ids and
                // sequence number below 2^62) decodes to the same packet
                let obs = self.emit(op);
                let pt = v.get(2).cloned().unwrap_or_else(|| l(vec![]));
                let f = pt.as_l().map(|x| x.to_vec()).unwrap_or_default();
                let kind = f.first().and_then(|t| t.as_u64()).unwrap_or(9);
                let ok62 = |t: Option<&Tree>| t.and_then(|t| t.as_u64()).map(|x| x < (1 << 62)).unwrap_or(false);
                let msgs = f.get(3).and_then(|t| t.as_l()).map(|x| x.to_vec()).unwrap_or_default();
                let wf = kind <= 1 && f.len() == 4 && ok62(f.get(1)) && msgs.len() < 65536
                    && (kind == 1 || msgs.iter().all(|m| ok62(m.as_l().and_then(|x| x.first()))));
                if let (true, Some([Tree::N(0), Tree::B(bytes)])) = (wf && !self.res.panicked, obs.as_l()) {
                    let bytes = bytes.clone();
                    let back = self.emit(&l(vec![n(40u8), b(&bytes)]));
                    if back != l(vec![n(0u8), pt]) && !self.res.panicked {
                        self.violate("C16", format!("a packet of {} small messages written by to_bytes does not decode to itself: {}", msgs.len(), back.to_text().chars().take(80).collect::<String>()));
                    }
                }
            }
            _ => {
                self.emit(op);
            }
        }
        if self.res.panicked {
            self.violate("C06", format!("a call into renet panicked at step {}: {}", self.step, op.to_text()));
            return false;
        }
        self.after_step();
        true
    }

    fn record_send(&mut self, e: Ep, ch: u8, m: &[u8]) {
        // accepted unless the call disconnected the endpoint or (unreliable) the channel budget dropped it
        let ty = self.chan_type(e, ch);
        let disc = self.is_disc(e);
        let mon = self.mon(e);
        if disc && ty != Some(0) {
            return;
        }
        mon.sent.entry(ch).or_default().push(m.to_vec());
    }

    fn do_send(&mut self, op: &Tree, v: &[Tree]) {
        let (e, ch, m) = match (v.get(1).and_then(parse_ep), v.get(2).and_then(|t| t.as_u64()), v.get(3).and_then(|t| t.as_b())) {
            (Some(e), Some(ch), Some(m)) => (e, ch as u8, m.to_vec()),
            _ => {
                self.comment("malformed send skipped");
                return;
            }
        };
        let was_disc = self.is_disc(e);
        self.emit(op);
        if !was_disc && !self.res.panicked {
            self.record_send(e, ch, &m);
            self.feat(if m.len() > 1200 { "send_sliced" } else { "send_small" });
        }
    }

    fn record_recv(&mut self, e: Ep, ch: u8, obs: &Tree, was_disc: bool) -> bool {
        let got = match obs.as_l() {
            Some([Tree::N(1), Tree::B(m)]) => Some(m.clone()),
            _ => None,
        };
        if let Some(m) = got {
            if was_disc {
                self.violate("C12", format!("receive_message returned a message on a disconnected connection {:?}", e));
            }
            self.mon(e).got.entry(ch).or_default().push(m.clone());
            self.feat("message_obtained");
            self.res.nontrivial = true;
            self.check_cross_delivery(e, ch, &m);
            self.check_delivery(e, ch);
            true
        } else {
            false
        }
    }

    /// C11: a message is obtained only on the connection and channel it was submitted for. Payloads of 4 bytes and more
    /// are unique per history, so one that was not submitted by the peer on this channel but was submitted elsewhere
    /// has crossed connections or channels.
    fn check_cross_delivery(&mut self, e: Ep, ch: u8, m: &[u8]) {
        if m.len() < 4 || self.mons.get(&e).map(|x| x.hostile_in).unwrap_or(false) {
            return;
        }
        let peer = match self.pairs.get(&e) {
            Some(p) => *p,
            None => return,
        };
        let own = self.mons.get(&peer).and_then(|x| x.sent.get(&ch)).map(|v| v.iter().any(|x| x[..] == m[..])).unwrap_or(false);
        if own {
            return;
        }
        let mut origin: Option<(Ep, u8)> = None;
        for (e2, mon) in self.mons.iter() {
            for (ch2, msgs) in mon.sent.iter() {
                if (*e2, *ch2) != (peer, ch) && msgs.iter().any(|x| x[..] == m[..]) {
                    origin = Some((*e2, *ch2));
                }
            }
        }
        if let Some((e2, ch2)) = origin {
            self.violate("C03", format!("{:?} obtained on channel {} a message that was submitted by {:?} on channel {}: cross-delivered", e, ch, e2, ch2));
            self.violate("C11", format!("{:?} obtained on channel {} a message that was submitted by {:?} on channel {} (its peer is {:?})", e, ch, e2, ch2, peer));
        }
    }

    fn do_recv(&mut self, e: Ep, ch: u8) -> bool {
        if self.world.conn_ref(e).is_none() {
            self.comment("recv on an endpoint that does not exist skipped");
            return false;
        }
        let was_disc = self.is_disc(e);
        let op = l(vec![n(4u8), ep_tree(e), n(ch)]);
        let obs = self.emit(&op);
        if self.res.panicked {
            return false;
        }
        self.record_recv(e, ch, &obs, was_disc)
    }

    fn do_flush(&mut self, op: &Tree, e: Ep) {
        if self.world.conn_ref(e).is_none() {
            self.comment("flush on an endpoint that does not exist skipped");
            return;
        }
        let was_disc = self.is_disc(e);
        let budget = self.world.budget(e).unwrap_or(0);
        let order: Vec<(bool, u8)> = self.world.send_cfg(e).map(|c| c.iter().map(|c| (c.ty != 0, c.id)).collect()).unwrap_or_default();
        let resend: HashMap<u8, u64> = self.world.send_cfg(e).map(|c| c.iter().map(|c| (c.id, c.resend_ns)).collect()).unwrap_or_default();
        let obs = self.emit(op);
        if self.res.panicked {
            return;
        }
        let pkts: Vec<Vec<u8>> = match obs.as_l().and_then(|o| o.first()).and_then(|p| p.as_l()) {
            Some(p) => p.iter().filter_map(|x| x.as_b().map(|x| x.to_vec())).collect(),
            None => vec![],
        };
        if was_disc && !pkts.is_empty() {
            self.violate("C12", format!("a disconnected connection {:?} emitted {} packets", e, pkts.len()));
        }
        if let Some(Some(Tree::L(st))) = obs.as_l().map(|o| o.get(1)) {
            if st.len() == 2 && st[0] == Tree::N(2) {
                if let Some(r) = st[1].as_l() {
                    if r.first() == Some(&Tree::N(3)) && !was_disc {
                        self.violate("C13", format!("get_packets_to_send failed to serialize a packet: {}", obs.to_text()));
                    }
                }
            }
        }
        let clock = self.mon(e).clock;
        let mut total_payload = 0u64;
        let mut chan_seq: Vec<(bool, u8)> = vec![];
        let emitted_now = pkts.len();
        for bytes in pkts {
            if bytes.len() > 1300 {
                self.violate("C13", format!("packet of {} bytes returned by get_packets_to_send of {:?}", bytes.len(), e));
            }
            let pkt = decode_packet(&bytes).ok();
            if pkt.is_none() {
                self.violate("C16", format!("a packet emitted by {:?} does not decode: {}", e, b(&bytes).to_text()));
            }
            if let Some(p) = &pkt {
                total_payload += payload_bytes(p);
                if let Some(c) = packet_channel(p) {
                    if chan_seq.last() != Some(&c) {
                        chan_seq.push(c);
                    }
                }
                // C15: transmissions of reliable parts
                let parts = part_list(p);
                for part in &parts {
                    let rt = *resend.get(&part.0).unwrap_or(&0);
                    let (acked, last) = {
                        let m = self.mon(e);
                        (m.acked_parts.contains(part), m.last_tx.get(part).copied())
                    };
                    if acked {
                        self.violate("C15", format!("{:?} transmitted {:?} again after its acknowledgement was processed", e, part));
                    }
                    if let Some(t) = last {
                        self.feat("retransmission");
                        if clock - t < rt {
                            self.violate("C15", format!("{:?} retransmitted {:?} after {} ns, resend_time is {} ns", e, part, clock - t, rt));
                        }
                    }
                    self.mon(e).last_tx.insert(*part, clock);
                }
                if !parts.is_empty() {
                    self.mon(e).sent_parts.insert(p.sequence(), (clock, parts));
                }
                match p {
                    Packet::SmallReliable { .. } => self.feat("pkt_small_reliable"),
                    Packet::SmallUnreliable { .. } => self.feat("pkt_small_unreliable"),
                    Packet::ReliableSlice { .. } => self.feat("pkt_reliable_slice"),
                    Packet::UnreliableSlice { .. } => self.feat("pkt_unreliable_slice"),
                    Packet::Ack { ack_ranges, sequence } => {
                        // C08/C16: an ack packet names only sequence numbers of packets the endpoint processed, and it
                        // names the newest of them (overflow of the 64 ranges drops the oldest range; an acknowledged ack
                        // packet lets the endpoint forget what that packet carried)
                        let (opaque, newest, trimmed) = {
                            let m = self.mon(e);
                            (m.ack_opaque, m.recv_seqs.iter().next_back().copied(), m.trimmed_upto)
                        };
                        if !opaque {
                            let total = ack_ranges.iter().fold(0u64, |a, r| a.saturating_add(r.end.saturating_sub(r.start)));
                            let known = self.mon(e).recv_seqs.len() as u64;
                            // among the first known + 1 numbers named there is one that was never received, if any is
                            let stranger = ack_ranges.iter().flat_map(|r| r.clone()).take(known as usize + 1).find(|x| !self.mons.get(&e).map(|m| m.recv_seqs.contains(x)).unwrap_or(false));
                            if let Some(x) = stranger {
                                self.violate("C08", format!("{:?} acknowledges packet sequence number {} ({} numbers in all), it processed {} packets and none with that number", e, x, total, known));
                                self.violate("C16", format!("the ack packet of {:?} names sequence number {} which is not in the set of received packets", e, x));
                            }
                            if let Some(mx) = newest {
                                if trimmed.map_or(true, |t| mx > t) && !ack_ranges.iter().any(|r| r.contains(&mx)) {
                                    self.violate("C16", format!("the ack packet of {:?} ({} ranges) leaves out {}, the newest sequence number it received", e, ack_ranges.len(), mx));
                                }
                            }
                            if ack_ranges.len() > 64 {
                                self.violate("C16", format!("ack packet of {:?} with {} ranges", e, ack_ranges.len()));
                            }
                        }
                        if let Some(last) = ack_ranges.last() {
                            let l = last.end.saturating_sub(1);
                            self.mon(e).ack_sent.insert(*sequence, l);
                        }
                        self.feat("pkt_ack");
                        if ack_ranges.len() > 1 {
                            self.feat("pkt_ack_multi_range");
                        }
                    }
                }
            }
            // unreliable carriers, for the multiplicity bound of C03
            let idx = self.mon(e).outs.len();
            match &pkt {
                Some(Packet::SmallUnreliable { channel_id, messages, .. }) => {
                    for m in messages {
                        self.mon(e).unrel_carriers.entry((*channel_id, m.to_vec())).or_default().push(vec![idx]);
                    }
                }
                Some(Packet::UnreliableSlice { channel_id, slice, .. }) => {
                    let key = (*channel_id, slice.message_id);
                    let done = {
                        let m = self.mon(e);
                        let ent = m.unrel_slices.entry(key).or_insert_with(|| vec![None; slice.num_slices]);
                        if slice.slice_index < ent.len() {
                            ent[slice.slice_index] = Some((idx, slice.payload.to_vec()));
                        }
                        if ent.iter().all(|x| x.is_some()) {
                            let mut msg = vec![];
                            let mut carriers = vec![];
                            for x in ent.iter() {
                                let (i, p) = x.as_ref().unwrap();
                                msg.extend_from_slice(p);
                                carriers.push(*i);
                            }
                            Some((msg, carriers))
                        } else {
                            None
                        }
                    };
                    if let Some((msg, carriers)) = done {
                        let m = self.mon(e);
                        m.unrel_slices.remove(&key);
                        m.unrel_carriers.entry((*channel_id, msg)).or_default().push(carriers);
                    }
                }
                _ => {}
            }
            self.mon(e).outs.push(OutPkt { bytes, pkt, good_deliveries: 0 });
            self.res.nontrivial = true;
        }
        // C03: what the sender puts on the wire of an unreliable channel is bounded by what was submitted
        // (a message leaves at most once per submission; payloads of 4 bytes and more are unique per history)
        if !self.mons.get(&e).map(|m| m.hostile_in).unwrap_or(false) {
            let mut over: Option<(u8, usize, usize, usize)> = None;
            if let Some(m) = self.mons.get(&e) {
                for ((ch, msg), txs) in m.unrel_carriers.iter() {
                    if msg.len() >= 4 {
                        let submitted = m.sent.get(ch).map(|v| v.iter().filter(|x| *x == msg).count()).unwrap_or(0);
                        if txs.len() > submitted {
                            over = Some((*ch, msg.len(), txs.len(), submitted));
                        }
                    }
                }
            }
            if let Some((ch, len, n, sub)) = over {
                self.violate("C03", format!("{:?} put an unreliable message of {} bytes on the wire {} times on channel {}, it was submitted {} times", e, len, n, ch, sub));
            }
        }
        if total_payload > budget {
            self.violate("C14", format!("{:?} emitted {} payload bytes in one tick, budget is {}", e, total_payload, budget));
        }
        // C14: an unreliable sliced message goes out whole or not at all
        {
            let mut groups: HashMap<(u8, u64), (usize, HashSet<usize>)> = HashMap::new();
            let n = self.mons.get(&e).map(|m| m.outs.len()).unwrap_or(0);
            let first = n.saturating_sub(emitted_now);
            if let Some(m) = self.mons.get(&e) {
                for o in &m.outs[first..] {
                    if let Some(Packet::UnreliableSlice { channel_id, slice, .. }) = &o.pkt {
                        let g = groups.entry((*channel_id, slice.message_id)).or_insert((slice.num_slices, HashSet::new()));
                        g.1.insert(slice.slice_index);
                    }
                }
            }
            for ((ch, id), (num, idxs)) in groups {
                if idxs.len() != num {
                    self.violate("C14", format!("{:?} put {} of the {} slices of unreliable message {} of channel {} on the wire: it is dropped whole or sent whole", e, idxs.len(), num, id, ch));
                }
            }
        }
        // channels are served in configuration order, each channel's packets contiguous
        let mut pos = 0usize;
        for c in &chan_seq {
            match order[pos..].iter().position(|o| o == c) {
                Some(p) => pos += p + 1,
                None => {
                    self.violate("C14", format!("{:?} emitted channels {:?}, configuration order is {:?}", e, chan_seq, order));
                    break;
                }
            }
        }
        // C15, promptness: every unacknowledged part that was never transmitted, or whose resend time had elapsed, and
        // that the budget left over after the flush would have paid for, is in the packets of this flush
        // (a slice needs 1200 bytes of budget, a small message its own length; the budget only shrinks during a flush, so
        // what is left at the end was there when the part was looked at)
        if !self.is_disc(e) && !was_disc && !self.mons.get(&e).map(|m| m.hostile_in).unwrap_or(false) && budget >= total_payload {
            let leftover = budget - total_payload;
            let unacked = self.world.conn_ref(e).map(|c| c.verif_unacked()).unwrap_or_default();
            let mut late: Option<(Part, Option<u64>)> = None;
            {
                let m = self.mons.get(&e);
                for (ch, msgs) in &unacked {
                    let rt = *resend.get(ch).unwrap_or(&0);
                    for (id, flags) in msgs {
                        let parts: Vec<Part> = if flags.is_empty() { vec![(*ch, *id, None)] } else { flags.iter().enumerate().filter(|(_, a)| !**a).map(|(i, _)| (*ch, *id, Some(i))).collect() };
                        for part in parts {
                            let last = m.and_then(|m| m.last_tx.get(&part).copied());
                            let due = match last {
                                None => true,
                                Some(t) => t != clock && clock - t >= rt,
                            };
                            let need = match part.2 {
                                Some(_) => Some(1200u64),
                                None => m.and_then(|m| m.sent.get(ch)).and_then(|v| v.get(*id as usize)).map(|x| x.len() as u64),
                            };
                            if due && last != Some(clock) && need.map(|n| leftover >= n).unwrap_or(false) {
                                late = Some((part, last));
                            }
                        }
                    }
                }
            }
            if let Some((part, last)) = late {
                if part.2.is_some() {
                    self.violate("C14", format!("{:?} left slice {:?} waiting although {} bytes of the tick's budget were unused: what fits goes out slice by slice", e, part, budget - total_payload));
                }
                self.violate("C15", format!("{:?} did not transmit {:?} in this tick although {} bytes of budget were left and {}", e, part, budget - total_payload, match last { None => "it was never transmitted".to_string(), Some(t) => format!("its last transmission was {} ns ago", clock - t) }));
            }
        }
        // C09: an unreliable send channel holds nothing after a flush: every queued message was sent or dropped
        if !self.is_disc(e) {
            let mem: Vec<(u8, bool, usize)> = self.world.conn_ref(e).map(|c| c.verif_send_memory()).unwrap_or_default();
            for (ch, rel, bytes) in mem {
                if !rel && bytes != 0 {
                    self.violate("C09", format!("{:?} still accounts {} bytes on unreliable send channel {} after get_packets_to_send emptied its queue", e, bytes, ch));
                }
            }
        }
    }

    fn deliver(&mut self, src: Ep, dst: Ep, index: Option<usize>, data: Vec<u8>, genuine: bool) {
        let was_disc = self.is_disc(dst);
        let op = l(vec![n(8u8), ep_tree(dst), b(&data)]);
        if !genuine {
            self.mon(dst).hostile_in = true;
            self.feat("hostile_delivery");
        } else {
            self.feat("genuine_delivery");
        }
        // what the destination will have to acknowledge, and what an acknowledged ack packet lets it forget
        if !was_disc {
            if let Ok(p) = decode_packet(&data) {
                let m = self.mon(dst);
                m.recv_seqs.insert(p.sequence());
                if let Packet::Ack { ack_ranges, .. } = &p {
                    let hit: Option<u64> = m.ack_sent.iter().filter(|(s, _)| ack_ranges.iter().any(|r| r.contains(s))).map(|(_, l)| *l).max();
                    if let Some(l) = hit {
                        m.trimmed_upto = Some(m.trimmed_upto.map_or(l, |t| t.max(l)));
                    }
                }
            }
        }
        // acknowledgement bookkeeping for C15, from the bytes the destination is about to process
        if !was_disc {
            if let Ok(Packet::Ack { ack_ranges, .. }) = decode_packet(&data) {
                let tracked: HashSet<u64> = self.world.conn_ref(dst).map(|c| c.verif_sent_packets().into_iter().collect()).unwrap_or_default();
                let mut newly: Vec<Part> = vec![];
                {
                    let m = self.mon(dst);
                    let now = m.clock;
                    for r in ack_ranges {
                        for (seq, (at, parts)) in m.sent_parts.iter() {
                            // the packets the endpoint still tracks, and in any case those it sent less than 3 s ago
                            if r.contains(seq) && (tracked.contains(seq) || now.saturating_sub(*at) < 3_000_000_000) {
                                newly.extend(parts.iter().cloned());
                            }
                        }
                    }
                    for p in &newly {
                        m.acked_parts.insert(*p);
                    }
                }
                if !newly.is_empty() {
                    self.feat("ack_released_parts");
                }
            }
        }
        if !was_disc {
            if let Ok(Packet::UnreliableSlice { channel_id, slice, .. }) = decode_packet(&data) {
                let clock = self.mon(dst).clock;
                self.mon(dst).unrel_last_slice.insert((channel_id, slice.message_id), clock);
            }
        }
        // a second copy of a packet of reliable traffic that was already processed is ignored whatever the state of the channel
        let duplicate_of_processed = genuine
            && !was_disc
            && !self.mons.get(&dst).map(|m| m.hostile_in).unwrap_or(false)
            && index.and_then(|i| self.mons.get(&src).and_then(|m| m.outs.get(i)).map(|o| o.good_deliveries >= 1)).unwrap_or(false)
            && matches!(decode_packet(&data), Ok(Packet::SmallReliable { .. }) | Ok(Packet::ReliableSlice { .. }));
        self.emit(&op);
        if self.res.panicked {
            return;
        }
        if duplicate_of_processed && self.is_disc(dst) {
            let reason = self.world.conn_ref(dst).and_then(|c| c.disconnect_reason()).map(reason_tree).map(|t| t.to_text()).unwrap_or_default();
            self.violate("C09", format!("{:?} was disconnected ({}) by a second copy of a packet of reliable traffic it had already processed", dst, reason));
        }
        if genuine && !was_disc {
            if let Some(i) = index {
                if let Some(o) = self.mon(src).outs.get_mut(i) {
                    o.good_deliveries += 1;
                    if o.good_deliveries > 1 {
                        self.feat("duplicate_delivery");
                    }
                }
            }
        }
        if !was_disc && self.is_disc(dst) {
            self.feat("disconnected_by_packet");
            if genuine {
                self.check_memory_disconnect(src, dst);
            }
        }
    }

    fn reliable_backlog(&self, e: Ep) -> usize {
        // unacknowledged units: small messages and the not yet acknowledged slices of sliced ones
        self.world
            .conn_ref(e)
            .map(|c| c.verif_unacked().iter().map(|(_, v)| v.iter().map(|(_, flags)| if flags.is_empty() { 1 } else { flags.iter().filter(|a| !**a).count().max(1) }).sum::<usize>()).sum())
            .unwrap_or(0)
    }
    fn got_total(&self, e: Ep) -> usize {
        self.mons.get(&e).map(|m| m.got.values().map(|v| v.len()).sum()).unwrap_or(0)
    }

    /// C01 / C02 liveness: rounds in which every packet is delivered, ticks beyond every resend time
    fn heal(&mut self, a: Ep, bb: Ep, max_rounds: u64) {
        if self.world.conn_ref(a).is_none() || self.world.conn_ref(bb).is_none() {
            self.comment("heal between endpoints that do not exist skipped");
            return;
        }
        let paired = self.pairs.get(&a) == Some(&bb);
        let mut settled = false;
        let mut stalled_rounds = 0;
        for _ in 0..max_rounds {
            if self.res.panicked {
                return;
            }
            let before = (self.reliable_backlog(a), self.reliable_backlog(bb), self.got_total(a), self.got_total(bb));
            for (s, o) in [(a, bb), (bb, a)] {
                if let Ep::Conn(_) = s {
                    self.run_op(&l(vec![n(5u8), ep_tree(s), n(301_000_000u64)]));
                }
                self.run_op(&l(vec![n(62u8), ep_tree(s), ep_tree(o)]));
                let chans: Vec<u8> = self.world.recv_cfg(o).map(|c| c.iter().map(|c| c.id).collect()).unwrap_or_default();
                for ch in chans {
                    self.run_op(&l(vec![n(61u8), ep_tree(o), n(ch)]));
                }
            }
            let after = (self.reliable_backlog(a), self.reliable_backlog(bb), self.got_total(a), self.got_total(bb));
            // an acknowledgement needs a round trip: only several rounds in a row without any change count as a stall
            stalled_rounds = if after == before { stalled_rounds + 1 } else { 0 };
            if (after.0 == 0 && after.1 == 0) || stalled_rounds >= 3 {
                settled = true;
                break;
            }
        }
        if self.res.panicked || !paired {
            return;
        }
        if !settled {
            // still making progress when the rounds ran out: nothing can be concluded
            self.comment("heal: rounds exhausted while the backlog was still shrinking");
            return;
        }
        let clean = !self.mons.get(&a).map(|m| m.hostile_in).unwrap_or(false) && !self.mons.get(&bb).map(|m| m.hostile_in).unwrap_or(false);
        if !clean || self.is_disc(a) || self.is_disc(bb) {
            return;
        }
        for (s, o) in [(a, bb), (bb, a)] {
            // the per tick budget must allow a slice and the largest small message (C14's boundary is not a liveness failure)
            if self.world.budget(s).unwrap_or(0) < 2500 {
                continue;
            }
            let cfgs: Vec<ChanCfg> = self.world.send_cfg(s).cloned().unwrap_or_default();
            for c in cfgs.iter().filter(|c| c.ty != 0) {
                let nsent = self.mons.get(&s).and_then(|m| m.sent.get(&c.id)).map(|v| v.len()).unwrap_or(0);
                let ngot = self.mons.get(&o).and_then(|m| m.got.get(&c.id)).map(|v| v.len()).unwrap_or(0);
                self.feat("healed_channel_checked");
                if ngot != nsent {
                    if matches!(s, Ep::Srv(_)) || matches!(o, Ep::Srv(_)) {
                        let n = self.world.server.as_ref().map(|sv| sv.verif_connection_ids().len()).unwrap_or(0);
                        if n >= 2 {
                            self.violate("C11", format!("traffic between {:?} and {:?} on channel {} did not complete on a healed network while the server holds {} connections: another client's state held it back", s, o, c.id, n));
                        }
                    }
                    self.violate(if c.ty == 1 { "C01" } else { "C02" }, format!("after the network healed (every packet delivered, ticks beyond resend_time, no progress left) {:?} obtained {} of the {} messages {:?} submitted on reliable channel {}", o, ngot, nsent, s, c.id));
                }
            }
        }
    }

    /// C09: traffic within the budget, drained promptly, must not end in ReliableChannelMaxMemoryReached
    fn check_memory_disconnect(&mut self, src: Ep, dst: Ep) {
        let clean = !self.mons.get(&src).map(|m| m.hostile_in).unwrap_or(false) && !self.mons.get(&dst).map(|m| m.hostile_in).unwrap_or(false);
        if !clean || self.pairs.get(&src) != Some(&dst) {
            return;
        }
        let reason = match self.world.conn_ref(dst).and_then(|c| c.disconnect_reason()) {
            Some(r) => r,
            None => return,
        };
        let ch = match reason {
            renet::DisconnectReason::ReceiveChannelError { channel_id, error: renet::ChannelError::ReliableChannelMaxMemoryReached } => channel_id,
            _ => return,
        };
        let max = match self.world.recv_cfg(dst).and_then(|c| c.iter().find(|c| c.id == ch)).map(|c| c.max) {
            Some(m) => m,
            None => return,
        };
        let pending: Vec<u64> = self.world.conn_ref(src).map(|c| c.verif_unacked().into_iter().filter(|(c2, _)| *c2 == ch).flat_map(|(_, v)| v.into_iter().map(|(id, _)| id)).collect()).unwrap_or_default();
        let sizes: Vec<usize> = self.mons.get(&src).and_then(|m| m.sent.get(&ch)).map(|v| v.iter().map(|m| m.len()).collect()).unwrap_or_default();
        let exact: usize = pending.iter().map(|id| sizes.get(*id as usize).copied().unwrap_or(0)).sum();
        let rounded: usize = pending.iter().map(|id| { let l = sizes.get(*id as usize).copied().unwrap_or(0); if l > 1200 { l.div_ceil(1200) * 1200 } else { l } }).sum();
        let buffered = self.world.conn_ref(dst).map(|c| c.verif_receive_reliable_state().into_iter().filter(|(c2, ..)| *c2 == ch).map(|(_, _, msgs, _)| msgs.len()).sum::<usize>()).unwrap_or(0);
        if exact <= max && buffered == 0 {
            let class = if rounded > max { " [class:rounded-reservation]" } else { "" };
            self.violate("C09", format!("{:?} was disconnected for exhausted channel memory on channel {} although the peer has only {} bytes in flight (budget {}) and nothing waits to be drained{}", dst, ch, exact, max, class));
        }
    }

    fn check_event(&mut self, obs: &Tree) {
        if let Some([Tree::N(1), ev]) = obs.as_l() {
            if let Some(ev) = ev.as_l() {
                let kind = ev.first().and_then(|t| t.as_u64()).unwrap_or(9);
                let id = ev.get(1).and_then(|t| t.as_u64()).unwrap_or(0);
                let cur = *self.ev_state.get(&id).unwrap_or(&false);
                if kind == 0 {
                    if cur {
                        self.violate("C12", format!("two ClientConnected events for client {} without a disconnect between them", id));
                    }
                    self.ev_state.insert(id, true);
                    self.feat("event_connected");
                } else {
                    if !cur {
                        self.violate("C12", format!("ClientDisconnected event for client {} without a preceding connect", id));
                    }
                    // the reported reason is the connection's first one; a healthy connection reports Transport or DisconnectedByClient
                    let reported = ev.get(2).cloned();
                    let first = self.removed_reason.get_mut(&id).and_then(|q| q.pop_front()).flatten();
                    match (first, reported) {
                        (Some(f), Some(r)) if f != r => self.violate("C12", format!("client {} was first disconnected with {} but the event reports {}", id, f.to_text(), r.to_text())),
                        (None, Some(r)) => {
                            let code = r.as_l().and_then(|v| v.first()).and_then(|t| t.as_u64());
                            if code != Some(0) && code != Some(1) {
                                self.violate("C12", format!("a healthy connection of client {} was removed but the event reports {}", id, r.to_text()));
                            }
                        }
                        _ => {}
                    }
                    self.ev_state.insert(id, false);
                    self.feat("event_disconnected");
                }
            }
        }
    }

    /// C01 / C02 / C03 on the newest message obtained by `e` on `ch`.
    fn check_delivery(&mut self, e: Ep, ch: u8) {
        let peer = match self.pairs.get(&e) {
            Some(p) => *p,
            None => return,
        };
        if self.mons.get(&e).map(|m| m.hostile_in).unwrap_or(false) {
            return;
        }
        let ty = match self.chan_type(peer, ch) {
            Some(t) => t,
            None => return,
        };
        let empty = vec![];
        let sent = self.mons.get(&peer).and_then(|m| m.sent.get(&ch)).unwrap_or(&empty).clone();
        let got = self.mons.get(&e).and_then(|m| m.got.get(&ch)).unwrap_or(&empty).clone();
        let last = got.last().unwrap().clone();
        match ty {
            1 => {
                let k = got.len();
                if k > sent.len() || sent[k - 1] != last {
                    self.violate("C01", format!("{:?} obtained message #{} on ordered channel {} that is not the {}th submitted message", e, k, ch, k));
                }
            }
            2 => {
                let cnt_got = got.iter().filter(|m| **m == last).count();
                let cnt_sent = sent.iter().filter(|m| **m == last).count();
                if cnt_got > cnt_sent {
                    self.violate("C02", format!("{:?} obtained a message {} times on unordered channel {}, it was submitted {} times", e, cnt_got, ch, cnt_sent));
                }
            }
            _ => {
                let cnt_sent = sent.iter().filter(|m| **m == last).count();
                if cnt_sent == 0 {
                    self.violate("C03", format!("{:?} obtained a message on unreliable channel {} that was never submitted", e, ch));
                    return;
                }
                // multiplicity bound: sum over transmissions of min over carrying packets of deliveries
                let cnt_got = got.iter().filter(|m| **m == last).count() as u32;
                let bound: u32 = {
                    let pm = self.mons.get(&peer).unwrap();
                    pm.unrel_carriers
                        .get(&(ch, last.clone()))
                        .map(|txs| txs.iter().map(|c| c.iter().map(|i| pm.outs[*i].good_deliveries).min().unwrap_or(0)).sum())
                        .unwrap_or(0)
                };
                if cnt_got > bound {
                    self.violate("C03", format!("{:?} obtained an unreliable message {} times on channel {}, its packets were delivered {} times", e, cnt_got, ch, bound));
                }
            }
        }
    }

    fn after_step(&mut self) {
        let eps: Vec<Ep> = self
            .world
            .conns
            .keys()
            .map(|k| Ep::Conn(*k))
            .chain(self.world.server.as_ref().map(|s| s.verif_connection_ids()).unwrap_or_default().into_iter().map(Ep::Srv))
            .collect();
        for e in eps {
            let c = match self.world.conn_ref(e) {
                Some(c) => c,
                None => continue,
            };
            let disc = c.is_disconnected();
            let reason = c.disconnect_reason().map(reason_tree);
            let smem = c.verif_send_memory();
            let rmem = c.verif_receive_memory();
            let unacked = c.verif_unacked();
            let rstate = c.verif_receive_reliable_state();
            let ustate = c.verif_receive_unreliable_state();
            let send_cfg: HashMap<u8, usize> = self.world.send_cfg(e).map(|c| c.iter().map(|c| (c.id, c.max)).collect()).unwrap_or_default();
            let recv_cfg: HashMap<u8, usize> = self.world.recv_cfg(e).map(|c| c.iter().map(|c| (c.id, c.max)).collect()).unwrap_or_default();
            // C12: the first reason is kept
            if let Some(r) = reason {
                let first = self.mon(e).first_reason.clone();
                match first {
                    None => self.mon(e).first_reason = Some(r),
                    Some(f) => {
                        if f != r {
                            self.violate("C12", format!("{:?} changed its disconnect reason from {} to {}", e, f.to_text(), r.to_text()));
                        }
                    }
                }
            } else if self.mon(e).first_reason.is_some() {
                self.violate("C12", format!("{:?} was disconnected and is alive again", e));
            }
            // C09 / C06: accounted memory within the budget
            for (ch, _, mem) in &smem {
                if let Some(max) = send_cfg.get(ch) {
                    if mem > max {
                        self.violate("C09", format!("{:?} send channel {} accounts {} bytes, maximum is {}", e, ch, mem, max));
                    }
                }
            }
            if !disc {
                for (ch, _, mem) in &rmem {
                    if let Some(max) = recv_cfg.get(ch) {
                        if mem > max {
                            let hostile = self.mons.get(&e).map(|m| m.hostile_in).unwrap_or(false);
                            self.violate(if hostile { "C06" } else { "C09" }, format!("{:?} receive channel {} accounts {} bytes, maximum is {}", e, ch, mem, max));
                        }
                    }
                }
            }
            // C09: an incomplete unreliable reassembly without progress for 3 s no longer counts
            if !disc {
                let clock = self.mons.get(&e).map(|m| m.clock).unwrap_or(0);
                let updated = self.mons.get(&e).map(|m| m.updated_at == Some(clock)).unwrap_or(false);
                if updated {
                    for (ch, ids) in ustate.clone() {
                        for id in ids {
                            if let Some(t) = self.mons.get(&e).and_then(|m| m.unrel_last_slice.get(&(ch, id)).copied()) {
                                if clock - t >= 3_000_000_000 {
                                    self.violate("C09", format!("{:?} still accounts the unreliable reassembly of message {} on channel {} after {} ns without progress", e, id, ch, clock - t));
                                }
                            }
                        }
                    }
                }
            }
            // C08 / C09 need a clean pair
            let peer = match self.pairs.get(&e) {
                Some(p) => *p,
                None => continue,
            };
            let clean = !self.mons.get(&e).map(|m| m.hostile_in).unwrap_or(false) && !self.mons.get(&peer).map(|m| m.hostile_in).unwrap_or(false);
            if !clean || disc {
                continue;
            }
            // C08: released ids were delivered
            for (ch, ms) in &unacked {
                let nsent = self.mons.get(&e).and_then(|m| m.sent.get(ch)).map(|v| v.len()).unwrap_or(0) as u64;
                let pending: HashSet<u64> = ms.iter().map(|(id, _)| *id).collect();
                let sizes: Vec<usize> = self.mons.get(&e).and_then(|m| m.sent.get(ch)).map(|v| v.iter().map(|m| m.len()).collect()).unwrap_or_default();
                for id in 0..nsent {
                    let parts: Vec<Part> = if !pending.contains(&id) {
                        let len = sizes[id as usize];
                        if len > 1200 {
                            (0..len.div_ceil(1200)).map(|i| (*ch, id, Some(i))).collect()
                        } else {
                            vec![(*ch, id, None)]
                        }
                    } else {
                        // acknowledged slices of a message still pending
                        ms.iter().find(|(i, _)| *i == id).map(|(_, f)| f.iter().enumerate().filter(|(_, a)| **a).map(|(i, _)| (*ch, id, Some(i))).collect()).unwrap_or_default()
                    };
                    for part in parts {
                        let delivered = self.mons.get(&e).map(|m| m.outs.iter().any(|o| o.good_deliveries > 0 && o.pkt.as_ref().map(|p| part_list(p).contains(&part)).unwrap_or(false))).unwrap_or(false);
                        if !delivered {
                            self.violate("C08", format!("{:?} released {:?} but no packet carrying it was handed to the peer", e, part));
                        }
                    }
                }
                // C09: send memory is exactly the pending bytes
                let expect: usize = ms.iter().map(|(id, _)| sizes.get(*id as usize).copied().unwrap_or(0)).sum();
                if let Some((_, _, mem)) = smem.iter().find(|(c, rel, _)| c == ch && *rel) {
                    if *mem != expect {
                        self.violate("C09", format!("{:?} reliable send channel {} accounts {} bytes, its unacknowledged messages hold {}", e, ch, mem, expect));
                    }
                }
            }
            // C09: drained reliable receive channels account nothing
            if !self.is_disc(peer) {
                for (ch, _oldest, msgs, slices) in &rstate {
                    let peer_unacked_empty = self.world.conn_ref(peer).map(|c| c.verif_unacked().iter().find(|(c2, _)| c2 == ch).map(|(_, v)| v.is_empty()).unwrap_or(true)).unwrap_or(false);
                    let nsent = self.mons.get(&peer).and_then(|m| m.sent.get(ch)).map(|v| v.len()).unwrap_or(0);
                    let ngot = self.mons.get(&e).and_then(|m| m.got.get(ch)).map(|v| v.len()).unwrap_or(0);
                    if peer_unacked_empty && nsent == ngot && nsent > 0 {
                        self.feat("reliable_channel_drained");
                        let mem = rmem.iter().find(|(c, rel, _)| c == ch && *rel).map(|x| x.2).unwrap_or(0);
                        if mem != 0 || !msgs.is_empty() || !slices.is_empty() {
                            self.violate("C09", format!("{:?} reliable receive channel {} is drained but accounts {} bytes ({} buffered, {} reassemblies)", e, ch, mem, msgs.len(), slices.len()));
                        }
                    }
                }
            }
        }
    }

    pub fn finish(mut self) -> RunResult {
        std::mem::take(&mut self.res)
    }
}

/// Runs a whole history.
pub fn run_history(ops: &[Tree]) -> RunResult {
    let mut h = RHistory::new();
    for op in ops {
        if !h.run_op(op) {
            break;
        }
    }
    h.finish()
}
