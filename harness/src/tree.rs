//! Generic tree exchanged with the model driver: numbers, byte strings, lists.
use std::fmt::Write;

#[derive(Clone, Debug, PartialEq, Eq)]
pub enum Tree {
    N(u128),
    B(Vec<u8>),
    L(Vec<Tree>),
}

pub fn n<T: Into<u128>>(v: T) -> Tree {
    Tree::N(v.into())
}
pub fn nu(v: usize) -> Tree {
    Tree::N(v as u128)
}
pub fn b(v: &[u8]) -> Tree {
    Tree::B(v.to_vec())
}
pub fn l(v: Vec<Tree>) -> Tree {
    Tree::L(v)
}
pub fn tbool(v: bool) -> Tree {
    Tree::N(v as u128)
}
pub fn topt(v: Option<Tree>) -> Tree {
    match v {
        None => l(vec![n(0u8)]),
        Some(t) => l(vec![n(1u8), t]),
    }
}
pub fn nlist<T: Copy + Into<u128>>(v: &[T]) -> Tree {
    Tree::L(v.iter().map(|x| Tree::N((*x).into())).collect())
}

pub fn panic_tree() -> Tree {
    l(vec![n(99u8)])
}
pub fn unresolved_tree() -> Tree {
    l(vec![n(97u8)])
}

impl Tree {
    pub fn write(&self, out: &mut String) {
        match self {
            Tree::N(v) => {
                let _ = write!(out, "{}", v);
            }
            Tree::B(bytes) => {
                out.push('x');
                const H: &[u8; 16] = b"0123456789abcdef";
                for byte in bytes {
                    out.push(H[(byte >> 4) as usize] as char);
                    out.push(H[(byte & 15) as usize] as char);
                }
            }
            Tree::L(items) => {
                out.push('(');
                for (i, it) in items.iter().enumerate() {
                    if i > 0 {
                        out.push(' ');
                    }
                    it.write(out);
                }
                out.push(')');
            }
        }
    }

    pub fn to_text(&self) -> String {
        let mut s = String::new();
        self.write(&mut s);
        s
    }

    pub fn parse(s: &str) -> Option<Tree> {
        let bytes = s.as_bytes();
        let mut pos = 0;
        let t = parse_value(bytes, &mut pos)?;
        skip(bytes, &mut pos);
        if pos != bytes.len() {
            return None;
        }
        Some(t)
    }

    pub fn as_n(&self) -> Option<u128> {
        if let Tree::N(v) = self {
            Some(*v)
        } else {
            None
        }
    }
    pub fn as_u64(&self) -> Option<u64> {
        self.as_n().and_then(|v| u64::try_from(v).ok())
    }
    pub fn as_b(&self) -> Option<&[u8]> {
        if let Tree::B(v) = self {
            Some(v)
        } else {
            None
        }
    }
    pub fn as_l(&self) -> Option<&[Tree]> {
        if let Tree::L(v) = self {
            Some(v)
        } else {
            None
        }
    }
    /// opcode of an operation tree
    pub fn opcode(&self) -> Option<u64> {
        self.as_l().and_then(|v| v.first()).and_then(|t| t.as_u64())
    }
}

fn skip(s: &[u8], pos: &mut usize) {
    while *pos < s.len() && (s[*pos] == b' ' || s[*pos] == b'\t' || s[*pos] == b'\r') {
        *pos += 1;
    }
}

fn hexval(c: u8) -> Option<u8> {
    match c {
        b'0'..=b'9' => Some(c - b'0'),
        b'a'..=b'f' => Some(c - b'a' + 10),
        b'A'..=b'F' => Some(c - b'A' + 10),
        _ => None,
    }
}

fn parse_value(s: &[u8], pos: &mut usize) -> Option<Tree> {
    skip(s, pos);
    if *pos >= s.len() {
        return None;
    }
    match s[*pos] {
        b'(' => {
            *pos += 1;
            let mut items = vec![];
            loop {
                skip(s, pos);
                if *pos >= s.len() {
                    return None;
                }
                if s[*pos] == b')' {
                    *pos += 1;
                    return Some(Tree::L(items));
                }
                items.push(parse_value(s, pos)?);
            }
        }
        b'x' => {
            *pos += 1;
            let mut out = vec![];
            while *pos + 1 < s.len() + 0 && hexval(s[*pos]).is_some() {
                let hi = hexval(s[*pos])?;
                let lo = hexval(*s.get(*pos + 1)?)?;
                out.push(hi * 16 + lo);
                *pos += 2;
            }
            Some(Tree::B(out))
        }
        b'0'..=b'9' => {
            let mut v: u128 = 0;
            while *pos < s.len() && s[*pos].is_ascii_digit() {
                v = v.checked_mul(10)?.checked_add((s[*pos] - b'0') as u128)?;
                *pos += 1;
            }
            Some(Tree::N(v))
        }
        _ => None,
    }
}
