//! Executes renetcode operation trees (opcodes >= 100) against the real crate.
use crate::tree::*;
use renetcode::verif::{private_token_decode, ChallengeToken, Packet, ReplayProtection, VerifConnection};
use renetcode::{ClientAuthentication, ConnectToken, DisconnectReason, NetcodeClient, NetcodeError, NetcodeServer, ServerAuthentication, ServerConfig, ServerResult};
use std::collections::BTreeMap;
use std::net::{IpAddr, Ipv4Addr, Ipv6Addr, SocketAddr};
use std::panic::{catch_unwind, AssertUnwindSafe};
use std::time::Duration;

pub fn addr_tree(a: &SocketAddr) -> Tree {
    match a {
        SocketAddr::V4(v) => l(vec![n(4u8), b(&v.ip().octets()), n(v.port())]),
        SocketAddr::V6(v) => l(vec![n(6u8), b(&v.ip().octets()), n(v.port())]),
    }
}
pub fn parse_addr(t: &Tree) -> Option<SocketAddr> {
    let v = t.as_l()?;
    if v.len() != 3 {
        return None;
    }
    let ip = v[1].as_b()?;
    let port = u16::try_from(v[2].as_u64()?).ok()?;
    match v[0].as_u64()? {
        4 if ip.len() == 4 => Some(SocketAddr::new(IpAddr::V4(Ipv4Addr::new(ip[0], ip[1], ip[2], ip[3])), port)),
        6 if ip.len() == 16 => {
            let mut a = [0u8; 16];
            a.copy_from_slice(ip);
            Some(SocketAddr::new(IpAddr::V6(Ipv6Addr::from(a)), port))
        }
        _ => None,
    }
}
fn parse_addrs(t: &Tree) -> Option<Vec<SocketAddr>> {
    t.as_l()?.iter().map(parse_addr).collect()
}
pub fn z_tree(z: i64) -> Tree {
    if z < 0 {
        l(vec![n(1u8), n((-z) as u64)])
    } else {
        l(vec![n(0u8), n(z as u64)])
    }
}
fn parse_z(t: &Tree) -> Option<i64> {
    let v = t.as_l()?;
    if v.len() != 2 {
        return None;
    }
    let m = v[1].as_u64()? as i64;
    match v[0].as_u64()? {
        0 => Some(m),
        1 => Some(-m),
        _ => None,
    }
}
fn arr<const N: usize>(bytes: &[u8]) -> Option<[u8; N]> {
    if bytes.len() != N {
        return None;
    }
    let mut a = [0u8; N];
    a.copy_from_slice(bytes);
    Some(a)
}
fn parse_optb(t: &Tree) -> Option<Option<Vec<u8>>> {
    let v = t.as_l()?;
    match v.first()?.as_u64()? {
        0 if v.len() == 1 => Some(None),
        1 if v.len() == 2 => Some(Some(v[1].as_b()?.to_vec())),
        _ => None,
    }
}

pub fn creason_tree(r: DisconnectReason) -> Tree {
    n(match r {
        DisconnectReason::ConnectTokenExpired => 0u8,
        DisconnectReason::ConnectionTimedOut => 1,
        DisconnectReason::ConnectionResponseTimedOut => 2,
        DisconnectReason::ConnectionRequestTimedOut => 3,
        DisconnectReason::ConnectionDenied => 4,
        DisconnectReason::DisconnectedByClient => 5,
        DisconnectReason::DisconnectedByServer => 6,
        #[allow(unreachable_patterns)]
        _ => 99,
    })
}
pub fn nerr_tree(e: &NetcodeError) -> Tree {
    match e {
        NetcodeError::UnavailablePrivateKey => l(vec![n(0u8)]),
        NetcodeError::InvalidPacketType => l(vec![n(1u8)]),
        NetcodeError::InvalidProtocolID => l(vec![n(2u8)]),
        NetcodeError::InvalidVersion => l(vec![n(3u8)]),
        NetcodeError::PacketTooSmall => l(vec![n(4u8)]),
        NetcodeError::PayloadAboveLimit => l(vec![n(5u8)]),
        NetcodeError::DuplicatedSequence => l(vec![n(6u8)]),
        NetcodeError::NoMoreServers => l(vec![n(7u8)]),
        NetcodeError::Expired => l(vec![n(8u8)]),
        NetcodeError::Disconnected(r) => l(vec![n(9u8), creason_tree(*r)]),
        NetcodeError::CryptoError => l(vec![n(10u8)]),
        NetcodeError::NotInHostList => l(vec![n(11u8)]),
        NetcodeError::ClientNotFound => l(vec![n(12u8)]),
        NetcodeError::ClientNotConnected => l(vec![n(13u8)]),
        NetcodeError::IoError(_) => l(vec![n(14u8)]),
        NetcodeError::TokenGenerationError(_) => l(vec![n(15u8)]),
        #[allow(unreachable_patterns)]
        _ => l(vec![n(99u8)]),
    }
}
fn ok_tree(t: Tree) -> Tree {
    l(vec![n(0u8), t])
}
fn err_tree(e: &NetcodeError) -> Tree {
    l(vec![n(1u8), nerr_tree(e)])
}

pub fn npacket_tree(p: &Packet) -> Tree {
    match p {
        Packet::ConnectionRequest { version_info, protocol_id, expire_timestamp, xnonce, data } => {
            l(vec![n(0u8), b(version_info), n(*protocol_id), n(*expire_timestamp), b(xnonce), b(data)])
        }
        Packet::ConnectionDenied => l(vec![n(1u8)]),
        Packet::Challenge { token_sequence, token_data } => l(vec![n(2u8), n(*token_sequence), b(token_data)]),
        Packet::Response { token_sequence, token_data } => l(vec![n(3u8), n(*token_sequence), b(token_data)]),
        Packet::KeepAlive { client_index, max_clients } => l(vec![n(4u8), n(*client_index), n(*max_clients)]),
        Packet::Payload(p) => l(vec![n(5u8), b(p)]),
        Packet::Disconnect => l(vec![n(6u8)]),
    }
}

fn slots_tree(a: &[Option<SocketAddr>; 32]) -> Tree {
    l(a.iter().map(|o| topt(o.as_ref().map(addr_tree))).collect())
}

pub fn token_tree(t: &ConnectToken) -> Tree {
    l(vec![
        n(t.client_id),
        b(&t.version_info),
        n(t.protocol_id),
        n(t.create_timestamp),
        n(t.expire_timestamp),
        b(&t.xnonce),
        slots_tree(&t.server_addresses),
        b(&t.client_to_server_key),
        b(&t.server_to_client_key),
        b(&t.private_data),
        z_tree(t.timeout_seconds as i64),
    ])
}

pub fn sresult_tree(r: &ServerResult) -> Tree {
    match r {
        ServerResult::None => l(vec![n(0u8)]),
        ServerResult::PacketToSend { addr, payload } => l(vec![n(1u8), addr_tree(addr), b(payload)]),
        ServerResult::Payload { client_id, payload } => l(vec![n(2u8), n(*client_id), b(payload)]),
        ServerResult::ClientConnected { client_id, addr, user_data, payload } => {
            l(vec![n(3u8), n(*client_id), addr_tree(addr), b(&user_data[..]), b(payload)])
        }
        ServerResult::ClientDisconnected { client_id, addr, payload } => {
            l(vec![n(4u8), n(*client_id), addr_tree(addr), topt(payload.as_ref().map(|p| b(p)))])
        }
    }
}

fn addr_key(a: &SocketAddr) -> (u8, Vec<u8>, u16) {
    match a {
        SocketAddr::V4(v) => (4, v.ip().octets().to_vec(), v.port()),
        SocketAddr::V6(v) => (6, v.ip().octets().to_vec(), v.port()),
    }
}

fn ns(d: Duration) -> Tree {
    Tree::N(d.as_nanos())
}

pub struct NWorld {
    pub server: Option<NetcodeServer>,
    pub clients: BTreeMap<u64, NetcodeClient>,
    pub tokens: BTreeMap<u64, ConnectToken>,
    pub replays: BTreeMap<u64, ReplayProtection>,
    pub poisoned: bool,
}

macro_rules! guard {
    ($self:ident, $body:expr) => {
        match catch_unwind(AssertUnwindSafe(|| $body)) {
            Ok(v) => v,
            Err(_) => {
                $self.poisoned = true;
                return panic_tree();
            }
        }
    };
}

impl NWorld {
    pub fn new() -> Self {
        NWorld { server: None, clients: BTreeMap::new(), tokens: BTreeMap::new(), replays: BTreeMap::new(), poisoned: false }
    }

    pub fn server_state_tree(s: &NetcodeServer) -> Tree {
        let conn = |c: &VerifConnection| -> Tree {
            l(vec![
                nu(c.slot),
                n(c.client_id),
                addr_tree(&c.addr),
                tbool(c.confirmed),
                n(c.sequence),
                ns(c.last_packet_received_time),
                ns(c.last_packet_send_time),
                z_tree(c.timeout_seconds as i64),
                n(c.expire_timestamp),
                b(&c.user_data),
            ])
        };
        let clients: Vec<Tree> = s.verif_clients().iter().map(conn).collect();
        let mut pend = s.verif_pending();
        pend.sort_by_key(|c| addr_key(&c.addr));
        let pending: Vec<Tree> = pend.iter().map(conn).collect();
        let (g, c) = s.verif_sequences();
        l(vec![
            l(clients),
            l(pending),
            n(g),
            n(c),
            nu(s.max_clients()),
            nu(s.verif_num_slots()),
            nu(s.verif_token_entries()),
            ns(s.current_time()),
            nlist(&s.clients_id()),
        ])
    }

    pub fn client_state_tree(&mut self, k: u64) -> Tree {
        let c = match self.clients.get(&k) {
            Some(c) => c,
            None => return unresolved_tree(),
        };
        let (state, seq, last_recv, last_send, idx, chal) = c.verif_state();
        let st = if state == 0 { l(vec![n(0u8), creason_tree(c.disconnect_reason().unwrap())]) } else { l(vec![n(state)]) };
        let since = match catch_unwind(AssertUnwindSafe(|| c.time_since_last_received_packet())) {
            Ok(d) => ok_tree(ns(d)),
            Err(_) => panic_tree(),
        };
        l(vec![st, n(seq), ns(last_recv), topt(last_send.map(ns)), nu(idx), n(chal), addr_tree(&c.server_addr()), ns(c.current_time()), n(c.client_id()), since])
    }

    /// Resolves the placeholders of an operation (random values drawn by the implementation) and executes it.
    /// Returns the resolved operation and the observation.
    pub fn exec(&mut self, op: &Tree) -> (Tree, Tree) {
        let v = match op.as_l() {
            Some(v) => v.to_vec(),
            None => return (op.clone(), l(vec![n(98u8)])),
        };
        let code = op.opcode().unwrap_or(0);
        let bad = (op.clone(), l(vec![n(98u8)]));
        match code {
            100 => {
                if v.len() < 6 {
                    return bad;
                }
                let (now, max, protocol) = (v[1].as_u64().unwrap_or(0), v[2].as_u64().unwrap_or(0), v[3].as_u64().unwrap_or(0));
                let addrs = match parse_addrs(&v[4]) { Some(a) => a, None => return bad };
                let key = match parse_optb(&v[5]) { Some(k) => k, None => return bad };
                let authentication = match &key {
                    Some(k) => match arr::<32>(k) { Some(a) => ServerAuthentication::Secure { private_key: a }, None => return bad },
                    None => ServerAuthentication::Unsecure,
                };
                let cfg = ServerConfig { current_time: Duration::from_nanos(now), max_clients: max as usize, protocol_id: protocol, public_addresses: addrs, authentication };
                let r = catch_unwind(AssertUnwindSafe(|| NetcodeServer::new(cfg)));
                match r {
                    Ok(s) => {
                        let chal = s.verif_challenge_key();
                        self.server = Some(s);
                        let mut rv = v[..6].to_vec();
                        rv.push(b(&chal));
                        (l(rv), l(vec![]))
                    }
                    Err(_) => {
                        self.poisoned = true;
                        let mut rv = v[..6].to_vec();
                        rv.push(b(&[0u8; 32]));
                        (l(rv), panic_tree())
                    }
                }
            }
            101 => {
                // (101 k now protocol expire_secs cid timeout addrs user key) + (xnonce c2s s2c) appended
                if v.len() < 10 {
                    return bad;
                }
                let k = v[1].as_u64().unwrap_or(0);
                let (now, protocol, expire, cid) = (v[2].as_u64().unwrap_or(0), v[3].as_u64().unwrap_or(0), v[4].as_u64().unwrap_or(0), v[5].as_u64().unwrap_or(0));
                let timeout = match parse_z(&v[6]) { Some(z) => z as i32, None => return bad };
                let addrs = match parse_addrs(&v[7]) { Some(a) => a, None => return bad };
                let user = match v[8].as_b().and_then(arr::<256>) { Some(u) => u, None => return bad };
                let key = match v[9].as_b().and_then(arr::<32>) { Some(u) => u, None => return bad };
                let r = catch_unwind(AssertUnwindSafe(|| ConnectToken::generate(Duration::from_nanos(now), protocol, expire, cid, timeout, addrs, Some(&user), &key)));
                let mut rv = v[..10].to_vec();
                match r {
                    Ok(Ok(t)) => {
                        rv.push(b(&t.xnonce));
                        rv.push(b(&t.client_to_server_key));
                        rv.push(b(&t.server_to_client_key));
                        let mut bytes = vec![];
                        t.write(&mut bytes).unwrap();
                        self.tokens.insert(k, t);
                        (l(rv), ok_tree(b(&bytes)))
                    }
                    Ok(Err(_)) => {
                        rv.push(b(&[0u8; 24]));
                        rv.push(b(&[0u8; 32]));
                        rv.push(b(&[0u8; 32]));
                        (l(rv), l(vec![n(1u8), l(vec![n(15u8)])]))
                    }
                    Err(_) => {
                        self.poisoned = true;
                        rv.push(b(&[0u8; 24]));
                        rv.push(b(&[0u8; 32]));
                        rv.push(b(&[0u8; 32]));
                        (l(rv), panic_tree())
                    }
                }
            }
            128 => {
                // (128 k tk now protocol cid addr user) + (xnonce c2s s2c) appended: a client in unsecure mode; its token gets index tk
                if v.len() < 8 {
                    return bad;
                }
                let (k, tk, now, protocol, cid) = (v[1].as_u64().unwrap_or(0), v[2].as_u64().unwrap_or(0), v[3].as_u64().unwrap_or(0), v[4].as_u64().unwrap_or(0), v[5].as_u64().unwrap_or(0));
                let addr = match parse_addr(&v[6]) { Some(a) => a, None => return bad };
                let user = match v[7].as_b().and_then(arr::<256>) { Some(u) => u, None => return bad };
                let r = catch_unwind(AssertUnwindSafe(|| {
                    NetcodeClient::new(Duration::from_nanos(now), ClientAuthentication::Unsecure { server_addr: addr, protocol_id: protocol, client_id: cid, user_data: Some(user) })
                }));
                let mut rv = v[..8].to_vec();
                match r {
                    Ok(Ok(c)) => {
                        let t = c.verif_connect_token().clone();
                        rv.push(b(&t.xnonce));
                        rv.push(b(&t.client_to_server_key));
                        rv.push(b(&t.server_to_client_key));
                        let mut bytes = vec![];
                        t.write(&mut bytes).unwrap();
                        self.tokens.insert(tk, t);
                        self.clients.insert(k, c);
                        (l(rv), ok_tree(b(&bytes)))
                    }
                    Ok(Err(e)) => {
                        rv.push(b(&[0u8; 24]));
                        rv.push(b(&[0u8; 32]));
                        rv.push(b(&[0u8; 32]));
                        (l(rv), err_tree(&e))
                    }
                    Err(_) => {
                        self.poisoned = true;
                        rv.push(b(&[0u8; 24]));
                        rv.push(b(&[0u8; 32]));
                        rv.push(b(&[0u8; 32]));
                        (l(rv), panic_tree())
                    }
                }
            }
            _ => (op.clone(), self.exec_plain(code, &v)),
        }
    }

    fn new_client(&mut self, k: u64, now: u64, token: ConnectToken) -> Tree {
        let r = guard!(self, NetcodeClient::new(Duration::from_nanos(now), ClientAuthentication::Secure { connect_token: token }));
        match r {
            Ok(c) => {
                self.clients.insert(k, c);
                l(vec![n(0u8)])
            }
            Err(e) => err_tree(&e),
        }
    }

    fn exec_plain(&mut self, code: u64, v: &[Tree]) -> Tree {
        let bad = l(vec![n(98u8)]);
        let u = |i: usize| v.get(i).and_then(|t| t.as_u64());
        let by = |i: usize| v.get(i).and_then(|t| t.as_b()).map(|x| x.to_vec());
        match code {
            102 => {
                let (k, now, tk) = match (u(1), u(2), u(3)) { (Some(a), Some(bb), Some(c)) => (a, bb, c), _ => return bad };
                let t = match self.tokens.get(&tk) { Some(t) => t.clone(), None => return unresolved_tree() };
                self.new_client(k, now, t)
            }
            103 => {
                let (k, dt) = match (u(1), u(2)) { (Some(a), Some(bb)) => (a, bb), _ => return bad };
                let c = match self.clients.get_mut(&k) { Some(c) => c, None => return unresolved_tree() };
                let r = guard!(self, c.update(Duration::from_nanos(dt)).map(|(p, a)| (p.to_vec(), a)));
                topt(r.map(|(p, a)| l(vec![b(&p), addr_tree(&a)])))
            }
            104 => {
                let (k, mut buf) = match (u(1), by(2)) { (Some(a), Some(bb)) => (a, bb), _ => return bad };
                let c = match self.clients.get_mut(&k) { Some(c) => c, None => return unresolved_tree() };
                let r = guard!(self, c.process_packet(&mut buf).map(|p| p.to_vec()));
                topt(r.map(|p| b(&p)))
            }
            105 => {
                let (k, payload) = match (u(1), by(2)) { (Some(a), Some(bb)) => (a, bb), _ => return bad };
                let c = match self.clients.get_mut(&k) { Some(c) => c, None => return unresolved_tree() };
                let r = guard!(self, c.generate_payload_packet(&payload).map(|(a, p)| (a, p.to_vec())));
                match r {
                    Ok((a, p)) => ok_tree(l(vec![addr_tree(&a), b(&p)])),
                    Err(e) => err_tree(&e),
                }
            }
            106 => {
                let k = match u(1) { Some(a) => a, None => return bad };
                let c = match self.clients.get_mut(&k) { Some(c) => c, None => return unresolved_tree() };
                let r = guard!(self, c.disconnect().map(|(a, p)| (a, p.to_vec())));
                match r {
                    Ok((a, p)) => ok_tree(l(vec![addr_tree(&a), b(&p)])),
                    Err(e) => err_tree(&e),
                }
            }
            107 => match u(1) {
                Some(k) => self.client_state_tree(k),
                None => bad,
            },
            110 => {
                let (a, mut buf) = match (v.get(1).and_then(parse_addr), by(2)) { (Some(a), Some(bb)) => (a, bb), _ => return bad };
                let s = match self.server.as_mut() { Some(s) => s, None => return unresolved_tree() };
                guard!(self, sresult_tree(&s.process_packet(a, &mut buf)))
            }
            111 => {
                let dt = match u(1) { Some(a) => a, None => return bad };
                let s = match self.server.as_mut() { Some(s) => s, None => return unresolved_tree() };
                guard!(self, s.update(Duration::from_nanos(dt)));
                l(vec![])
            }
            112 => {
                let id = match u(1) { Some(a) => a, None => return bad };
                let s = match self.server.as_mut() { Some(s) => s, None => return unresolved_tree() };
                guard!(self, sresult_tree(&s.update_client(id)))
            }
            113 => {
                let id = match u(1) { Some(a) => a, None => return bad };
                let s = match self.server.as_mut() { Some(s) => s, None => return unresolved_tree() };
                guard!(self, sresult_tree(&s.disconnect(id)))
            }
            114 => {
                let (id, payload) = match (u(1), by(2)) { (Some(a), Some(bb)) => (a, bb), _ => return bad };
                let s = match self.server.as_mut() { Some(s) => s, None => return unresolved_tree() };
                let r = guard!(self, s.generate_payload_packet(id, &payload).map(|(a, p)| (a, p.to_vec())));
                match r {
                    Ok((a, p)) => ok_tree(l(vec![addr_tree(&a), b(&p)])),
                    Err(e) => err_tree(&e),
                }
            }
            129 => {
                let (count, base) = match (u(1), u(2)) { (Some(a), Some(bb)) => (a, bb), _ => return bad };
                let addr = match v.get(3).and_then(parse_addr) { Some(a) => a, None => return bad };
                let s = match self.server.as_mut() { Some(s) => s, None => return unresolved_tree() };
                guard!(self, s.verif_fill_token_entries(count as usize, Duration::from_nanos(base), addr));
                l(vec![])
            }
            115 => {
                let m = match u(1) { Some(a) => a, None => return bad };
                let s = match self.server.as_mut() { Some(s) => s, None => return unresolved_tree() };
                guard!(self, s.set_max_clients(m as usize));
                l(vec![])
            }
            116 => match self.server.as_ref() {
                Some(s) => Self::server_state_tree(s),
                None => unresolved_tree(),
            },
            119 => {
                let id = match u(1) { Some(a) => a, None => return bad };
                let s = match self.server.as_ref() { Some(s) => s, None => return unresolved_tree() };
                let since = guard!(self, s.time_since_last_received_packet(id));
                l(vec![
                    topt(s.user_data(id).map(|x| b(&x))),
                    topt(s.client_addr(id).as_ref().map(addr_tree)),
                    topt(since.map(ns)),
                    tbool(s.is_client_connected(id)),
                ])
            }
            117 => {
                let bytes = match by(1) { Some(a) => a, None => return bad };
                let r = guard!(self, ConnectToken::read(&mut &bytes[..]));
                match r {
                    Ok(t) => {
                        let mut again = vec![];
                        t.write(&mut again).unwrap();
                        let r2 = guard!(self, ConnectToken::read(&mut &again[..]));
                        let second = match r2 {
                            Ok(t2) => ok_tree(token_tree(&t2)),
                            Err(e) => err_tree(&e),
                        };
                        ok_tree(l(vec![token_tree(&t), second]))
                    }
                    Err(e) => err_tree(&e),
                }
            }
            118 => {
                let (k, now, bytes) = match (u(1), u(2), by(3)) { (Some(a), Some(bb), Some(c)) => (a, bb, c), _ => return bad };
                let r = guard!(self, ConnectToken::read(&mut &bytes[..]));
                match r {
                    Ok(t) => self.new_client(k, now, t),
                    Err(e) => err_tree(&e),
                }
            }
            120 => {
                let (mut buf, protocol) = match (by(1), u(2)) { (Some(a), Some(bb)) => (a, bb), _ => return bad };
                let key = match v.get(3).and_then(parse_optb) { Some(k) => k, None => return bad };
                let key32 = match &key { Some(k) => match arr::<32>(k) { Some(a) => Some(a), None => return bad }, None => None };
                guard!(self, match Packet::decode(&mut buf, protocol, key32.as_ref(), None) {
                    Ok((s, p)) => ok_tree(l(vec![n(s), npacket_tree(&p)])),
                    Err(e) => err_tree(&e),
                })
            }
            121 => {
                let r = match u(1) { Some(a) => a, None => return bad };
                self.replays.insert(r, ReplayProtection::new());
                l(vec![])
            }
            122 => {
                let (r, s) = match (u(1), u(2)) { (Some(a), Some(bb)) => (a, bb), _ => return bad };
                let rp = match self.replays.get(&r) { Some(x) => x, None => return unresolved_tree() };
                tbool(guard!(self, rp.already_received(s)))
            }
            123 => {
                let (r, s) = match (u(1), u(2)) { (Some(a), Some(bb)) => (a, bb), _ => return bad };
                let rp = match self.replays.get_mut(&r) { Some(x) => x, None => return unresolved_tree() };
                guard!(self, rp.advance_sequence(s));
                l(vec![])
            }
            124 => {
                let (protocol, s, cap) = match (u(2), u(3), u(5)) { (Some(a), Some(bb), Some(c)) => (a, bb, c), _ => return bad };
                let key = match v.get(4).and_then(parse_optb) { Some(k) => k, None => return bad };
                let key32 = match &key { Some(k) => match arr::<32>(k) { Some(a) => Some(a), None => return bad }, None => None };
                let pt = match v.get(1) { Some(t) => t.clone(), None => return bad };
                let mut buf = vec![0u8; cap as usize];
                let r = guard!(self, {
                    let crypto = key32.as_ref().map(|k| (s, k));
                    encode_from_tree(&pt, &mut buf, protocol, crypto)
                });
                match r {
                    Some(Ok(len)) => ok_tree(b(&buf[..len])),
                    Some(Err(e)) => err_tree(&e),
                    None => bad,
                }
            }
            125 => {
                let (data, protocol, expire, xn, key) = match (by(1), u(2), u(3), by(4), by(5)) {
                    (Some(a), Some(bb), Some(c), Some(d), Some(e)) => (a, bb, c, d, e),
                    _ => return bad,
                };
                let (data, xn, key) = match (arr::<1024>(&data), arr::<24>(&xn), arr::<32>(&key)) { (Some(a), Some(bb), Some(c)) => (a, bb, c), _ => return bad };
                let r = guard!(self, private_token_decode(&data, protocol, expire, &xn, &key));
                match r {
                    Some((id, timeout, addrs, c2s, s2c, user)) => ok_tree(l(vec![n(id), z_tree(timeout as i64), slots_tree(&addrs), b(&c2s), b(&s2c), b(&user)])),
                    None => l(vec![n(1u8), l(vec![n(15u8)])]),
                }
            }
            126 => {
                let (tdata, tseq, key) = match (by(1), u(2), by(3)) { (Some(a), Some(bb), Some(c)) => (a, bb, c), _ => return bad };
                let (tdata, key) = match (arr::<300>(&tdata), arr::<32>(&key)) { (Some(a), Some(bb)) => (a, bb), _ => return bad };
                let r = guard!(self, ChallengeToken::decode(tdata, tseq, &key));
                match r {
                    Ok(t) => ok_tree(l(vec![n(t.client_id), b(&t.user_data)])),
                    Err(e) => err_tree(&e),
                }
            }
            127 => {
                let (r, mut buf, protocol, key) = match (u(1), by(2), u(3), by(4)) { (Some(a), Some(bb), Some(c), Some(d)) => (a, bb, c, d), _ => return bad };
                let key = match arr::<32>(&key) { Some(k) => k, None => return bad };
                let rp = match self.replays.get_mut(&r) { Some(x) => x, None => return unresolved_tree() };
                guard!(self, match Packet::decode(&mut buf, protocol, Some(&key), Some(rp)) {
                    Ok((s, p)) => ok_tree(l(vec![n(s), npacket_tree(&p)])),
                    Err(e) => err_tree(&e),
                })
            }
            _ => bad,
        }
    }
}

/// Builds the packet value described by a tree and encodes it.
fn encode_from_tree(t: &Tree, buf: &mut [u8], protocol: u64, crypto: Option<(u64, &[u8; 32])>) -> Option<Result<usize, NetcodeError>> {
    let v = t.as_l()?;
    let payload_store;
    let p = match v.first()?.as_u64()? {
        0 if v.len() == 6 => Packet::ConnectionRequest {
            version_info: arr::<13>(v[1].as_b()?)?,
            protocol_id: v[2].as_u64()?,
            expire_timestamp: v[3].as_u64()?,
            xnonce: arr::<24>(v[4].as_b()?)?,
            data: arr::<1024>(v[5].as_b()?)?,
        },
        1 => Packet::ConnectionDenied,
        2 if v.len() == 3 => Packet::Challenge { token_sequence: v[1].as_u64()?, token_data: arr::<300>(v[2].as_b()?)? },
        3 if v.len() == 3 => Packet::Response { token_sequence: v[1].as_u64()?, token_data: arr::<300>(v[2].as_b()?)? },
        4 if v.len() == 3 => Packet::KeepAlive { client_index: v[1].as_u64()? as u32, max_clients: v[2].as_u64()? as u32 },
        5 if v.len() == 2 => {
            payload_store = v[1].as_b()?.to_vec();
            Packet::Payload(&payload_store)
        }
        6 => Packet::Disconnect,
        _ => return None,
    };
    Some(p.encode(buf, protocol, crypto))
}

