//! Generators of renetcode histories (suites n-codec, n-replay, n-world).
use crate::nexec::*;
use crate::rng::Rng;
use crate::tree::*;
use renetcode::verif::private_token_encode;
use std::net::{IpAddr, Ipv4Addr, Ipv6Addr, SocketAddr};

const MS: u64 = 1_000_000;
const SEC: u64 = 1_000_000_000;

fn optb(v: Option<&[u8]>) -> Tree {
    topt(v.map(b))
}

pub fn boundary_u64(r: &mut Rng) -> u64 {
    let base = *r.pick(&[
        0u64, 1, 2, 254, 255, 256, 257, 511, 512, 65535, 65536, (1 << 24) - 1, 1 << 24, (1 << 32) - 1, 1 << 32, (1 << 40) - 1, 1 << 40, (1 << 48) - 1, 1 << 48,
        (1 << 56) - 1, 1 << 56, (1 << 63) - 1, 1 << 63, (1 << 63) + 1, u64::MAX - 257, u64::MAX - 256, u64::MAX - 255, u64::MAX - 1, u64::MAX,
    ]);
    if r.chance(1, 5) {
        r.next()
    } else {
        base
    }
}

fn gen_addr(r: &mut Rng) -> SocketAddr {
    let port = *r.pick(&[0u16, 1, 5000, 40000, 65535]);
    if r.chance(1, 8) {
        // an IPv4-mapped IPv6 address: 16 bytes on the wire, not to be confused with the IPv4 address it maps
        SocketAddr::new(IpAddr::V6(Ipv4Addr::new(127, 0, 0, r.range(1, 9) as u8).to_ipv6_mapped()), port)
    } else if r.chance(3, 4) {
        SocketAddr::new(IpAddr::V4(Ipv4Addr::new(127, 0, 0, r.range(1, 9) as u8)), port)
    } else {
        let mut ip = [0u8; 16];
        ip[15] = r.range(1, 9) as u8;
        ip[0] = 0xfe;
        SocketAddr::new(IpAddr::V6(Ipv6Addr::from(ip)), port)
    }
}

fn gen_packet_tree(r: &mut Rng) -> Tree {
    match r.below(7) {
        0 => l(vec![n(0u8), b(&if r.chance(4, 5) { b"NETCODE 1.02\0".to_vec() } else { r.bytes(13) }), n(boundary_u64(r)), n(boundary_u64(r)), b(&r.bytes(24)), b(&r.bytes(1024))]),
        1 => l(vec![n(1u8)]),
        2 => l(vec![n(2u8), n(boundary_u64(r)), b(&r.bytes(300))]),
        3 => l(vec![n(3u8), n(boundary_u64(r)), b(&r.bytes(300))]),
        4 => l(vec![n(4u8), n(r.below(1 << 32)), n(r.below(1 << 32))]),
        5 => {
            let len = *r.pick(&[0usize, 1, 15, 16, 17, 100, 1299, 1300, 1301, 1400]);
            l(vec![n(5u8), b(&r.bytes(len))])
        }
        _ => l(vec![n(6u8)]),
    }
}

/// bytes of a public connect token, assembled by hand so that every field can take hostile values
fn token_bytes(r: &mut Rng, hostile: bool) -> Vec<u8> {
    let mut v = vec![];
    v.extend_from_slice(&boundary_u64(r).to_le_bytes());
    if hostile && r.chance(1, 8) {
        v.extend_from_slice(&r.bytes(13));
    } else {
        v.extend_from_slice(b"NETCODE 1.02\0");
    }
    v.extend_from_slice(&boundary_u64(r).to_le_bytes()); // protocol
    let create = *r.pick(&[0u64, 1, 1000, u64::MAX - 1]);
    let expire = if hostile && r.chance(1, 3) { create.wrapping_sub(r.range(1, 3)) } else { create.saturating_add(r.range(0, 30)) };
    v.extend_from_slice(&create.to_le_bytes());
    v.extend_from_slice(&expire.to_le_bytes());
    v.extend_from_slice(&r.bytes(24));
    v.extend_from_slice(&r.bytes(1024));
    let timeout: i32 = *r.pick(&[-1i32, 0, 1, 15, i32::MAX, i32::MIN]);
    v.extend_from_slice(&timeout.to_le_bytes());
    let count: u32 = if hostile { *r.pick(&[0u32, 1, 2, 31, 32, 33, 34, u32::MAX]) } else { *r.pick(&[1u32, 2, 3, 32]) };
    v.extend_from_slice(&count.to_le_bytes());
    let entries = (count as usize).min(34);
    for _ in 0..entries {
        let ty: u8 = if hostile { *r.pick(&[0u8, 1, 1, 2, 2, 3, 255]) } else { *r.pick(&[1u8, 2]) };
        v.push(ty);
        match ty {
            1 => v.extend_from_slice(&r.bytes(6)),
            2 => v.extend_from_slice(&r.bytes(18)),
            _ => {}
        }
    }
    v.extend_from_slice(&r.bytes(64));
    if hostile && r.chance(1, 4) {
        let cut = r.below(v.len() as u64 + 1) as usize;
        v.truncate(cut);
    }
    v
}

/// n-codec: every packet kind x sequence class x key, decodes of genuine, truncated, bit-flipped and
/// arbitrary datagrams (all prefix bytes), challenge tokens, private tokens, public tokens.
pub fn gen_codec(r: &mut Rng) -> Vec<Tree> {
    let mut ops = vec![];
    let key = r.bytes(32);
    let protocol = boundary_u64(r);
    ops.push(l(vec![n(121u8), n(0u8)]));
    for _ in 0..8 {
        let p = gen_packet_tree(r);
        // sequence numbers of every length class (0..8 bytes), at the edges and inside each class
        let seq = if r.chance(1, 3) { r.next() >> r.below(64) } else { boundary_u64(r) };
        let cap = *r.pick(&[1400u64, 1400, 1400, 1078, 1077, 40, 17, 0]);
        let with_key = r.chance(9, 10);
        ops.push(l(vec![n(124u8), p.clone(), n(protocol), n(seq), optb(if with_key { Some(&key) } else { None }), n(cap)]));
        // encode here as well to derive decode inputs
        if let Some(bytes) = encode_tree_here(&p, protocol, seq, &key) {
            let dkey: Vec<u8> = if r.chance(5, 6) { key.clone() } else { r.bytes(32) };
            let dprot = if r.chance(3, 4) { protocol } else { protocol ^ *r.pick(&[1u64, 1 << 8, 1 << 55, 1 << 56, 1 << 63, 0xff << 56]) };
            ops.push(l(vec![n(120u8), b(&bytes), n(dprot), optb(Some(&dkey))]));
            ops.push(l(vec![n(127u8), n(0u8), b(&bytes), n(protocol), b(&key)]));
            if r.chance(1, 2) {
                ops.push(l(vec![n(127u8), n(0u8), b(&bytes), n(protocol), b(&key)]));
            }
            let mut m = bytes.clone();
            match r.below(4) {
                0 => {
                    let bit = r.below((m.len() * 8) as u64) as usize;
                    m[bit / 8] ^= 1 << (bit % 8);
                }
                1 => m.truncate(r.below(m.len() as u64 + 1) as usize),
                2 => m[0] = r.below(256) as u8,
                _ => m.push(r.below(256) as u8),
            }
            ops.push(l(vec![n(120u8), b(&m), n(protocol), optb(if r.chance(4, 5) { Some(&key) } else { None })]));
        }
    }
    // arbitrary datagrams: every prefix class, lengths around the limits
    for _ in 0..6 {
        let len = *r.pick(&[0usize, 1, 17, 18, 19, 25, 26, 27, 33, 34, 100, 324, 325, 326, 1077, 1078, 1079, 1400]);
        let mut m = if r.chance(1, 3) { vec![0u8; len] } else { r.bytes(len) };
        if !m.is_empty() {
            m[0] = r.below(256) as u8;
            if len > 9 && r.chance(1, 3) {
                for x in m.iter_mut().take(9).skip(1) {
                    *x = 0xff;
                }
            }
        }
        ops.push(l(vec![n(120u8), b(&m), n(protocol), optb(if r.chance(3, 4) { Some(&key) } else { None })]));
        ops.push(l(vec![n(127u8), n(0u8), b(&m), n(protocol), b(&key)]));
    }
    // challenge tokens
    for _ in 0..2 {
        let tdata = r.bytes(300);
        ops.push(l(vec![n(126u8), b(&tdata), n(boundary_u64(r)), b(&key)]));
    }
    // private tokens sealed with the crate's own writer, opened under right and wrong parameters
    for _ in 0..2 {
        let mut addrs: [Option<SocketAddr>; 32] = [None; 32];
        let cnt = *r.pick(&[1usize, 2, 5, 32]);
        for a in addrs.iter_mut().take(cnt) {
            *a = Some(gen_addr(r));
        }
        let fields = (boundary_u64(r), *r.pick(&[-1i32, 0, 5, i32::MAX, i32::MIN]), addrs, arr32(&r.bytes(32)), arr32(&r.bytes(32)), arr256(&r.bytes(256)));
        let xn = arr24(&r.bytes(24));
        let expire = boundary_u64(r);
        if let Some(data) = private_token_encode(&fields, protocol, expire, &xn, &arr32(&key)) {
            let e2 = if r.chance(3, 4) { expire } else { expire ^ 1 };
            let p2 = if r.chance(3, 4) { protocol } else { protocol.wrapping_add(1) };
            ops.push(l(vec![n(125u8), b(&data), n(p2), n(e2), b(&xn), b(&key)]));
            let mut m = data.to_vec();
            let bit = r.below(1024 * 8) as usize;
            m[bit / 8] ^= 1 << (bit % 8);
            ops.push(l(vec![n(125u8), b(&m), n(protocol), n(expire), b(&xn), b(&key)]));
        }
    }
    // tokens made by the library itself, with 1, 2, 31 and 32 addresses of both families: written, then read back
    {
        let cnt = *r.pick(&[1usize, 2, 31, 32, 32]);
        let addrs: Vec<Tree> = (0..cnt).map(|_| addr_tree(&gen_addr(r))).collect();
        let timeout: i64 = *r.pick(&[-1i64, 0, 5, i32::MAX as i64, i32::MIN as i64]);
        let now = *r.pick(&[0u64, 5 * SEC, 1000 * SEC]);
        ops.push(l(vec![n(101u8), n(90u8), n(now), n(protocol), n(*r.pick(&[0u64, 1, 30, 1 << 40])), n(boundary_u64(r)), z_tree(timeout), l(addrs), b(&r.bytes(256)), b(&key)]));
    }
    // public tokens from bytes (ConnectToken::read, then NetcodeClient::new and update)
    for i in 0..3u64 {
        let hostile = r.chance(2, 3);
        let bytes = token_bytes(r, hostile);
        ops.push(l(vec![n(117u8), b(&bytes)]));
        ops.push(l(vec![n(118u8), n(50 + i), n(*r.pick(&[0u64, 5 * SEC])), b(&bytes)]));
        ops.push(l(vec![n(103u8), n(50 + i), n(*r.pick(&[0u64, 250 * MS, 20 * SEC]))]));
        ops.push(l(vec![n(107u8), n(50 + i)]));
    }
    ops
}

fn arr32(v: &[u8]) -> [u8; 32] {
    let mut a = [0u8; 32];
    a.copy_from_slice(&v[..32]);
    a
}
fn arr24(v: &[u8]) -> [u8; 24] {
    let mut a = [0u8; 24];
    a.copy_from_slice(&v[..24]);
    a
}
fn arr256(v: &[u8]) -> [u8; 256] {
    let mut a = [0u8; 256];
    a.copy_from_slice(&v[..256]);
    a
}

/// encodes the packet described by a tree with the crate (to obtain genuine datagrams for the decode stream)
fn encode_tree_here(p: &Tree, protocol: u64, seq: u64, key: &[u8]) -> Option<Vec<u8>> {
    let mut w = NWorld::new();
    let op = l(vec![n(124u8), p.clone(), n(protocol), n(seq), optb(Some(key)), n(1400u64)]);
    let (_, obs) = w.exec(&op);
    match obs.as_l() {
        Some([Tree::N(0), Tree::B(bytes)]) => Some(bytes.clone()),
        _ => None,
    }
}

/// n-replay: the window around s, s +- 255, s +- 256, multiples of 256, 2^64 - 1
pub fn gen_replay(r: &mut Rng) -> Vec<Tree> {
    let mut ops = vec![l(vec![n(121u8), n(0u8)])];
    let base = *r.pick(&[0u64, 300, 1000, 1 << 32, u64::MAX - 600, u64::MAX - 256]);
    let mut cur = base;
    for _ in 0..60 {
        let delta = *r.pick(&[0i64, 1, 1, 2, 5, 255, 256, 257, 511, 512, 513, -1, -1, -2, -5, -254, -255, -256, -257, -512]);
        let s = if r.chance(1, 20) { *r.pick(&[u64::MAX, u64::MAX - 1, u64::MAX - 255, u64::MAX - 256, 0]) } else { cur.wrapping_add(delta as u64) };
        ops.push(l(vec![n(122u8), n(0u8), n(s)]));
        if r.chance(2, 3) {
            ops.push(l(vec![n(123u8), n(0u8), n(s)]));
            if s > cur && r.chance(3, 4) {
                cur = s;
            }
            ops.push(l(vec![n(122u8), n(0u8), n(s)]));
        }
    }
    ops
}

/// An invented datagram with the exact shape of a sealed packet: type, sequence bytes as announced by the prefix,
/// a body of the length that packet type has (empty for denied and disconnect), 16 bytes where the tag goes.
fn gen_shaped_datagram(r: &mut Rng) -> Vec<u8> {
    let ty = r.range(1, 6) as u8;
    let sl = *r.pick(&[0u8, 1, 1, 2, 8]);
    let mut m = vec![ty | (sl << 4)];
    m.extend(r.bytes(sl as usize));
    let body = match ty {
        1 | 6 => 0,
        2 | 3 => 308,
        4 => 8,
        _ => *r.pick(&[0usize, 1, 100, 1300]),
    };
    m.extend(r.bytes(body));
    if r.chance(1, 2) {
        m.extend(vec![0u8; 16]);
    } else {
        m.extend(r.bytes(16));
    }
    m
}

/// n-world: one server, up to three honest clients, an attacker who owns tokens and sees every datagram
pub fn gen_world(r: &mut Rng) -> Vec<Tree> {
    let mut ops = vec![];
    let t0 = *r.pick(&[0u64, 5 * SEC, 1000 * SEC]);
    let max = *r.pick(&[1u64, 2, 2, 3, 8]);
    let protocol = if r.chance(1, 2) { 7 } else { r.next() };
    let server_addr = SocketAddr::new(IpAddr::V4(Ipv4Addr::new(10, 0, 0, 1)), 5000);
    let server_addr2 = SocketAddr::new(IpAddr::V4(Ipv4Addr::new(10, 0, 0, 2)), 5001);
    let two_addrs = r.chance(1, 4);
    let key = r.bytes(32);
    let secure = r.chance(5, 6);
    let mut saddrs = vec![addr_tree(&server_addr)];
    if two_addrs {
        saddrs.push(addr_tree(&server_addr2));
    }
    ops.push(l(vec![n(100u8), n(t0), n(max), n(protocol), l(saddrs), optb(if secure { Some(&key) } else { None }), b(&[])]));
    let zero_key = vec![0u8; 32];
    let caddr: Vec<SocketAddr> = vec![
        SocketAddr::new(IpAddr::V4(Ipv4Addr::new(127, 0, 0, 1)), 3000),
        SocketAddr::new(IpAddr::V4(Ipv4Addr::new(127, 0, 0, 1)), 3001),
        SocketAddr::new(IpAddr::V6(Ipv6Addr::LOCALHOST), 3002),
    ];
    let stranger = SocketAddr::new(IpAddr::V4(Ipv4Addr::new(66, 6, 6, 6)), 666);
    // half of the histories are built around one adversarial scenario, played early (while the state is simple) and once
    // more later; the other half mixes everything
    let focus: Option<usize> = if r.chance(1, 2) { Some(*r.pick(&[18usize, 19, 20, 21, 22, 23, 24, 25, 26, 27, 28, 29, 29, 30, 31, 31, 33, 33, 8, 12])) } else { None };
    let nclients = if focus == Some(30) || focus == Some(33) { 3 } else { *r.pick(&[1usize, 2, 2, 3, 3]) };
    let ids = [1u64, if focus == Some(30) || (focus != Some(33) && r.chance(1, 3)) { 1 } else { 2 }, 3];
    let mut next_token = 0u64;
    let mut new_token = |r: &mut Rng, ops: &mut Vec<Tree>, k: usize, now: u64| -> u64 {
        let tk = next_token;
        next_token += 1;
        let expire = *r.pick(&[2u64, 5, 30, 30, 30]);
        let timeout: i64 = *r.pick(&[-1i64, 1, 2, 5, 15, 15]);
        let mut addrs = vec![];
        match r.below(24) {
            20 => {}                                                                      // no address at all: generation fails
            21 => {
                for _ in 0..33 {                                                          // one more than a token can hold
                    addrs.push(addr_tree(&server_addr));
                }
            }
            22 => {
                for i in 0..32u16 {                                                       // a full list, the server last
                    addrs.push(addr_tree(&if i == 31 { server_addr } else { SocketAddr::new(IpAddr::V4(Ipv4Addr::new(10, 9, 9, 9)), 1000 + i) }));
                }
            }
            23 | 15 => {
                // a sibling server: the same IP address, another port (and the v6 counterpart is covered by `stranger`)
                addrs.push(addr_tree(&SocketAddr::new(server_addr.ip(), server_addr.port() + 7)));
            }
            0 | 8 | 16 => addrs.push(addr_tree(&stranger)),                               // not in the host list
            1 | 9 | 17 => {
                addrs.push(addr_tree(&stranger));                                         // fail over to the second entry
                addrs.push(addr_tree(&server_addr));
            }
            _ => {
                addrs.push(addr_tree(&server_addr));
                if two_addrs {
                    addrs.push(addr_tree(&server_addr2));
                }
            }
        }
        let tkey: Vec<u8> = if !secure { zero_key.clone() } else if r.chance(1, 10) { r.bytes(32) } else { key.clone() };
        let tprot = if r.chance(1, 12) { *r.pick(&[protocol.wrapping_add(1), protocol ^ (1 << 56), protocol ^ (1 << 63)]) } else { protocol };
        let user = r.bytes(256);
        ops.push(l(vec![n(101u8), n(tk), n(now), n(tprot), n(expire), n(ids[k]), z_tree(timeout), l(addrs), b(&user), b(&tkey)]));
        tk
    };
    // a server that has been up for a while: its connect token table is full (or one short of full) of older tokens
    let full_table = t0 >= 5 * SEC && r.chance(1, 6);
    if full_table {
        ops.push(l(vec![n(129u8), n(*r.pick(&[2047u64, 2048, 2048])), n(0u8), addr_tree(&stranger)]));
    }
    let mut now = t0;
    for k in 0..nclients {
        ops.push(l(vec![n(160u8), n(k as u64), addr_tree(&caddr[k])]));
        let tk = new_token(r, &mut ops, k, now);
        ops.push(l(vec![n(102u8), n(k as u64), n(now), n(tk)]));
    }
    if full_table && nclients >= 2 {
        // token 0 from its address, token 1 from its address, then token 0 again from the attacker's address:
        // the table is full, so every new token replaces an entry; the newest bindings must survive
        for k in [0u64, 1] {
            ops.push(l(vec![n(103u8), n(k), n(250 * MS)]));
            ops.push(l(vec![n(150u8), n(k), n(0u8), n(0u8), n(0u8), n(0u8)]));
        }
        ops.push(l(vec![n(151u8), n(0u8), n(0u8), addr_tree(&stranger), n(0u8), n(0u8), n(0u8)]));
        ops.push(l(vec![n(116u8)]));
    }
    if nclients >= 2 && ids[0] == ids[1] && r.chance(2, 3) {
        // one user, two tokens for the same client id: both are presented, then the handshake of one address
        // is answered with the challenge issued for the other token
        let (x, y) = if r.chance(1, 2) { (0u64, 1u64) } else { (1, 0) };
        for k in [x, y] {
            ops.push(l(vec![n(103u8), n(k), n(100 * MS)]));
            ops.push(l(vec![n(150u8), n(k), n(0u8), n(0u8), n(0u8), n(0u8)]));
        }
        ops.push(l(vec![n(155u8), n(x), n(y), n(r.range(0, 300))]));
        if r.chance(1, 2) {
            ops.push(l(vec![n(155u8), n(y), n(x), n(r.range(0, 300))]));
        }
        ops.push(l(vec![n(116u8)]));
    }
    let mut unsecure_tokens = 0u64;
    let steps = r.range(25, 90);
    for step in 0..steps {
        let k = r.below(nclients as u64);
        let id = ids[k as usize];
        let mutk = |r: &mut Rng| -> (u64, u64, u64) {
            if r.chance(5, 6) {
                (0, 0, 0)
            } else if r.chance(1, 3) {
                // the first 54 bytes: prefix and sequence of a sealed datagram; version, protocol id, expiry, nonce of a request
                (1, r.below(54 * 8), 0)
            } else if r.chance(1, 3) {
                // the prefix byte: another packet type, another sequence length
                (r.range(5, 6), 0, r.below(16))
            } else {
                (r.range(1, 4), r.below(12000), r.below(256))
            }
        };
        // (the replay window edge, case 27, costs 260 sealed datagrams: it is played in focused histories only)
        let w: [u32; 34] = [14, 16, 14, 3, 3, 6, 9, 9, 5, 2, 2, 2, 3, 3, 3, 2, 10, 2, 2, 3, 4, 3, 4, 3, 2, 3, 4, 0, 2, 3, 2, 2, 3, 0];
        let case = match focus {
            Some(f) if step == 3 || step == 14 => f,
            _ => r.weighted(&w),
        };
        match case {
            0 => {
                // time passes for everybody (mostly), or for one endpoint only
                let dt = *r.pick(&[0u64, 100 * MS, 250 * MS, 251 * MS, SEC, 2 * SEC, 5 * SEC]);
                if r.chance(4, 5) {
                    ops.push(l(vec![n(111u8), n(dt)]));
                    for j in 0..nclients {
                        ops.push(l(vec![n(103u8), n(j as u64), n(dt)]));
                    }
                    now += dt;
                } else if r.chance(1, 2) {
                    ops.push(l(vec![n(111u8), n(dt)]));
                } else {
                    ops.push(l(vec![n(103u8), n(k), n(dt)]));
                }
            }
            1 => {
                let (kind, a, bb) = mutk(r);
                ops.push(l(vec![n(150u8), n(k), n(r.below(3)), n(kind), n(a), n(bb)]));
            }
            2 => {
                let (kind, a, bb) = mutk(r);
                ops.push(l(vec![n(152u8), n(k), n(r.below(3)), n(kind), n(a), n(bb)]));
            }
            3 => {
                let from = if r.chance(1, 2) { caddr[((k + 1) % 3) as usize] } else { stranger };
                ops.push(l(vec![n(151u8), n(k), n(r.below(4)), addr_tree(&from), n(0u8), n(0u8), n(0u8)]));
            }
            4 => {
                let k2 = (k + 1) % nclients as u64;
                ops.push(l(vec![n(153u8), n(k2), n(r.below(3)), n(k), n(0u8), n(0u8), n(0u8)]));
            }
            5 => ops.push(l(vec![n(112u8), n(id)])),
            6 => {
                // payloads from the client: generated, delivered (sometimes twice, sometimes out of order)
                let cnt = r.range(1, 3);
                for _ in 0..cnt {
                    let len = *r.pick(&[0usize, 1, 100, 1300, 1301]);
                    ops.push(l(vec![n(105u8), n(k), b(&r.bytes(len))]));
                }
                for _ in 0..r.range(1, 4) {
                    ops.push(l(vec![n(150u8), n(k), n(r.below(cnt + 1)), n(0u8), n(0u8), n(0u8)]));
                }
            }
            7 => {
                let cnt = r.range(1, 3);
                for _ in 0..cnt {
                    let len = *r.pick(&[0usize, 1, 100, 1300, 1301]);
                    ops.push(l(vec![n(114u8), n(id), b(&r.bytes(len))]));
                }
                for _ in 0..r.range(1, 4) {
                    ops.push(l(vec![n(152u8), n(k), n(r.below(cnt + 1)), n(0u8), n(0u8), n(0u8)]));
                }
            }
            8 => {
                // old datagrams, replayed
                ops.push(l(vec![n(150u8), n(k), n(r.below(12)), n(0u8), n(0u8), n(0u8)]));
                ops.push(l(vec![n(152u8), n(k), n(r.below(12)), n(0u8), n(0u8), n(0u8)]));
            }
            9 => ops.push(l(vec![n(113u8), n(id)])),
            10 => ops.push(l(vec![n(106u8), n(k)])),
            11 => ops.push(l(vec![n(115u8), n(*r.pick(&[0u64, 1, 2, 3, 8, 2000]))])),
            12 => {
                // fabricated datagrams to the server
                let from = if r.chance(2, 3) { caddr[k as usize] } else { stranger };
                let m = if r.chance(1, 2) {
                    gen_shaped_datagram(r)
                } else {
                    let len = *r.pick(&[0usize, 17, 18, 19, 26, 34, 326, 1078, 1078, 1400]);
                    let mut m = if r.chance(1, 2) { vec![0u8; len] } else { r.bytes(len) };
                    if !m.is_empty() {
                        m[0] = if r.chance(1, 2) { r.below(7) as u8 | ((r.below(16) as u8) << 4) } else { r.below(256) as u8 };
                    }
                    m
                };
                ops.push(l(vec![n(110u8), addr_tree(&from), b(&m)]));
            }
            13 => {
                let m = if r.chance(1, 2) {
                    gen_shaped_datagram(r)
                } else {
                    let len = *r.pick(&[0usize, 17, 18, 19, 26, 34, 326, 1400]);
                    let mut m = r.bytes(len);
                    if !m.is_empty() {
                        m[0] = r.below(7) as u8 | ((r.below(16) as u8) << 4);
                    }
                    m
                };
                ops.push(l(vec![n(104u8), n(k), b(&m)]));
            }
            14 => {
                ops.push(l(vec![n(116u8)]));
                ops.push(l(vec![n(107u8), n(k)]));
                ops.push(l(vec![n(119u8), n(id)]));
            }
            15 => {
                if r.chance(1, 4) {
                    // a new attempt in unsecure mode: the client builds its own token (only an unsecure server accepts it)
                    let target = if r.chance(5, 6) { server_addr } else { stranger };
                    let tprot = if r.chance(1, 10) { protocol.wrapping_add(1) } else { protocol };
                    unsecure_tokens += 1;
                    ops.push(l(vec![n(128u8), n(k), n(100_000 + unsecure_tokens), n(now), n(tprot), n(id), addr_tree(&target), b(&r.bytes(256))]));
                } else {
                    // a new attempt with a fresh token
                    let tk = new_token(r, &mut ops, k as usize, now);
                    ops.push(l(vec![n(102u8), n(k), n(now), n(tk)]));
                }
            }
            16 => ops.push(l(vec![n(170u8), n(k), n(*r.pick(&[1u64, 2, 4, 4, 5]))])),
            17 => {
                for idx in [1u64, 2, 3] {
                    ops.push(l(vec![n(112u8), n(idx)]));
                }
            }
            20 => {
                // cross-use of challenges between sessions the attacker owns
                let kc = r.below(nclients as u64);
                ops.push(l(vec![n(155u8), n(k), n(kc), n(r.range(0, 300))]));
            }
            21 => {
                // a request reaches the server, its retransmission arrives with one bit of a public field flipped
                // (the address is pending by then), then the genuine one again
                ops.push(l(vec![n(103u8), n(k), n(250 * MS)]));
                ops.push(l(vec![n(150u8), n(k), n(0u8), n(0u8), n(0u8), n(0u8)]));
                ops.push(l(vec![n(103u8), n(k), n(250 * MS)]));
                ops.push(l(vec![n(150u8), n(k), n(0u8), n(1u8), n(r.range(8, 54 * 8 - 1)), n(0u8)]));
                if r.chance(1, 2) {
                    ops.push(l(vec![n(150u8), n(k), n(0u8), n(0u8), n(0u8), n(0u8)]));
                }
            }
            22 => {
                // a late responder: k is challenged, the others connect (the server may be full by then),
                // then k answers with a foreign or garbage challenge, then with its own
                if nclients >= 2 && r.chance(2, 3) {
                    ops.push(l(vec![n(115u8), n(nclients as u64 - 1)]));
                }
                ops.push(l(vec![n(103u8), n(k), n(250 * MS)]));
                ops.push(l(vec![n(150u8), n(k), n(0u8), n(0u8), n(0u8), n(0u8)]));
                for j in 0..nclients as u64 {
                    if j != k {
                        ops.push(l(vec![n(170u8), n(j), n(4u8)]));
                    }
                }
                if r.chance(1, 2) {
                    ops.push(l(vec![n(158u8), n(k), n(r.range(0, 300)), b(&r.bytes(300))]));
                } else {
                    ops.push(l(vec![n(155u8), n(k), n((k + 1) % nclients as u64), n(r.range(0, 300))]));
                }
                ops.push(l(vec![n(116u8)]));
                ops.push(l(vec![n(155u8), n(k), n(k), n(r.range(0, 300))]));
                ops.push(l(vec![n(116u8)]));
                // a slot frees and k's request is seen again: the next handshake reply goes to the same token
                ops.push(l(vec![n(113u8), n(ids[((k + 1) % nclients as u64) as usize])]));
                ops.push(l(vec![n(150u8), n(k), n(r.range(0, 2)), n(0u8), n(0u8), n(0u8)]));
                ops.push(l(vec![n(116u8)]));
            }
            23 => ops.push(l(vec![n(158u8), n(k), n(r.range(0, 300)), b(&r.bytes(300))])),
            31 => {
                // a recorded session played back: the client connects, exchanges a payload, the session ends, then its very
                // datagrams (request, response, payload) arrive again in order from the same address
                ops.push(l(vec![n(170u8), n(k), n(3u8)]));
                ops.push(l(vec![n(105u8), n(k), b(&r.bytes(12))]));
                ops.push(l(vec![n(150u8), n(k), n(0u8), n(0u8), n(0u8), n(0u8)]));
                if r.chance(1, 2) {
                    ops.push(l(vec![n(113u8), n(id)]));
                } else {
                    ops.push(l(vec![n(106u8), n(k)]));
                    ops.push(l(vec![n(150u8), n(k), n(0u8), n(0u8), n(0u8), n(0u8)]));
                }
                for i in 0..r.range(2, 6) {
                    ops.push(l(vec![n(159u8), n(k), n(i)]));
                }
                ops.push(l(vec![n(116u8)]));
                ops.push(l(vec![n(112u8), n(id)]));
            }
            30 => {
                // two sessions racing for one client id across a hole in the slot table: both are challenged, the first
                // answers and connects, a client in a lower slot leaves, then the second answers
                if nclients == 3 && ids[0] == ids[1] {
                    ops.push(l(vec![n(115u8), n(8u8)]));
                    ops.push(l(vec![n(170u8), n(2u8), n(4u8)]));
                    for j in [0u64, 1] {
                        ops.push(l(vec![n(103u8), n(j), n(250 * MS)]));
                        ops.push(l(vec![n(150u8), n(j), n(0u8), n(0u8), n(0u8), n(0u8)]));
                    }
                    ops.push(l(vec![n(152u8), n(0u8), n(0u8), n(0u8), n(0u8), n(0u8)]));
                    ops.push(l(vec![n(103u8), n(0u8), n(250 * MS)]));
                    ops.push(l(vec![n(150u8), n(0u8), n(0u8), n(0u8), n(0u8), n(0u8)]));
                    ops.push(l(vec![n(113u8), n(ids[2])]));
                    ops.push(l(vec![n(152u8), n(1u8), n(0u8), n(0u8), n(0u8), n(0u8)]));
                    ops.push(l(vec![n(103u8), n(1u8), n(250 * MS)]));
                    ops.push(l(vec![n(150u8), n(1u8), n(0u8), n(0u8), n(0u8), n(0u8)]));
                    ops.push(l(vec![n(116u8)]));
                    ops.push(l(vec![n(114u8), n(ids[0]), b(&r.bytes(4))]));
                }
            }
            29 => {
                // a hole in the slot table: everybody connects, the one that connected first leaves, then the others are
                // addressed by id and by address (payloads both ways, keep-alives, a kick, a disconnect packet)
                if nclients >= 2 {
                    ops.push(l(vec![n(115u8), n(8u8)]));
                    for j in 0..nclients as u64 {
                        ops.push(l(vec![n(170u8), n(j), n(4u8)]));
                    }
                    ops.push(l(vec![n(114u8), n(ids[0]), b(&r.bytes(6))]));
                    if r.chance(1, 2) {
                        ops.push(l(vec![n(113u8), n(ids[0])]));
                    } else {
                        ops.push(l(vec![n(106u8), n(0u8)]));
                        ops.push(l(vec![n(150u8), n(0u8), n(0u8), n(0u8), n(0u8), n(0u8)]));
                    }
                    ops.push(l(vec![n(116u8)]));
                    for j in 1..nclients as u64 {
                        ops.push(l(vec![n(114u8), n(ids[j as usize]), b(&r.bytes(9))]));
                        ops.push(l(vec![n(152u8), n(j), n(0u8), n(0u8), n(0u8), n(0u8)]));
                        ops.push(l(vec![n(105u8), n(j), b(&r.bytes(7))]));
                        ops.push(l(vec![n(150u8), n(j), n(0u8), n(0u8), n(0u8), n(0u8)]));
                        ops.push(l(vec![n(119u8), n(ids[j as usize])]));
                    }
                    let last = nclients as u64 - 1;
                    match r.below(3) {
                        0 => ops.push(l(vec![n(113u8), n(ids[last as usize])])),
                        1 => {
                            ops.push(l(vec![n(106u8), n(last)]));
                            ops.push(l(vec![n(150u8), n(last), n(0u8), n(0u8), n(0u8), n(0u8)]));
                        }
                        _ => {
                            ops.push(l(vec![n(111u8), n(20 * SEC)]));
                            ops.push(l(vec![n(112u8), n(ids[last as usize])]));
                        }
                    }
                    ops.push(l(vec![n(116u8)]));
                    // the slot the first one left is taken by somebody else (a new attempt of the last client), then the
                    // server is asked to send to the id that used to live there
                    let tk = new_token(r, &mut ops, last as usize, now);
                    ops.push(l(vec![n(102u8), n(last), n(now), n(tk)]));
                    ops.push(l(vec![n(170u8), n(last), n(4u8)]));
                    ops.push(l(vec![n(114u8), n(ids[0]), b(&r.bytes(5))]));
                    ops.push(l(vec![n(114u8), n(ids[last as usize]), b(&r.bytes(5))]));
                    ops.push(l(vec![n(152u8), n(last), n(0u8), n(0u8), n(0u8), n(0u8)]));
                    ops.push(l(vec![n(152u8), n(last), n(1u8), n(0u8), n(0u8), n(0u8)]));
                    ops.push(l(vec![n(116u8)]));
                }
            }
            27 => {
                // the edge of the replay window: 255 to 257 payloads are generated, the newest arrives first, then the ones
                // that lag by 254, 255 (still inside the window) and 256 (outside)
                ops.push(l(vec![n(170u8), n(k), n(3u8)]));
                let total = r.range(256, 258);
                for _ in 0..total {
                    ops.push(l(vec![n(105u8), n(k), b(&r.bytes(3))]));
                }
                ops.push(l(vec![n(150u8), n(k), n(0u8), n(0u8), n(0u8), n(0u8)]));
                for back in [254u64, 255, 256, 255] {
                    ops.push(l(vec![n(150u8), n(k), n(back), n(0u8), n(0u8), n(0u8)]));
                }
            }
            28 => {
                // traffic that crosses the end of a session: the client leaves (or is told to), payloads sealed for it arrive later
                ops.push(l(vec![n(170u8), n(k), n(3u8)]));
                ops.push(l(vec![n(114u8), n(id), b(&r.bytes(20))]));
                ops.push(l(vec![n(114u8), n(id), b(&r.bytes(0))]));
                if r.chance(1, 2) {
                    ops.push(l(vec![n(106u8), n(k)]));
                } else {
                    ops.push(l(vec![n(113u8), n(id)]));
                    ops.push(l(vec![n(152u8), n(k), n(0u8), n(0u8), n(0u8), n(0u8)]));
                }
                ops.push(l(vec![n(152u8), n(k), n(1u8), n(0u8), n(0u8), n(0u8)]));
                ops.push(l(vec![n(152u8), n(k), n(2u8), n(0u8), n(0u8), n(0u8)]));
                ops.push(l(vec![n(107u8), n(k)]));
            }
            26 => {
                // a token sealed for a protocol id that differs from the server's in one bit (another version of the
                // game, the same key), whose request is then presented with that bit of the public field set right
                let bit = *r.pick(&[0u64, 7, 8, 31, 55, 56, 57, 60, 63]);
                unsecure_tokens += 1;
                let tk = 200_000 + unsecure_tokens;
                let tkey: Vec<u8> = if secure { key.clone() } else { zero_key.clone() };
                ops.push(l(vec![n(101u8), n(tk), n(now), n(protocol ^ (1 << bit)), n(30u8), n(id), z_tree(15), l(vec![addr_tree(&server_addr)]), b(&r.bytes(256)), b(&tkey)]));
                ops.push(l(vec![n(102u8), n(k), n(now), n(tk)]));
                ops.push(l(vec![n(103u8), n(k), n(250 * MS)]));
                ops.push(l(vec![n(150u8), n(k), n(0u8), n(1u8), n(14 * 8 + bit), n(0u8)]));
                ops.push(l(vec![n(116u8)]));
            }
            25 => {
                // type confusion: genuine datagrams of a live session arrive with another packet type in the clear prefix
                // (keep-alive relabelled as payload, payload relabelled as keep-alive), then the genuine payload itself
                ops.push(l(vec![n(170u8), n(k), n(3u8)]));
                ops.push(l(vec![n(103u8), n(k), n(250 * MS)]));
                ops.push(l(vec![n(150u8), n(k), n(0u8), n(5u8), n(0u8), n(*r.pick(&[5u64, 6, 1]))]));
                let plen = *r.pick(&[8usize, 100]);
                ops.push(l(vec![n(105u8), n(k), b(&r.bytes(plen))]));
                ops.push(l(vec![n(150u8), n(k), n(0u8), n(5u8), n(0u8), n(*r.pick(&[4u64, 6]))]));
                ops.push(l(vec![n(150u8), n(k), n(0u8), n(0u8), n(0u8), n(0u8)]));
                // and towards the client
                ops.push(l(vec![n(114u8), n(id), b(&r.bytes(8))]));
                ops.push(l(vec![n(152u8), n(k), n(0u8), n(5u8), n(0u8), n(*r.pick(&[4u64, 6, 1]))]));
                ops.push(l(vec![n(152u8), n(k), n(0u8), n(0u8), n(0u8), n(0u8)]));
            }
            24 => {
                // denied, admitted later, then the old denial arrives: the server is full when k asks, the slot frees,
                // k gets in, and a datagram from the time of the refusal is delivered late
                if nclients >= 2 {
                    let other = (k + 1) % nclients as u64;
                    ops.push(l(vec![n(115u8), n(1u8)]));
                    ops.push(l(vec![n(170u8), n(other), n(4u8)]));
                    ops.push(l(vec![n(103u8), n(k), n(250 * MS)]));
                    ops.push(l(vec![n(150u8), n(k), n(0u8), n(0u8), n(0u8), n(0u8)]));
                    ops.push(l(vec![n(113u8), n(ids[other as usize])]));
                    ops.push(l(vec![n(170u8), n(k), n(4u8)]));
                    for back in [r.range(2, 9), r.range(0, 12)] {
                        ops.push(l(vec![n(152u8), n(k), n(back), n(0u8), n(0u8), n(0u8)]));
                    }
                    ops.push(l(vec![n(107u8), n(k)]));
                    ops.push(l(vec![n(116u8)]));
                }
            }
            19 => {
                // reflection: an endpoint's own datagrams come back to it
                if r.chance(1, 2) {
                    ops.push(l(vec![n(156u8), n(k), n(r.below(4))]));
                } else {
                    ops.push(l(vec![n(157u8), n(k), n(r.below(4))]));
                }
            }
            18 if full_table => {
                // token k from its address, another client's token, then token k again from the attacker's address
                let k2 = (k + 1) % nclients as u64;
                ops.push(l(vec![n(103u8), n(k), n(250 * MS)]));
                ops.push(l(vec![n(150u8), n(k), n(0u8), n(0u8), n(0u8), n(0u8)]));
                ops.push(l(vec![n(103u8), n(k2), n(250 * MS)]));
                ops.push(l(vec![n(150u8), n(k2), n(0u8), n(0u8), n(0u8), n(0u8)]));
                ops.push(l(vec![n(151u8), n(k), n(0u8), addr_tree(&stranger), n(0u8), n(0u8), n(0u8)]));
                ops.push(l(vec![n(116u8)]));
            }
            33 => {
                // a race for the last slots, mostly after the limit was raised by one at run time: every client asks before
                // anybody answers (all are challenged), then all of them answer
                if nclients == 3 {
                    if max < 3 && r.chance(3, 4) {
                        ops.push(l(vec![n(115u8), n(max + 1)]));
                    }
                    for j in 0..3u64 {
                        ops.push(l(vec![n(103u8), n(j), n(250 * MS)]));
                        ops.push(l(vec![n(150u8), n(j), n(0u8), n(0u8), n(0u8), n(0u8)]));
                    }
                    for j in 0..3u64 {
                        ops.push(l(vec![n(152u8), n(j), n(0u8), n(0u8), n(0u8), n(0u8)]));
                        ops.push(l(vec![n(103u8), n(j), n(250 * MS)]));
                        ops.push(l(vec![n(150u8), n(j), n(0u8), n(0u8), n(0u8), n(0u8)]));
                        ops.push(l(vec![n(152u8), n(j), n(0u8), n(0u8), n(0u8), n(0u8)]));
                    }
                    ops.push(l(vec![n(116u8)]));
                }
            }
            18 => {
                // the attacker presents client k's request from its own address first
                ops.push(l(vec![n(151u8), n(k), n(r.below(6)), addr_tree(&stranger), n(0u8), n(0u8), n(0u8)]));
            }
            _ => {
                ops.push(l(vec![n(150u8), n(k), n(0u8), n(0u8), n(0u8), n(0u8)]));
                ops.push(l(vec![n(152u8), n(k), n(0u8), n(0u8), n(0u8), n(0u8)]));
            }
        }
    }
    ops.push(l(vec![n(116u8)]));
    for j in 0..nclients {
        ops.push(l(vec![n(107u8), n(j as u64)]));
    }
    ops
}
