//! Generators of renet histories (suites S1..S6). Every choice derives from the Rng passed in.
use crate::rexec::*;
use crate::rng::Rng;
use crate::tree::*;
use bytes::Bytes;
use renet::verif::{Packet, Slice};

const MS: u64 = 1_000_000;

fn size_class(r: &mut Rng) -> usize {
    match r.weighted(&[8, 10, 14, 10, 12, 10, 8, 6, 4, 3]) {
        0 => 0,
        1 => 1,
        2 => if r.chance(1, 6) { *r.pick(&[62usize, 63, 64, 65]) } else { r.range(2, 40) as usize },
        3 => r.range(41, 600) as usize,
        4 => r.range(1150, 1199) as usize,
        5 => *r.pick(&[1199usize, 1200, 1201, 1202, 1203]),
        6 => *r.pick(&[2399usize, 2400, 2401]),
        7 => r.range(1204, 3700) as usize,
        8 => *r.pick(&[3599usize, 3600, 3601, 4800, 6000]),
        _ => r.range(3700, 9000) as usize,
    }
}

pub struct Payloads {
    counter: u32,
}
impl Payloads {
    pub fn new() -> Self {
        Payloads { counter: 0 }
    }
    /// payload of the given length, unique when it has at least 4 bytes
    pub fn make(&mut self, r: &mut Rng, len: usize) -> Vec<u8> {
        self.counter += 1;
        let mut v = Vec::with_capacity(len);
        let tag = self.counter.to_le_bytes();
        let fill = r.below(256) as u8;
        for i in 0..len {
            v.push(if i < 4 { tag[i] } else { fill.wrapping_add((i / 1200) as u8) });
        }
        v
    }
}

fn gen_cfgs(r: &mut Rng) -> Vec<ChanCfg> {
    let nch = r.range(1, 3) as usize;
    let mut ids: Vec<u8> = vec![0, 1, 2, 3, 7, 255];
    let mut out = vec![];
    for _ in 0..nch {
        let k = r.below(ids.len() as u64) as usize;
        let id = ids.remove(k);
        let ty = r.below(3) as u8;
        let max = *r.pick(&[1500usize, 3000, 5000, 12_000, 40_000, 200_000]);
        let resend = *r.pick(&[0u64, 50 * MS, 100 * MS, 300 * MS]);
        out.push(ChanCfg { id, max, ty, resend_ns: if ty == 0 { 0 } else { resend } });
    }
    out
}

fn gen_budget(r: &mut Rng) -> u64 {
    *r.pick(&[0u64, 500, 1200, 1500, 2500, 6000, 60_000, 60_000])
}

fn gen_dt(r: &mut Rng) -> u64 {
    *r.pick(&[0u64, 1, 16 * MS, 49 * MS, 50 * MS, 100 * MS, 101 * MS, 299 * MS, 300 * MS, 1000 * MS, 2999 * MS, 3000 * MS, 3001 * MS])
}

pub fn op_newconn(k: u64, budget: u64, send: &[ChanCfg], recv: &[ChanCfg]) -> Tree {
    l(vec![n(1u8), n(k), n(budget), cfg_tree(send), cfg_tree(recv)])
}
pub fn op_send(e: Ep, ch: u8, m: &[u8]) -> Tree {
    l(vec![n(3u8), ep_tree(e), n(ch), b(m)])
}
pub fn op_recv(e: Ep, ch: u8) -> Tree {
    l(vec![n(4u8), ep_tree(e), n(ch)])
}
pub fn op_drain(e: Ep, ch: u8) -> Tree {
    l(vec![n(61u8), ep_tree(e), n(ch)])
}
pub fn op_update(e: Ep, dt: u64) -> Tree {
    l(vec![n(5u8), ep_tree(e), n(dt)])
}
pub fn op_flush(e: Ep) -> Tree {
    l(vec![n(7u8), ep_tree(e)])
}
pub fn op_raw(e: Ep, bytes: &[u8]) -> Tree {
    l(vec![n(8u8), ep_tree(e), b(bytes)])
}
pub fn op_status(e: Ep) -> Tree {
    l(vec![n(9u8), ep_tree(e)])
}
pub fn op_deliver(src: Ep, dst: Ep, i: usize) -> Tree {
    l(vec![n(50u8), ep_tree(src), ep_tree(dst), nu(i)])
}
pub fn op_mut(src: Ep, dst: Ep, i: usize, kind: u8, a: u64, bb: u64) -> Tree {
    l(vec![n(51u8), ep_tree(src), ep_tree(dst), nu(i), n(kind), n(a), n(bb)])
}
pub fn op_pair(a: Ep, bb: Ep) -> Tree {
    l(vec![n(60u8), ep_tree(a), ep_tree(bb)])
}

/// values at and around every varint width boundary
pub fn boundary_u62(r: &mut Rng) -> u64 {
    let base = *r.pick(&[0u64, 1, 63, 64, 65, 255, 256, 16383, 16384, 16385, 65535, 65536, 1_000_000, 1_000_001, (1 << 30) - 1, 1 << 30, (1 << 30) + 1, (1 << 32) - 1, 1 << 32, (1 << 62) - 2, (1 << 62) - 1]);
    if r.chance(1, 4) {
        r.below(1 << 62)
    } else {
        base
    }
}

fn gen_ranges(r: &mut Rng, wf: bool) -> Vec<std::ops::Range<u64>> {
    let count = *r.pick(&[1usize, 1, 2, 3, 5, 17, 63, 64, 65]);
    let mut out = vec![];
    let mut cur = boundary_u62(r) % (1 << 40);
    for _ in 0..count {
        let size = *r.pick(&[1u64, 1, 2, 3, 64, 1000, 70000]);
        out.push(cur..cur + size);
        let gap = *r.pick(&[1u64, 1, 2, 63, 64, 16384, 1 << 31]);
        cur = cur + size + gap;
    }
    if !wf && !out.is_empty() {
        let i = r.below(out.len() as u64) as usize;
        match r.below(4) {
            0 => out[i] = out[i].end..out[i].start,       // inverted
            1 => out[i] = out[i].start..out[i].start,     // empty
            2 => out.swap(0, i),                          // unsorted
            _ => {
                if i + 1 < out.len() {
                    out[i + 1] = out[i].end..out[i + 1].end; // adjacent
                }
            }
        }
    }
    out
}

/// A structured packet value; `hostile` allows field values a well-behaved peer never produces.
pub fn gen_packet(r: &mut Rng, chans: &[u8], hostile: bool) -> Packet {
    let sequence = boundary_u62(r);
    let channel_id = if hostile && r.chance(1, 8) { r.below(256) as u8 } else if chans.is_empty() { 0 } else { *r.pick(chans) };
    let msg = |r: &mut Rng| -> Bytes {
        let len = *r.pick(&[0usize, 1, 2, 63, 64, 100, 1199, 1200]);
        Bytes::from(r.bytes(len))
    };
    match r.below(5) {
        // now and then as many tiny messages as one packet can hold (the count field is two bytes wide)
        0 if r.chance(1, 8) => {
            let cnt = *r.pick(&[255usize, 256, 257, 400, 590]);
            let base = r.below(1000);
            Packet::SmallReliable { sequence, channel_id, messages: (0..cnt).map(|i| (base + i as u64, Bytes::new())).collect() }
        }
        1 if r.chance(1, 8) => {
            let cnt = *r.pick(&[255usize, 256, 257, 400, 1000]);
            Packet::SmallUnreliable { sequence, channel_id, messages: (0..cnt).map(|_| Bytes::new()).collect() }
        }
        0 => {
            let cnt = *r.pick(&[0usize, 1, 2, 5]);
            Packet::SmallReliable { sequence, channel_id, messages: (0..cnt).map(|_| (boundary_u62(r), msg(r))).collect() }
        }
        1 => {
            let cnt = *r.pick(&[0usize, 1, 2, 5]);
            Packet::SmallUnreliable { sequence, channel_id, messages: (0..cnt).map(|_| msg(r)).collect() }
        }
        2 | 3 => {
            let num_slices = if hostile { *r.pick(&[0usize, 1, 2, 3, 1000, 1_000_000, 1_000_001, usize::MAX / 1200 - 1, usize::MAX / 1200, usize::MAX / 1200 + 1, (1 << 62) - 1, usize::MAX >> 2]) } else { *r.pick(&[1usize, 2, 3, 1000, 1_000_000]) };
            let slice_index = if hostile && num_slices > 0 && r.chance(1, 3) {
                num_slices - 1 // the last slice: the only one whose length is not fixed
            } else if hostile {
                *r.pick(&[0usize, 1, 2, 3, 999, 1000, usize::MAX >> 2])
            } else {
                r.below(num_slices as u64) as usize
            };
            let plen = if hostile { *r.pick(&[0usize, 1, 1199, 1200, 1201, 1300]) } else { *r.pick(&[1usize, 600, 1200]) };
            let slice = Slice { message_id: boundary_u62(r), slice_index, num_slices, payload: Bytes::from(r.bytes(plen)) };
            if r.chance(1, 2) {
                Packet::ReliableSlice { sequence, channel_id, slice }
            } else {
                Packet::UnreliableSlice { sequence, channel_id, slice }
            }
        }
        _ => {
            let wf = !hostile || r.chance(1, 2);
            Packet::Ack { sequence, ack_ranges: gen_ranges(r, wf) }
        }
    }
}

fn is_encodable(p: &Packet) -> bool {
    // values the encoder would panic on are API misuse of a crate-internal function: not generated
    let ok62 = |v: u64| v < (1 << 62);
    match p {
        Packet::Ack { ack_ranges, sequence } => {
            if ack_ranges.is_empty() || !ok62(*sequence) {
                return false;
            }
            // the encoder subtracts without checks: keep it to sorted, non-adjacent, non-empty ranges
            let mut prev_end: Option<u64> = None;
            for r in ack_ranges {
                if r.start >= r.end || !ok62(r.end) {
                    return false;
                }
                if let Some(pe) = prev_end {
                    if r.start <= pe {
                        return false;
                    }
                }
                prev_end = Some(r.end);
            }
            true
        }
        Packet::SmallReliable { sequence, messages, .. } => ok62(*sequence) && messages.iter().all(|(id, _)| ok62(*id)),
        Packet::SmallUnreliable { sequence, .. } => ok62(*sequence),
        Packet::ReliableSlice { sequence, slice, .. } | Packet::UnreliableSlice { sequence, slice, .. } => {
            ok62(*sequence) && ok62(slice.message_id) && ok62(slice.slice_index as u64) && ok62(slice.num_slices as u64)
        }
    }
}

/// S1: codec suite - structured encodes (several capacities), decodes of the results,
/// and a malformed stream (truncations, every first byte, inflated counts, random bytes).
pub fn gen_codec(r: &mut Rng) -> Vec<Tree> {
    let mut ops = vec![];
    for _ in 0..12 {
        let hostile = r.chance(1, 3);
        let p = gen_packet(r, &[0, 1, 2], hostile);
        if !is_encodable(&p) {
            continue;
        }
        let cap = *r.pick(&[1400usize, 1400, 1400, 1300, 64, 5, 0]);
        ops.push(l(vec![n(41u8), nu(cap), packet_tree(&p)]));
        if let Ok(bytes) = encode_packet(&p, 1400) {
            ops.push(l(vec![n(40u8), b(&bytes)]));
            match r.below(5) {
                0 => {
                    let cut = r.below(bytes.len() as u64 + 1) as usize;
                    ops.push(l(vec![n(40u8), b(&bytes[..cut])]));
                }
                1 => {
                    let mut m = bytes.clone();
                    if !m.is_empty() {
                        let at = r.below(m.len().min(24) as u64) as usize;
                        m[at] = *r.pick(&[0u8, 1, 0x3f, 0x40, 0x7f, 0x80, 0xbf, 0xc0, 0xff]);
                    }
                    ops.push(l(vec![n(40u8), b(&m)]));
                }
                2 => {
                    let mut m = bytes.clone();
                    let extra = r.below(9) as usize;
                    m.extend(r.bytes(extra));
                    ops.push(l(vec![n(40u8), b(&m)]));
                }
                _ => {}
            }
        }
    }
    for _ in 0..4 {
        let len = *r.pick(&[0usize, 1, 2, 3, 8, 20, 100]);
        let mut m = r.bytes(len);
        if !m.is_empty() {
            m[0] = r.below(7) as u8;
        }
        ops.push(l(vec![n(40u8), b(&m)]));
    }
    for _ in 0..4 {
        ops.push(l(vec![n(40u8), b(&gen_raw_ack(r))]));
    }
    ops
}

pub struct PairGen {
    pub hostile: bool,
    pub steps: usize,
}

struct Side {
    ep: Ep,
    send: Vec<ChanCfg>,
    recv: Vec<ChanCfg>,
    nout: usize,
}

fn put_varint(v: &mut Vec<u8>, x: u64) {
    if x < (1 << 6) {
        v.push(x as u8);
    } else if x < (1 << 14) {
        v.extend_from_slice(&((x as u16) | 0x4000).to_be_bytes());
    } else if x < (1 << 30) {
        v.extend_from_slice(&((x as u32) | 0x8000_0000).to_be_bytes());
    } else {
        v.extend_from_slice(&((x & ((1 << 62) - 1)) | 0xc000_0000_0000_0000).to_be_bytes());
    }
}

/// An ack packet written byte by byte: every field sits at or next to the bound the decoder checks it against
/// (first size against first end; every gap against the previous range start; every size against the range end).
pub fn gen_raw_ack(r: &mut Rng) -> Vec<u8> {
    let mut v = vec![4u8];
    put_varint(&mut v, boundary_u62(r));
    let end = if r.chance(2, 3) { r.below(200) } else { boundary_u62(r) };
    let size = *r.pick(&[0u64, 1, end / 2, end.saturating_sub(1), end, end.saturating_add(1)]);
    put_varint(&mut v, end);
    put_varint(&mut v, size & ((1 << 62) - 1));
    let count = *r.pick(&[0u64, 1, 1, 2, 3, 3, 70, 1 << 20]);
    put_varint(&mut v, count);
    let mut prev_start = end.saturating_sub(size);
    for _ in 0..count.min(4) {
        let gap = *r.pick(&[0u64, 1, prev_start.saturating_sub(3), prev_start.saturating_sub(2), prev_start.saturating_sub(1), prev_start, prev_start.saturating_add(1)]);
        put_varint(&mut v, gap & ((1 << 62) - 1));
        let range_end = prev_start.saturating_sub(gap).saturating_sub(2);
        let rsize = *r.pick(&[0u64, 0, 1, range_end.saturating_sub(1), range_end, range_end.saturating_add(1)]);
        put_varint(&mut v, rsize & ((1 << 62) - 1));
        prev_start = range_end.saturating_sub(rsize);
    }
    v
}

/// A burst of otherwise harmless packets whose sequence numbers open more than 64 separate acknowledgement
/// ranges at the receiver: appended at the end, prepended at the front, or inserted between an old anchor and a
/// much newer sequence, in any order.
fn gen_ack_range_burst(r: &mut Rng, dst: &Side) -> Vec<Vec<u8>> {
    let unrel = dst.recv.iter().find(|c| c.ty == 0).map(|c| c.id);
    let mk = |seq: u64| -> Vec<u8> {
        let mut v = vec![];
        match unrel {
            Some(ch) => {
                v.push(1u8);
                put_varint(&mut v, seq);
                v.push(ch);
                v.extend_from_slice(&0u16.to_be_bytes());
            }
            None => {
                // an ack of a sequence this endpoint never used
                v.push(4u8);
                put_varint(&mut v, seq);
                put_varint(&mut v, (1 << 61) + seq);
                put_varint(&mut v, 0);
                put_varint(&mut v, 0);
            }
        }
        v
    };
    let step = *r.pick(&[2u64, 3, 1 << 31]);
    let count = r.range(66, 160);
    let base = r.below(1000);
    let mut seqs: Vec<u64> = (1..=count).map(|i| base + i * step).collect();
    let mut out = vec![];
    match r.below(3) {
        0 => {}
        1 => seqs.reverse(),
        _ => {
            // anchor, newest, then the ones in between, shuffled
            out.push(mk(base));
            out.push(mk(base + (count + 1) * step));
            for i in (1..seqs.len()).rev() {
                let j = r.below(i as u64 + 1) as usize;
                seqs.swap(i, j);
            }
        }
    }
    for s in seqs {
        out.push(mk(s));
    }
    out
}

/// Slices that contradict each other: one message id on one channel, announced with different slice counts, indices
/// beyond the first count, a last slice that is not the shortest, a repeated index with other bytes.
fn gen_conflicting_slices(r: &mut Rng, dst: &Side) -> Vec<Vec<u8>> {
    let c = match dst.recv.is_empty() {
        true => return vec![],
        false => r.pick(&dst.recv).clone(),
    };
    let id = boundary_u62(r) % (1 << 20);
    let first_n = *r.pick(&[1usize, 2, 2, 3]);
    let mut out = vec![];
    let mut seq = r.below(1 << 16);
    let mut mk = |r: &mut Rng, num: usize, idx: usize, plen: usize| -> Option<Vec<u8>> {
        seq += 1;
        let slice = Slice { message_id: id, slice_index: idx, num_slices: num, payload: Bytes::from(r.bytes(plen)) };
        let p = if c.ty == 0 { Packet::UnreliableSlice { sequence: seq, channel_id: c.id, slice } } else { Packet::ReliableSlice { sequence: seq, channel_id: c.id, slice } };
        encode_packet(&p, 1400).ok()
    };
    if let Some(bb) = mk(r, first_n, 0, 1200) {
        out.push(bb);
    }
    for _ in 0..r.range(1, 3) {
        let num = *r.pick(&[first_n, first_n + 1, first_n + 4, 1000, 1_000_000]);
        let idx = *r.pick(&[0usize, first_n.saturating_sub(1), first_n, first_n + 1, num - 1]);
        let plen = *r.pick(&[1usize, 600, 1200, 1200, 1201, 1300]);
        if let Some(bb) = mk(r, num, idx.min(num - 1), plen) {
            out.push(bb);
        }
    }
    out
}

/// An unreliable sliced message that fills the channel's budget exactly, whose last slice is longer than a slice may
/// be (1201 bytes, or several slices' worth: process_packet takes packets of any length).
fn gen_fat_last_slice(r: &mut Rng, dst: &Side) -> Vec<Vec<u8>> {
    let c = match dst.recv.iter().find(|c| c.ty == 0 && c.max >= 2400 && c.max <= 16_000) {
        Some(c) => c.clone(),
        None => return vec![],
    };
    let num = c.max / 1200;
    let id = r.below(1000);
    let mut seq = r.below(1 << 16);
    let mut out = vec![];
    let last_len = *r.pick(&[1201usize, 1290, 2400, 5000]);
    let last_first = r.chance(1, 3);
    let order: Vec<usize> = if last_first { std::iter::once(num - 1).chain(0..num - 1).collect() } else { (0..num).collect() };
    for idx in order {
        seq += 1;
        let plen = if idx == num - 1 { last_len } else { 1200 };
        let slice = Slice { message_id: id, slice_index: idx, num_slices: num, payload: Bytes::from(r.bytes(plen)) };
        if let Ok(bb) = encode_packet(&Packet::UnreliableSlice { sequence: seq, channel_id: c.id, slice }, 8000) {
            out.push(bb);
        }
    }
    out
}

/// Small reliable messages that contradict each other: one message id sent twice with different payloads while the
/// first copy is still buffered (ids at and just above the delivery cursor of a fresh channel).
fn gen_conflicting_small(r: &mut Rng, dst: &Side) -> Vec<Vec<u8>> {
    let c = match dst.recv.iter().find(|c| c.ty != 0) {
        Some(c) => c.clone(),
        None => return vec![],
    };
    let id = *r.pick(&[0u64, 1, 2, 5]);
    let mut out = vec![];
    let mut seq = r.below(1 << 16);
    for len in [*r.pick(&[0usize, 1, 10]), *r.pick(&[11usize, 500, 1200]), *r.pick(&[0usize, 3, 700])] {
        seq += 1;
        let p = Packet::SmallReliable { sequence: seq, channel_id: c.id, messages: vec![(id, Bytes::from(r.bytes(len)))] };
        if let Ok(bb) = encode_packet(&p, 1400) {
            out.push(bb);
        }
    }
    out
}

fn gen_hostile_raw(r: &mut Rng, dst: &Side) -> Vec<u8> {
    if r.chance(1, 6) {
        return gen_raw_ack(r);
    }
    let chans: Vec<u8> = dst.recv.iter().map(|c| c.id).collect();
    for _ in 0..8 {
        let p = gen_packet(r, &chans, true);
        // hostile values that the encoder cannot write are produced by patching bytes instead
        if let Ok(bytes) = std::panic::catch_unwind(|| encode_packet(&p, 1400)) {
            if let Ok(bb) = bytes {
                return bb;
            }
        }
    }
    r.bytes(16)
}

/// S3/S4/S5: two connected endpoints, arbitrary API interleaving, arbitrary delivery schedule.
pub fn gen_pair(r: &mut Rng, g: &PairGen) -> Vec<Tree> {
    let mut ops = vec![];
    let a_send = gen_cfgs(r);
    let b_send = if r.chance(1, 2) { a_send.clone() } else { gen_cfgs(r) };
    let budget_a = gen_budget(r);
    let budget_b = gen_budget(r);
    let mut sides = [
        Side { ep: Ep::Conn(0), send: a_send.clone(), recv: b_send.clone(), nout: 0 },
        Side { ep: Ep::Conn(1), send: b_send.clone(), recv: a_send.clone(), nout: 0 },
    ];
    ops.push(op_newconn(0, budget_a, &a_send, &b_send));
    ops.push(op_newconn(1, budget_b, &b_send, &a_send));
    ops.push(op_pair(Ep::Conn(0), Ep::Conn(1)));
    let mut pl = Payloads::new();
    if r.chance(1, 8) {
        gen_warp(r, &mut ops);
        if r.chance(1, 2) {
            // many tiny messages in one tick: the per message overhead (id and length varints) dominates the packet
            if let Some(c) = sides[0].send.iter().find(|c| c.ty != 0).cloned() {
                let len = r.range(0, 8) as usize;
                for _ in 0..r.range(120, 260) {
                    let m = pl.make(r, len);
                    ops.push(op_send(sides[0].ep, c.id, &m));
                }
                ops.push(op_flush(sides[0].ep));
                sides[0].nout += 3;
                ops.push(op_status(sides[0].ep));
            }
        } else if let Some(c) = sides[0].send.iter().find(|c| c.ty == 0).cloned() {
            // the same on an unreliable channel, enough of them to fill a packet to the brim while the packet
            // sequence number takes 4 or 8 bytes
            let len = r.range(0, 6) as usize;
            for _ in 0..r.range(300, 1400) {
                let m = pl.make(r, len);
                ops.push(op_send(sides[0].ep, c.id, &m));
            }
            ops.push(op_flush(sides[0].ep));
            sides[0].nout += 2;
        }
    }
    else if r.chance(1, 10) {
        // more than 255 tiny messages in one tick on a reliable channel, without touching the counters: one packet
        // carries several hundred of them
        if let Some(c) = sides[0].send.iter().find(|c| c.ty != 0).cloned() {
            let len = r.range(0, 3) as usize;
            for _ in 0..r.range(257, 420) {
                let m = pl.make(r, len);
                ops.push(op_send(sides[0].ep, c.id, &m));
            }
            ops.push(op_flush(sides[0].ep));
            sides[0].nout += 2;
            ops.push(op_status(sides[0].ep));
        }
    }
    // a flush produces an unknown number of packets: track an estimate and let unresolved deliveries be skipped
    for _ in 0..g.steps {
        let s = r.below(2) as usize;
        let o = 1 - s;
        let w: [u32; 10] = [22, 10, 16, 26, 10, 6, 4, if g.hostile { 6 } else { 0 }, if g.hostile { 5 } else { 0 }, 1];
        match r.weighted(&w) {
            0 => {
                let c = r.pick(&sides[s].send).clone();
                let mut len = size_class(r);
                if len > c.max && r.chance(3, 4) {
                    len = c.max / 2;
                }
                let m = pl.make(r, len);
                ops.push(op_send(sides[s].ep, c.id, &m));
            }
            1 => ops.push(op_update(sides[s].ep, gen_dt(r))),
            2 => {
                ops.push(op_flush(sides[s].ep));
                sides[s].nout += 3;
            }
            3 => {
                // deliver one of the peer's packets: mostly recent, sometimes old (dup / reorder)
                if sides[o].nout > 0 {
                    let back = if r.chance(2, 3) { r.below(4) } else { r.below(40) };
                    ops.push(op_deliver(sides[o].ep, sides[s].ep, back as usize));
                }
            }
            4 => {
                let c = r.pick(&sides[s].recv).clone();
                ops.push(op_drain(sides[s].ep, c.id));
            }
            5 => {
                let c = r.pick(&sides[s].recv).clone();
                ops.push(op_recv(sides[s].ep, c.id));
            }
            6 => ops.push(op_status(sides[s].ep)),
            7 => {
                if r.chance(1, 6) {
                    for raw in gen_conflicting_slices(r, &sides[s]) {
                        ops.push(op_raw(sides[s].ep, &raw));
                    }
                } else if r.chance(1, 10) {
                    for raw in gen_fat_last_slice(r, &sides[s]) {
                        ops.push(op_raw(sides[s].ep, &raw));
                    }
                    ops.push(op_status(sides[s].ep));
                } else if r.chance(1, 8) {
                    for raw in gen_conflicting_small(r, &sides[s]) {
                        ops.push(op_raw(sides[s].ep, &raw));
                    }
                    for c in sides[s].recv.clone() {
                        ops.push(op_drain(sides[s].ep, c.id));
                    }
                    ops.push(op_status(sides[s].ep));
                } else if r.chance(1, 40) {
                    for raw in gen_ack_range_burst(r, &sides[s]) {
                        ops.push(op_raw(sides[s].ep, &raw));
                    }
                    ops.push(op_flush(sides[s].ep));
                    sides[s].nout += 2;
                    ops.push(op_status(sides[s].ep));
                } else {
                    let raw = gen_hostile_raw(r, &sides[s]);
                    ops.push(op_raw(sides[s].ep, &raw));
                }
            }
            8 => {
                if sides[o].nout > 0 {
                    let i = r.below(12) as usize;
                    let kind = r.below(4) as u8;
                    ops.push(op_mut(sides[o].ep, sides[s].ep, i, kind, r.below(400), r.below(256)));
                }
            }
            _ => {
                let code = *r.pick(&[10u8, 11, 12, 13]);
                ops.push(l(vec![n(code), ep_tree(sides[s].ep)]));
            }
        }
    }
    // healing: the network delivers again; the monitor then requires every submitted reliable message to arrive
    if r.chance(2, 3) {
        ops.push(l(vec![n(64u8), ep_tree(sides[0].ep), ep_tree(sides[1].ep), n(40u8)]));
        ops.push(op_status(sides[0].ep));
        ops.push(op_status(sides[1].ep));
    }
    ops
}

/// S6: a server with several clients (remote and local), every public call.
pub fn gen_server(r: &mut Rng, hostile: bool, steps: usize) -> Vec<Tree> {
    let mut ops = vec![];
    let server_cfg = gen_cfgs(r);
    let client_cfg = if r.chance(1, 2) { server_cfg.clone() } else { gen_cfgs(r) };
    let budget = gen_budget(r).max(1200);
    ops.push(l(vec![n(2u8), n(budget), cfg_tree(&server_cfg), cfg_tree(&client_cfg)]));
    let ids: Vec<u64> = vec![1, 2, 7, u64::MAX];
    // remote client k pairs with server connection ids[k]
    let mut nout_c = vec![0usize; 4];
    let mut nout_s = vec![0usize; 4];
    let mut pl = Payloads::new();
    let mut created = vec![false; 4];
    for _ in 0..steps {
        let k = r.below(3) as usize;
        let id = ids[k];
        let ce = Ep::Conn(k as u64);
        let se = Ep::Srv(id);
        let w: [u32; 16] = [8, 3, 3, 1, 8, 8, 10, 14, 6, 10, 3, 4, 2, 2, if hostile { 5 } else { 0 }, 2];
        match r.weighted(&w) {
            0 => {
                // connect a remote client
                if !created[k] || r.chance(1, 3) {
                    // a fresh session: new connection objects on both sides
                    ops.push(l(vec![n(21u8), n(id)]));
                    ops.push(l(vec![n(20u8), n(id)]));
                    ops.push(op_newconn(k as u64, budget, &client_cfg, &server_cfg));
                    ops.push(l(vec![n(10u8), ep_tree(ce)]));
                    ops.push(op_pair(ce, se));
                    created[k] = true;
                    nout_c[k] = 0;
                    nout_s[k] = 0;
                } else {
                    ops.push(l(vec![n(20u8), n(id)]));
                }
            }
            1 => ops.push(l(vec![n(21u8), n(id)])),
            2 => ops.push(l(vec![n(22u8), n(id)])),
            3 => ops.push(l(vec![n(23u8)])),
            4 => {
                let c = r.pick(&server_cfg).clone();
                let len = size_class(r).min(c.max);
                let m = pl.make(r, len);
                if r.chance(1, 2) {
                    ops.push(l(vec![n(24u8), n(c.id), b(&m)]));
                } else {
                    ops.push(l(vec![n(25u8), n(id), n(c.id), b(&m)]));
                }
            }
            5 => {
                let c = r.pick(&server_cfg).clone();
                let len = size_class(r).min(c.max);
                let m = pl.make(r, len);
                ops.push(l(vec![n(32u8), n(id), n(c.id), b(&m)]));
            }
            6 => {
                if created[k] {
                    let c = r.pick(&client_cfg).clone();
                    let len = size_class(r).min(c.max);
                let m = pl.make(r, len);
                    ops.push(op_send(ce, c.id, &m));
                }
            }
            7 => {
                // one direction of traffic: flush then deliver some
                if created[k] {
                    if r.chance(1, 2) {
                        ops.push(op_flush(ce));
                        nout_c[k] += 2;
                        for _ in 0..r.below(3) {
                            if nout_c[k] > 0 {
                                ops.push(op_deliver(ce, se, r.below(5) as usize));
                            }
                        }
                    } else {
                        ops.push(op_flush(se));
                        nout_s[k] += 2;
                        for _ in 0..r.below(3) {
                            if nout_s[k] > 0 {
                                ops.push(op_deliver(se, ce, r.below(5) as usize));
                            }
                        }
                    }
                }
            }
            8 => {
                let c = r.pick(&client_cfg).clone();
                if r.chance(1, 2) {
                    ops.push(l(vec![n(33u8), n(id), n(c.id)]));
                } else {
                    ops.push(op_drain(se, c.id));
                }
            }
            9 => {
                if created[k] {
                    // a full exchange in both directions, then both applications drain
                    ops.push(l(vec![n(62u8), ep_tree(ce), ep_tree(se)]));
                    ops.push(l(vec![n(62u8), ep_tree(se), ep_tree(ce)]));
                    for c in server_cfg.iter() {
                        ops.push(op_drain(ce, c.id));
                    }
                    for c in client_cfg.iter() {
                        ops.push(op_drain(se, c.id));
                    }
                }
            }
            10 => {
                let dt = gen_dt(r);
                ops.push(l(vec![n(6u8), n(dt)]));
                for j in 0..3 {
                    if created[j] {
                        ops.push(op_update(Ep::Conn(j as u64), dt));
                    }
                }
            }
            11 => {
                ops.push(l(vec![n(26u8)]));
                ops.push(l(vec![n(27u8)]));
            }
            12 => {
                // local client on slot 3
                ops.push(l(vec![n(28u8), n(ids[3]), n(3u8)]));
                ops.push(op_pair(Ep::Conn(3), Ep::Srv(ids[3])));
            }
            13 => {
                if r.chance(1, 3) {
                    ops.push(l(vec![n(29u8), n(ids[3]), n(3u8)]));
                } else {
                    // traffic of the local client: messages both ways, then the in-process exchange
                    let c = r.pick(&server_cfg).clone();
                    let len = size_class(r).min(c.max);
                    ops.push(l(vec![n(32u8), n(ids[3]), n(c.id), b(&pl.make(r, len))]));
                    let c2 = r.pick(&client_cfg).clone();
                    let len2 = size_class(r).min(c2.max);
                    // (a local client is built with new_from_server: it sends on the server's channels and receives on the client's)
                    ops.push(op_send(Ep::Conn(3), c.id, &pl.make(r, len2.min(c.max))));
                    ops.push(l(vec![n(39u8), n(*r.pick(&[ids[3], ids[3], ids[0]])), n(3u8)]));
                    ops.push(op_drain(Ep::Conn(3), c2.id));
                    ops.push(l(vec![n(33u8), n(ids[3]), n(c2.id)]));
                    ops.push(l(vec![n(42u8)]));
                }
            }
            14 => {
                let side = Side { ep: se, send: server_cfg.clone(), recv: client_cfg.clone(), nout: 0 };
                let raw = gen_hostile_raw(r, &side);
                if r.chance(1, 2) {
                    ops.push(op_raw(se, &raw));
                } else {
                    ops.push(l(vec![n(35u8), n(id), b(&raw)]));
                }
            }
            _ => {
                ops.push(l(vec![n(36u8), n(id)]));
                ops.push(op_status(se));
                let c = r.pick(&server_cfg).clone();
                ops.push(l(vec![n(37u8), n(id), n(c.id)]));
                ops.push(l(vec![n(38u8), n(id), n(c.id), n(r.below(5000))]));
            }
        }
    }
    for _ in 0..6 {
        ops.push(l(vec![n(26u8)]));
    }
    ops.push(l(vec![n(27u8)]));
    ops
}

/// Both fresh endpoints are moved to a later point of a long session: packet sequences and message ids sit at or
/// next to a varint width boundary (every header grows there), the two sides consistently.
fn gen_warp(r: &mut Rng, ops: &mut Vec<Tree>) {
    let near = |r: &mut Rng| -> u64 {
        let b = *r.pick(&[64u64, 16384, 1 << 30, 1 << 40, 1 << 61]);
        b - r.below(12).min(b) + r.below(4)
    };
    let (sa, sb, id) = (near(r), near(r), near(r));
    ops.push(l(vec![n(14u8), ep_tree(Ep::Conn(0)), n(sa), n(id)]));
    ops.push(l(vec![n(14u8), ep_tree(Ep::Conn(1)), n(sb), n(id)]));
}

/// r-pair, slice stress: sliced reliable messages, a resend interval that elapses between flushes, so
/// that every slice travels in several packets; the network delivers a subset with duplicates and the
/// acknowledgements come back late, doubled or not at all; then it heals and everything must arrive.
pub fn gen_slice_stress(r: &mut Rng) -> Vec<Tree> {
    let mut ops = vec![];
    let resend = *r.pick(&[50 * MS, 100 * MS]);
    let mut cfg = vec![ChanCfg { id: 0, max: 200_000, ty: *r.pick(&[1u8, 2]), resend_ns: resend }];
    if r.chance(1, 2) {
        cfg.push(ChanCfg { id: 1, max: 200_000, ty: *r.pick(&[1u8, 2]), resend_ns: *r.pick(&[0u64, 50 * MS]) });
    }
    if r.chance(1, 3) {
        cfg.push(ChanCfg { id: 2, max: 40_000, ty: 0, resend_ns: 0 });
    }
    let budget = *r.pick(&[6000u64, 60_000, 60_000]);
    let (a, bb) = (Ep::Conn(0), Ep::Conn(1));
    ops.push(op_newconn(0, budget, &cfg, &cfg));
    ops.push(op_newconn(1, budget, &cfg, &cfg));
    ops.push(op_pair(a, bb));
    if r.chance(1, 5) {
        gen_warp(r, &mut ops);
    }
    let mut pl = Payloads::new();
    let rounds = r.range(2, 5);
    for _ in 0..rounds {
        let (s, o) = if r.chance(3, 4) { (a, bb) } else { (bb, a) };
        let mut est = 0usize;
        for _ in 0..r.range(1, 3) {
            let c = r.pick(&cfg).clone();
            let len = if r.chance(4, 5) { *r.pick(&[1201usize, 2400, 2401, 3000, 3601, 4800, 6000]) } else { r.range(1, 900) as usize };
            est += len / 1200 + 1;
            ops.push(op_send(s, c.id, &pl.make(r, len)));
        }
        // every slice goes out two or three times
        let copies = r.range(2, 3) as usize;
        for _ in 0..copies {
            ops.push(op_flush(s));
            ops.push(op_update(s, resend + *r.pick(&[0u64, 1, MS])));
            ops.push(op_update(o, resend));
        }
        // a subset reaches the peer, some of it twice, in any order
        let window = est * copies + 2;
        for _ in 0..r.range(est as u64, (window + est) as u64) {
            let back = r.below(window as u64) as usize;
            ops.push(op_deliver(s, o, back));
            if r.chance(1, 5) {
                ops.push(op_deliver(s, o, back));
            }
        }
        // acknowledgements: sometimes all of them, sometimes the older ones only, sometimes doubled
        for _ in 0..r.range(0, 2) {
            ops.push(op_flush(o));
        }
        for _ in 0..r.range(0, 4) {
            ops.push(op_deliver(o, s, r.below(3) as usize));
        }
        if r.chance(1, 2) {
            ops.push(op_update(s, *r.pick(&[0u64, resend, 3 * resend])));
            ops.push(op_flush(s));
            for _ in 0..r.range(0, est as u64) {
                ops.push(op_deliver(s, o, r.below(est as u64 + 1) as usize));
            }
        }
        if r.chance(1, 2) {
            let c = r.pick(&cfg).clone();
            ops.push(op_drain(o, c.id));
        }
    }
    ops.push(l(vec![n(64u8), ep_tree(a), ep_tree(bb), n(40u8)]));
    ops.push(op_status(a));
    ops.push(op_status(bb));
    ops
}
