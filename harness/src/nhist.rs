//! Runs a renetcode history against the implementation: resolves high-level operations,
//! logs every datagram either side emits, and runs the property monitors.
use crate::nexec::*;
use crate::rhist::{RunResult, Violation};
use crate::tree::*;
use renetcode::verif::Packet;
use std::collections::{BTreeMap, HashMap, HashSet};
use std::net::SocketAddr;

#[derive(Clone)]
struct Dgram {
    bytes: Vec<u8>,
    dst: SocketAddr, // destination address
    delivered_unmodified: u32,
    payload_of: Option<Vec<u8>>, // the payload, if produced by generate_payload_packet
    surfaced: u32,
}

#[derive(Clone)]
struct TokenInfo {
    valid_for_server: bool,
    id: u64,
    user: Vec<u8>,
    c2s: [u8; 32],
    s2c: [u8; 32],
    protocol: u64,
    expire: u64,
    timeout: i32,
}

pub struct NHistory {
    pub world: NWorld,
    pub res: RunResult,
    step: usize,
    out_c: HashMap<u64, Vec<Dgram>>,     // datagrams emitted by client k
    out_s: Vec<Dgram>,                   // datagrams emitted by the server
    client_addr: HashMap<u64, SocketAddr>,
    client_token: HashMap<u64, u64>,     // client k -> token index
    tokens: HashMap<u64, TokenInfo>,
    valid_requests: Vec<(SocketAddr, u64)>, // (from address, token) of unmodified valid requests handed to the server
    connected: BTreeMap<u64, SocketAddr>,   // according to the ServerResult stream
    max_lowered: bool,
    server_key: Option<Vec<u8>>,
    server_protocol: u64,
    server_addrs: Vec<SocketAddr>,
    sealed_seen: HashMap<(u8, Vec<u8>, u64), Vec<u8>>, // (direction, key, sequence) -> datagram
    delivered_to_server: HashSet<(SocketAddr, Vec<u8>)>,
    token_seen_from: HashMap<u64, HashSet<SocketAddr>>, // token -> addresses its request was presented from
    token_sessions: HashMap<u64, u32>,  // token -> sessions established with it
    invalid_response: bool,             // the datagram being delivered is a crafted response that must be ignored
    token_bound: HashMap<u64, SocketAddr>, // token -> the address its MAC was first recorded for by the server
    bound_order: Vec<u64>,                 // tokens in the order the server recorded them
    last_heard: HashMap<u64, std::time::Duration>, // client id -> server time of the last event that certainly was an authentic arrival
    last_arrival_from: HashMap<SocketAddr, std::time::Duration>, // source address -> server time of the last datagram handed to the server from it
    sealed_by: HashMap<Vec<u8>, (u64, Option<Vec<u8>>)>, // codec suite: datagram -> (protocol id, key) it was sealed with
    challenge_nonces: HashMap<u64, Vec<u8>>,             // challenge token sequence -> sealed challenge token seen with it
    max_accepted: HashMap<(u8, u64), u64>, // (direction, client k) -> highest sequence accepted in the current session
    token_instances: HashMap<u64, u32>,  // token index -> number of client instances built from it
    shown_to_server: HashSet<Vec<u8>>,   // every datagram handed to the server so far, whatever it did with it
    crafted_seen: bool,                  // some datagram of this history was sealed by the harness with a token owner's keys
    owner_crafted: bool,                 // the datagram being delivered was sealed by the owner of the token (op 155)
    delivered_to_client: HashMap<u64, HashSet<Vec<u8>>>,
}

fn mutate(data: &mut Vec<u8>, kind: u64, a: usize, bb: u64) {
    match kind {
        0 => {}
        1 => {
            if !data.is_empty() {
                let bit = a % (data.len() * 8);
                data[bit / 8] ^= 1 << (bit % 8);
            }
        }
        2 => data.truncate(a.min(data.len())),
        3 => {
            if !data.is_empty() {
                let at = a % data.len();
                data[at] = bb as u8;
            }
        }
        5 => {
            // the packet type in the prefix byte is rewritten
            if !data.is_empty() {
                data[0] = (data[0] & 0xf0) | (bb % 7) as u8;
            }
        }
        6 => {
            // the announced number of sequence bytes is rewritten
            if !data.is_empty() {
                data[0] = (data[0] & 0x0f) | (((bb % 10) as u8) << 4);
            }
        }
        _ => data.extend(std::iter::repeat(bb as u8).take(1 + a % 32)),
    }
}

/// (type, sequence) of a sealed datagram, from its prefix
fn prefix_info(d: &[u8]) -> Option<(u8, u64)> {
    let p = *d.first()?;
    let ty = p & 15;
    let sl = (p >> 4) as usize;
    if sl > 8 || d.len() < 1 + sl {
        return None;
    }
    let mut s = [0u8; 8];
    s[..sl].copy_from_slice(&d[1..1 + sl]);
    Some((ty, u64::from_le_bytes(s)))
}

impl NHistory {
    pub fn new() -> Self {
        NHistory {
            world: NWorld::new(),
            res: RunResult::default(),
            step: 0,
            out_c: HashMap::new(),
            out_s: vec![],
            client_addr: HashMap::new(),
            client_token: HashMap::new(),
            tokens: HashMap::new(),
            valid_requests: vec![],
            connected: BTreeMap::new(),
            max_lowered: false,
            server_key: None,
            server_protocol: 0,
            server_addrs: vec![],
            sealed_seen: HashMap::new(),
            delivered_to_server: HashSet::new(),
            token_seen_from: HashMap::new(),
            token_sessions: HashMap::new(),
            invalid_response: false,
            token_bound: HashMap::new(),
            bound_order: vec![],
            last_heard: HashMap::new(),
            last_arrival_from: HashMap::new(),
            sealed_by: HashMap::new(),
            challenge_nonces: HashMap::new(),
            max_accepted: HashMap::new(),
            token_instances: HashMap::new(),
            shown_to_server: HashSet::new(),
            crafted_seen: false,
            owner_crafted: false,
            delivered_to_client: HashMap::new(),
        }
    }

    fn feat(&mut self, name: &'static str) {
        *self.res.features.entry(name).or_insert(0) += 1;
    }
    fn violate(&mut self, prop: &'static str, msg: String) {
        if !self.res.violations.iter().any(|v| v.prop == prop) {
            let msg: String = if msg.len() > 360 { format!("{}...", msg.chars().take(360).collect::<String>()) } else { msg };
            self.res.violations.push(Violation { prop, step: self.step, msg });
        }
    }
    fn comment(&mut self, text: &str) {
        self.res.lines.push(format!("# {}", text));
        self.res.impl_obs.push(format!("# {}", text));
    }

    fn emit(&mut self, op: &Tree) -> Tree {
        let (resolved, obs) = self.world.exec(op);
        self.res.lines.push(resolved.to_text());
        self.res.impl_obs.push(obs.to_text());
        if self.world.poisoned {
            self.res.panicked = true;
        }
        // bookkeeping on the resolved operation
        let mut key_flags = (false, false);
        if let Some(v) = resolved.as_l() {
            match resolved.opcode() {
                Some(100) => {
                    self.server_key = v.get(5).and_then(|t| t.as_l()).and_then(|o| o.get(1)).and_then(|t| t.as_b()).map(|x| x.to_vec());
                    self.server_protocol = v.get(3).and_then(|t| t.as_u64()).unwrap_or(0);
                    self.server_addrs = v.get(4).and_then(|t| t.as_l()).map(|a| a.iter().filter_map(parse_addr).collect()).unwrap_or_default();
                    self.connected.clear();
                }
                Some(code @ (101 | 128)) => {
                    // 128: the token an unsecure client built for itself (index at position 2, zero key, user data at position 7)
                    let tk = v.get(if code == 128 { 2 } else { 1 }).and_then(|t| t.as_u64());
                    if let (Some(k), Some(tok)) = (tk, tk.and_then(|k| self.world.tokens.get(&k))) {
                        let key = if code == 128 { Some(vec![0u8; 32]) } else { v.get(9).and_then(|t| t.as_b()).map(|x| x.to_vec()) };
                        let in_hosts = tok.server_addresses.iter().flatten().any(|a| self.server_addrs.contains(a));
                        let valid = key == self.server_key.clone().or(Some(vec![0u8; 32])) && tok.protocol_id == self.server_protocol && (in_hosts || self.server_key.is_none());
                        let user = v.get(if code == 128 { 7 } else { 8 }).and_then(|t| t.as_b()).map(|x| x.to_vec()).unwrap_or_default();
                        // C17/C04: the two directions of a session and different tokens never share a key
                        let same_dir = tok.client_to_server_key == tok.server_to_client_key;
                        let shared = self.tokens.iter().any(|(k2, t)| *k2 != k && (t.c2s == tok.client_to_server_key || t.s2c == tok.server_to_client_key || t.c2s == tok.server_to_client_key || t.s2c == tok.client_to_server_key));
                        key_flags = (same_dir, shared);
                        self.tokens.insert(k, TokenInfo { valid_for_server: valid, id: tok.client_id, user, c2s: tok.client_to_server_key, s2c: tok.server_to_client_key, protocol: tok.protocol_id, expire: tok.expire_timestamp, timeout: tok.timeout_seconds });
                    }
                }
                _ => {}
            }
        }
        if key_flags.0 {
            self.violate("C17", "a generated connect token carries the same key for both directions: every sequence number is used under it twice".to_string());
            self.violate("C04", "a generated connect token carries the same key for both directions: an endpoint's own datagrams open at that endpoint".to_string());
        }
        if key_flags.1 {
            self.violate("C17", "two generated connect tokens share a session key".to_string());
        }
        obs
    }

    fn log_client_out(&mut self, k: u64, bytes: Vec<u8>, dst: SocketAddr, payload: Option<Vec<u8>>) {
        self.check_nonce(0, k, &bytes);
        if bytes.len() > 1400 {
            self.violate("C13", format!("client {} produced a datagram of {} bytes", k, bytes.len()));
        }
        self.out_c.entry(k).or_default().push(Dgram { bytes, dst, delivered_unmodified: 0, payload_of: payload, surfaced: 0 });
        self.res.nontrivial = true;
    }
    fn log_server_out(&mut self, bytes: Vec<u8>, dst: SocketAddr, payload: Option<Vec<u8>>) {
        self.check_nonce(1, 0, &bytes);
        // C17: the challenge token inside a challenge packet is sealed under the challenge key with its sequence as nonce:
        // one sequence never carries two different tokens
        if bytes.first().map(|p| p & 15 == 2).unwrap_or(false) {
            let mut found: Option<(u64, Vec<u8>)> = None;
            for t in self.tokens.values() {
                let mut copy = bytes.clone();
                if let Ok((_, Packet::Challenge { token_sequence, token_data })) = Packet::decode(&mut copy, t.protocol, Some(&t.s2c), None) {
                    found = Some((token_sequence, token_data.to_vec()));
                    break;
                }
            }
            if let Some((ts, td)) = found {
                match self.challenge_nonces.get(&ts) {
                    Some(prev) if *prev != td => self.violate("C17", format!("two different challenge tokens were sealed with challenge sequence {} (one key, one nonce)", ts)),
                    Some(_) => {}
                    None => {
                        self.challenge_nonces.insert(ts, td);
                    }
                }
            }
        }
        if bytes.len() > 1400 {
            self.violate("C13", format!("the server produced a datagram of {} bytes", bytes.len()));
        }
        self.out_s.push(Dgram { bytes, dst, delivered_unmodified: 0, payload_of: payload, surfaced: 0 });
        self.res.nontrivial = true;
    }

    /// C17: no two different datagrams sealed under one key with one sequence number
    /// the properties are scoped to one session per connect token; a token that established a second session is out of scope
    fn token_reused_key(&self, key: &[u8]) -> bool {
        self.tokens.iter().any(|(t, ti)| (ti.c2s[..] == key[..] || ti.s2c[..] == key[..]) && self.token_sessions.get(t).copied().unwrap_or(0) > 1)
    }
    fn client_token_reused(&self, k: u64) -> bool {
        self.client_token.get(&k).map(|t| self.token_sessions.get(t).copied().unwrap_or(0) > 1).unwrap_or(false)
    }

    fn check_nonce(&mut self, dir: u8, k: u64, bytes: &[u8]) {
        let (ty, seq) = match prefix_info(bytes) {
            Some(x) => x,
            None => return,
        };
        if ty == 0 {
            return;
        }
        // which key sealed it: the emitting client's own token, or (server) whichever token's s2c key opens it
        let key: Option<Vec<u8>> = if dir == 0 {
            self.client_token.get(&k).and_then(|t| self.tokens.get(t)).map(|t| t.c2s.to_vec())
        } else {
            let mut found = None;
            for t in self.tokens.values() {
                let mut copy = bytes.to_vec();
                if Packet::decode(&mut copy, t.protocol, Some(&t.s2c), None).is_ok() {
                    found = Some(t.s2c.to_vec());
                    break;
                }
            }
            found
        };
        let key = match key {
            Some(k) => k,
            None => return,
        };
        if self.token_reused_key(&key) {
            return;
        }
        match self.sealed_seen.get(&(dir, key.clone(), seq)) {
            Some(prev) if prev != bytes => {
                self.violate("C17", format!("two different datagrams sealed under one key with sequence {} ({} side): {} and {}", seq, if dir == 0 { "client" } else { "server" }, b(prev).to_text(), b(bytes).to_text()));
            }
            Some(_) => {}
            None => {
                self.sealed_seen.insert((dir, key, seq), bytes.to_vec());
            }
        }
    }

    fn server_state(&self) -> Option<Tree> {
        self.world.server.as_ref().map(NWorld::server_state_tree)
    }

    /// hands a datagram to the server; `genuine_of` = (client, index) when it is an unmodified copy
    fn to_server(&mut self, from: SocketAddr, data: Vec<u8>, genuine_of: Option<(u64, usize)>, known_inauthentic: bool) {
        let s = match self.world.server.as_ref() {
            Some(s) => s,
            None => {
                self.comment("no server: datagram skipped");
                return;
            }
        };
        let connected_before = s.verif_clients().iter().any(|c| c.addr == from);
        let id_connected_before: Vec<u64> = s.verif_clients().iter().map(|c| c.client_id).collect();
        let full_before = id_connected_before.len() >= s.max_clients();
        let attempt_before: Option<u64> = s.verif_pending().iter().find(|c| c.addr == from).map(|c| c.first_challenge_sequence);
        // authentic for the session that lives at `from`: opens under that session's client-to-server key
        let session: Option<(u64, Vec<u8>)> = s.verif_clients().iter().chain(s.verif_pending().iter()).find(|c| c.addr == from).map(|c| (c.client_id, c.user_data.to_vec()));
        let session_key: Option<([u8; 32], u64)> = session.and_then(|(id, user)| self.tokens.values().find(|t| t.id == id && t.user == user).map(|t| (t.c2s, t.protocol)));
        let opens = match (&session_key, data.first().map(|p| p & 15)) {
            (Some((key, protocol)), Some(ty)) if ty != 0 => {
                let mut copy = data.clone();
                Packet::decode(&mut copy, *protocol, Some(key), None).is_ok()
            }
            _ => false,
        };
        let known_inauthentic = known_inauthentic || (!data.is_empty() && data[0] & 15 != 0 && !opens && !self.owner_crafted);
        let before = self.server_state();
        let now_secs = s.current_time().as_secs();
        self.last_arrival_from.insert(from, s.current_time());
        let replayed = self.delivered_to_server.contains(&(from, data.clone()));
        let is_request = data.first().map(|p| p & 15 == 0).unwrap_or(false);
        let first_showing = self.shown_to_server.insert(data.clone());
        let op = l(vec![n(110u8), addr_tree(&from), b(&data)]);
        let obs = self.emit(&op);
        if self.res.panicked {
            self.violate("C07", format!("NetcodeServer::process_packet panicked on a datagram of {} bytes from {}", data.len(), from));
            if full_before && prefix_info(&data).map(|x| x.0 == 3).unwrap_or(false) {
                self.violate("C10", format!("a connection response from {} that found every slot taken ({} connected) was not denied: the server panicked", from, id_connected_before.len()));
            }
            return;
        }
        let after = self.server_state();
        if before != after {
            // only a datagram that had an effect can later be a replay of an accepted one
            self.delivered_to_server.insert((from, data.clone()));
        }
        let r = obs.as_l().map(|v| v.to_vec()).unwrap_or_default();
        let kind = r.first().and_then(|t| t.as_u64()).unwrap_or(0);
        // C18: a repeated connection request refreshes the half-open session of its address, it does not start it over: the
        // response to a challenge that is already on its way must still be accepted
        let attempt_after: Option<u64> = self.world.server.as_ref().and_then(|s| s.verif_pending().iter().find(|c| c.addr == from).map(|c| c.first_challenge_sequence));
        if let (true, Some(f0), Some(f1)) = (is_request, attempt_before, attempt_after) {
            if f0 != f1 {
                self.violate("C18", format!("a repeated connection request from {} started the half-open session over (first challenge {} became {}): the response to the challenge already issued is ignored, a reordered handshake never completes", from, f0, f1));
            }
        }
        // a valid, unmodified request from this address
        if let Some((k, i)) = genuine_of {
            if let Some(d) = self.out_c.get_mut(&k).and_then(|v| v.get_mut(i)) {
                d.delivered_unmodified += 1;
            }
            if is_request {
                if let Some(t) = self.client_token.get(&k).and_then(|t| self.tokens.get(t).map(|ti| (*t, ti.clone()))) {
                    if t.1.valid_for_server && now_secs < t.1.expire {
                        self.valid_requests.push((from, t.0));
                        // the server records the token's MAC for this address unless it stopped earlier (id or address connected)
                        if !connected_before && !id_connected_before.contains(&t.1.id) {
                            if !self.token_bound.contains_key(&t.0) {
                                self.bound_order.push(t.0);
                            }
                            self.token_bound.entry(t.0).or_insert(from);
                        }
                    }
                }
            }
        }
        // C05/C19: a request whose token the server has recorded for another address gets no answer
        if let (true, Some((k, _))) = (is_request, genuine_of) {
            if let Some(t) = self.client_token.get(&k).copied() {
                if let Some(bound) = self.token_bound.get(&t).copied() {
                    let later = self.bound_order.iter().position(|x| *x == t).map(|p| self.bound_order.len() - 1 - p).unwrap_or(0);
                    if bound != from && kind != 0 && !connected_before {
                        let class = if later >= 2048 { " [class:token-entry-evicted]" } else { "" };
                        self.violate("C05", format!("a connection request from {} carrying a token the server had recorded for {} was answered with {}{}", from, bound, obs.to_text().chars().take(60).collect::<String>(), class));
                        if class.is_empty() {
                            self.violate("C19", format!("a connection request from {} carrying a token the server had recorded for {} was answered", from, bound));
                        }
                    }
                }
            }
        }
        // C19: no amplification towards addresses that have not completed a handshake
        if !connected_before {
            match kind {
                0 => {}
                1 | 3 => {
                    let addr_i = if kind == 1 { 1 } else { 2 };
                    let pay_i = if kind == 1 { 2 } else { 4 };
                    let to = r.get(addr_i).and_then(parse_addr);
                    let plen = r.get(pay_i).and_then(|t| t.as_b()).map(|x| x.len()).unwrap_or(0);
                    if to != Some(from) {
                        self.violate("C19", format!("reply to a datagram from {} goes to {:?}", from, to));
                    }
                    if plen >= data.len() {
                        self.violate("C19", format!("reply of {} bytes to a datagram of {} bytes from an unconnected address", plen, data.len()));
                    }
                    if genuine_of.is_none() && !is_request && !self.owner_crafted {
                        self.violate("C19", format!("the server answered a modified or fabricated datagram from {}", from));
                    }
                }
                _ => self.violate("C19", format!("unexpected result {} for a datagram from an unconnected address", obs.to_text())),
            }
        }
        // C16/C20: the server decodes what the client encoded - a disconnect packet of the client whose session lives at this
        // address, shown to the server for the first time (a pending entry records the sequence numbers it sees), ends that
        // session: it carries the newest sequence number of its sender, so replay protection cannot object
        if let (Some((k, _)), true, true, false, false) = (genuine_of, opens && connected_before && first_showing, prefix_info(&data).map(|x| x.0 == 6).unwrap_or(false), replayed, self.crafted_seen) {
            let sole = self.client_token.get(&k).map(|t| self.token_instances.get(t).copied() == Some(1)).unwrap_or(false);
            if sole && !self.client_token_reused(k) && kind != 4 {
                self.violate("C16", format!("the disconnect packet of client {} ({} bytes, as its encoder wrote it) was not decoded by the server: result {}", k, data.len(), obs.to_text().chars().take(40).collect::<String>()));
                self.violate("C20", format!("the disconnect packet of client {} ({} bytes) reached the server unchanged and the session stayed: the server learns of the disconnect only by timeout", k, data.len()));
            }
        }
        // a connection response that the server has acted on before never establishes a session again: the challenge it
        // echoes belongs to an attempt that is over (whatever happened to the token since)
        if replayed && !is_request && kind == 3 && prefix_info(&data).map(|(ty, _)| ty == 3).unwrap_or(false) {
            for prop in ["C04", "C07", "C17", "C19", "C20"] {
                self.violate(prop, format!("a replayed connection response from {} established a session again ({}): sequence numbers restart under the same keys and recorded payloads become acceptable once more", from, obs.to_text().chars().take(40).collect::<String>()));
            }
        }
        // C07: an inauthentic or replayed datagram changes nothing
        let reused = genuine_of.map(|(k, _)| self.client_token_reused(k)).unwrap_or(false);
        let must_be_noop = known_inauthentic || (replayed && !is_request && !reused);
        if must_be_noop {
            self.feat("inauthentic_to_server");
            if before != after {
                self.violate("C07", format!("a datagram that is not authentic for its session changed the server state: before {} after {}", before.as_ref().map(|t| t.to_text()).unwrap_or_default(), after.as_ref().map(|t| t.to_text()).unwrap_or_default()));
            }
            if kind != 0 {
                self.violate("C07", format!("a datagram that is not authentic for its session produced {}", obs.to_text()));
                if self.invalid_response {
                    self.violate("C19", format!("a connection response that does not echo the challenge of its own handshake was answered with {}", obs.to_text()));
                }
                if is_request && genuine_of.is_none() {
                    self.violate("C05", format!("a connection request with a modified public field or sealed part (not a token any key holder sealed) was answered with {}", obs.to_text()));
                    self.violate("C17", format!("a connection request with a modified public field or sealed part was answered with {}", obs.to_text()));
                    self.violate("C19", format!("a connection request that cannot validate (modified public field or sealed part) was answered with a datagram of {} bytes", r.get(2).and_then(|t| t.as_b()).map(|x| x.len()).unwrap_or(0)));
                }
            }
        }
        // C04, second half: a genuine payload is surfaced the first time it arrives on a connected session
        // provided its sequence is less than 256 behind the highest one accepted so far
        if let Some((k, i)) = genuine_of {
            let is_payload = self.out_c.get(&k).and_then(|v| v.get(i)).map(|d| d.payload_of.is_some()).unwrap_or(false);
            let tok = self.client_token.get(&k).and_then(|t| self.tokens.get(t)).cloned();
            if let (true, Some(tok), Some((_, seq))) = (is_payload, tok, prefix_info(&data)) {
                let session_is_ours = session_key.map(|(key, _)| key == tok.c2s).unwrap_or(false);
                if connected_before && session_is_ours && !replayed && !self.client_token_reused(k) && data == self.out_c[&k][i].bytes {
                    let first_time = self.out_c[&k][i].delivered_unmodified == 1;
                    let highest = self.max_accepted.get(&(0, k)).copied();
                    let in_window = highest.map(|h| seq + 256 > h).unwrap_or(true);
                    if first_time && in_window && kind != 2 {
                        self.violate("C04", format!("a genuine payload datagram of client {} (sequence {}, highest accepted {:?}) arrived for the first time on its connected session and was not surfaced", k, seq, highest));
                    }
                }
                if kind == 2 {
                    let e = self.max_accepted.entry((0, k)).or_insert(0);
                    if seq > *e {
                        *e = seq;
                    }
                }
            }
            // keep-alives and disconnects move the window too
            if kind != 2 && opens && !replayed {
                if let Some((ty, seq)) = prefix_info(&data) {
                    if ty >= 4 && after != before {
                        let e = self.max_accepted.entry((0, k)).or_insert(0);
                        if seq > *e {
                            *e = seq;
                        }
                    }
                }
            }
        }
        self.handle_server_result(&obs, genuine_of);
    }

    fn handle_server_result(&mut self, obs: &Tree, genuine_of: Option<(u64, usize)>) {
        let r = obs.as_l().map(|v| v.to_vec()).unwrap_or_default();
        let kind = r.first().and_then(|t| t.as_u64()).unwrap_or(0);
        match kind {
            1 => {
                if let (Some(a), Some(p)) = (r.get(1).and_then(parse_addr), r.get(2).and_then(|t| t.as_b())) {
                    self.log_server_out(p.to_vec(), a, None);
                    self.feat("server_reply");
                }
            }
            2 => {
                // payload surfaced: C04
                let id = r.get(1).and_then(|t| t.as_u64()).unwrap_or(0);
                let p = r.get(2).and_then(|t| t.as_b()).map(|x| x.to_vec()).unwrap_or_default();
                self.feat("payload_at_server");
                if let Some(now) = self.world.server.as_ref().map(|s| s.current_time()) {
                    self.last_heard.insert(id, now);
                }
                match genuine_of {
                    Some((k, i)) => {
                        let tok_id = self.client_token.get(&k).and_then(|t| self.tokens.get(t)).map(|t| t.id);
                        let (expected, surfaced) = match self.out_c.get_mut(&k).and_then(|v| v.get_mut(i)) {
                            Some(d) => {
                                d.surfaced += 1;
                                (d.payload_of.clone(), d.surfaced)
                            }
                            None => (None, 0),
                        };
                        if expected.as_ref() != Some(&p) {
                            self.violate("C04", format!("the server surfaced a payload that differs from the one client {} generated", k));
                        }
                        if surfaced > 1 && !self.client_token_reused(k) {
                            self.violate("C04", format!("a payload datagram of client {} surfaced {} times at the server", k, surfaced));
                        }
                        if tok_id != Some(id) {
                            self.violate("C04", format!("payload of client {} (token id {:?}) attributed to client id {}", k, tok_id, id));
                        }
                    }
                    None => self.violate("C04", "the server surfaced a payload from a modified or fabricated datagram".to_string()),
                }
            }
            3 => {
                let id = r.get(1).and_then(|t| t.as_u64()).unwrap_or(0);
                let a = r.get(2).and_then(parse_addr);
                let user = r.get(3).and_then(|t| t.as_b()).map(|x| x.to_vec()).unwrap_or_default();
                self.feat("client_connected");
                self.max_accepted.clear();
                if let Some(now) = self.world.server.as_ref().map(|s| s.current_time()) {
                    self.last_heard.insert(id, now);
                }
                if self.connected.contains_key(&id) {
                    self.violate("C10", format!("ClientConnected for id {} which is already connected", id));
                    self.violate("C05", format!("a second session was reported connected under client id {} while the first one is live: the address and user data the server answers for that id are those of the other token", id));
                }
                if let Some(a) = a {
                    if self.connected.values().any(|x| *x == a) {
                        self.violate("C10", format!("ClientConnected for address {} which is already connected", a));
                    }
                    self.connected.insert(id, a);
                    // C05: backed by a valid request from the same address with this id and user data
                    let ok = self.valid_requests.iter().any(|(from, t)| *from == a && self.tokens.get(t).map(|ti| ti.id == id && ti.user == user).unwrap_or(false));
                    let toks: Vec<u64> = self.valid_requests.iter().filter(|(from, t)| *from == a && self.tokens.get(t).map(|ti| ti.id == id && ti.user == user).unwrap_or(false)).map(|(_, t)| *t).collect();
                    for t in toks.iter().collect::<HashSet<_>>() {
                        *self.token_sessions.entry(*t).or_insert(0) += 1;
                    }
                    // a token already used from a different address never produces a connection
                    if !toks.is_empty() && toks.iter().all(|t| self.token_bound.get(t).map(|b| *b != a).unwrap_or(false)) {
                        // the known finding: the table of 2048 entries forgets a token once 2048 others were recorded after it
                        let later = toks.iter().filter_map(|t| self.bound_order.iter().position(|x| x == t)).map(|p| self.bound_order.len() - 1 - p).min().unwrap_or(0);
                        let class = if later >= 2048 { " [class:token-entry-evicted]" } else { "" };
                        self.violate("C05", format!("client id {} connected from {} with a connect token that the server had first accepted from {:?}{}", id, a, toks.iter().filter_map(|t| self.token_bound.get(t)).next(), class));
                    }
                    if !ok {
                        self.violate("C05", format!("client id {} reported connected from {} without a valid connect token request from that address carrying this id and user data", id, a));
                    }
                }
                // the keep-alive that announces the session: logged once the session count of its token is up to date
                if let (Some(a), Some(p)) = (a, r.get(4).and_then(|t| t.as_b())) {
                    self.log_server_out(p.to_vec(), a, None);
                }
            }
            4 => {
                let id = r.get(1).and_then(|t| t.as_u64()).unwrap_or(0);
                let a = r.get(2).and_then(parse_addr);
                if let (Some(a), Some(Some(p))) = (a, r.get(3).and_then(|t| t.as_l()).map(|o| o.get(1).and_then(|t| t.as_b()))) {
                    self.log_server_out(p.to_vec(), a, None);
                }
                self.feat("client_disconnected");
                match self.connected.remove(&id) {
                    None => self.violate("C10", format!("ClientDisconnected for id {} which was not connected", id)),
                    Some(was) => {
                        if Some(was) != a {
                            self.violate("C10", format!("ClientDisconnected for id {} names {:?}, it connected from {}", id, a, was));
                        }
                    }
                }
            }
            _ => {}
        }
    }

    fn to_client(&mut self, k: u64, data: Vec<u8>, genuine_index: Option<usize>, known_inauthentic: bool) {
        if !self.world.clients.contains_key(&k) {
            self.comment("no such client: datagram skipped");
            return;
        }
        let before = self.world.client_state_tree(k);
        let was_connected = self.world.clients.get(&k).map(|c| c.verif_state().0 == 3).unwrap_or(false);
        // authentic for this client: opens under the server-to-client key of the token it holds
        let opens = match self.client_token.get(&k).and_then(|t| self.tokens.get(t)) {
            Some(t) => {
                let mut copy = data.clone();
                Packet::decode(&mut copy, t.protocol, Some(&t.s2c), None).is_ok() && data.first().map(|p| p & 15 != 0).unwrap_or(false)
            }
            None => false,
        };
        let _ = known_inauthentic;
        let known_inauthentic = !opens;
        let replayed = self.delivered_to_client.get(&k).map(|s| s.contains(&data)).unwrap_or(false);
        let replay_protected = prefix_info(&data).map(|(ty, _)| ty >= 4).unwrap_or(false);
        let op = l(vec![n(104u8), n(k), b(&data)]);
        let obs = self.emit(&op);
        if self.res.panicked {
            self.violate("C07", format!("NetcodeClient::process_packet panicked on a datagram of {} bytes", data.len()));
            return;
        }
        let after = self.world.client_state_tree(k);
        if before != after {
            self.delivered_to_client.entry(k).or_default().insert(data.clone());
        }
        // a connected client leaves that state by a datagram only when it is the server's disconnect packet
        let now_state = self.world.clients.get(&k).map(|c| c.verif_state().0);
        if was_connected && now_state == Some(0) && prefix_info(&data).map(|(ty, _)| ty != 6).unwrap_or(true) {
            self.violate("C18", format!("a connected client {} was disconnected by a datagram of type {:?} that is not a disconnect packet", k, prefix_info(&data).map(|x| x.0)));
            self.violate("C07", format!("a datagram of type {:?} ended the session of connected client {}", prefix_info(&data).map(|x| x.0), k));
            self.violate("C20", format!("the session of connected client {} ended on the client side only, by a datagram of type {:?}: the server keeps it until its timeout", k, prefix_info(&data).map(|x| x.0)));
        }
        // a connected client does not act on handshake packets (challenge, denial): re-delivered ones leave it as it was,
        // in particular they do not refresh the timer that decides its timeout
        if was_connected && before != after && prefix_info(&data).map(|(ty, _)| ty == 1 || ty == 2).unwrap_or(false) {
            self.violate("C18", format!("a handshake packet of type {:?} changed the state of connected client {} (its receive timer): replayed handshake packets postpone the timeout. before {} after {}", prefix_info(&data).map(|x| x.0), k, before.to_text().chars().take(80).collect::<String>(), after.to_text().chars().take(80).collect::<String>()));
        }
        let surfaced = match obs.as_l() {
            Some([Tree::N(1), Tree::B(p)]) => Some(p.clone()),
            _ => None,
        };
        if known_inauthentic || (replayed && replay_protected) {
            self.feat("inauthentic_to_client");
            if before != after {
                self.violate("C07", format!("a datagram that is not authentic for its session changed the client state: before {} after {}", before.to_text(), after.to_text()));
            }
            if surfaced.is_some() {
                self.violate("C04", "a client surfaced a payload from a datagram that is not authentic or was replayed".to_string());
            }
        }
        if surfaced.is_some() && !was_connected {
            self.violate("C04", format!("client {} surfaced a payload although it was not connected when the datagram arrived", k));
        }
        if let Some(p) = surfaced {
            self.feat("payload_at_client");
            match genuine_index {
                Some(i) => {
                    let (expected, count) = {
                        let d = &mut self.out_s[i];
                        d.surfaced += 1;
                        (d.payload_of.clone(), d.surfaced)
                    };
                    if expected.as_ref() != Some(&p) {
                        self.violate("C04", format!("client {} surfaced a payload that differs from the one the server generated", k));
                    }
                    if count > 1 {
                        self.violate("C04", format!("a payload datagram of the server surfaced {} times at client {}", count, k));
                    }
                }
                None => self.violate("C04", format!("client {} surfaced a payload from a modified or fabricated datagram", k)),
            }
        }
    }

    fn after_server_step(&mut self) {
        let s = match self.world.server.as_ref() {
            Some(s) => s,
            None => return,
        };
        let clients = s.verif_clients();
        let ids: Vec<u64> = clients.iter().map(|c| c.client_id).collect();
        let addrs: Vec<SocketAddr> = clients.iter().map(|c| c.addr).collect();
        let max = s.max_clients();
        let pending_addrs: Vec<SocketAddr> = s.verif_pending().iter().map(|c| c.addr).collect();
        let idset: HashSet<u64> = ids.iter().copied().collect();
        if idset.len() != ids.len() {
            self.violate("C10", format!("connected client ids are not distinct: {:?}", ids));
        }
        let aset: HashSet<SocketAddr> = addrs.iter().copied().collect();
        if aset.len() != addrs.len() {
            self.violate("C10", format!("connected client addresses are not distinct: {:?}", addrs));
        }
        if !self.max_lowered && ids.len() > max {
            self.violate("C10", format!("{} clients connected, max_clients is {}", ids.len(), max));
        }
        if pending_addrs.iter().any(|a| aset.contains(a)) {
            self.violate("C10", "an address is both pending and connected".to_string());
        }
        let from_results: HashSet<u64> = self.connected.keys().copied().collect();
        if from_results != idset {
            self.violate("C10", format!("clients_id() = {:?} but the ClientConnected/ClientDisconnected results say {:?}", ids, from_results));
        }
    }

    pub fn run_op(&mut self, op: &Tree) -> bool {
        self.step += 1;
        let v = match op.as_l() {
            Some(v) if !v.is_empty() => v.to_vec(),
            _ => {
                self.comment("malformed operation skipped");
                return true;
            }
        };
        let u = |i: usize| v.get(i).and_then(|t| t.as_u64());
        let code = op.opcode().unwrap_or(0);
        match code {
            160 => {
                if let (Some(k), Some(a)) = (u(1), v.get(2).and_then(parse_addr)) {
                    self.client_addr.insert(k, a);
                }
                self.comment(&format!("client address {}", op.to_text()));
            }
            102 | 128 => {
                let obs = self.emit(op);
                // only a client that was really built replaces the old one
                let built = obs.as_l().and_then(|o| o.first()).and_then(|t| t.as_u64()) == Some(0);
                if let (true, Some(k), Some(tk)) = (built, u(1), if code == 128 { u(2) } else { u(3) }) {
                    self.client_token.insert(k, tk);
                    *self.token_instances.entry(tk).or_insert(0) += 1;
                    self.out_c.remove(&k);
                    self.delivered_to_client.remove(&k);
                }
                if self.res.panicked {
                    self.violate("C07", "NetcodeClient::new panicked".to_string());
                }
            }
            124 => {
                let obs = self.emit(op);
                if let (Some([Tree::N(0), Tree::B(bytes)]), Some(protocol)) = (obs.as_l(), u(2)) {
                    let key = v.get(4).and_then(|t| t.as_l()).and_then(|o| o.get(1)).and_then(|t| t.as_b()).map(|x| x.to_vec());
                    let bytes = bytes.clone();
                    self.sealed_by.insert(bytes.clone(), (protocol, key.clone()));
                    // C16: what Packet::encode wrote decodes, under the same key and protocol id, to the same packet and
                    // sequence number (a connection request carries no sequence number; 18 bytes is the shortest datagram
                    // decode looks at)
                    if let (Some(key), Some(pt), Some(seq), true) = (key, v.get(1).cloned(), u(3), bytes.len() >= 18) {
                        let back = self.emit(&l(vec![n(120u8), b(&bytes), n(protocol), l(vec![n(1u8), b(&key)])]));
                        let kind = pt.as_l().and_then(|o| o.first()).and_then(|t| t.as_u64()).unwrap_or(9);
                        let want = l(vec![n(0u8), l(vec![n(if kind == 0 { 0 } else { seq }), pt])]);
                        if back != want && !self.res.panicked {
                            self.violate("C16", format!("a packet of kind {} encoded with sequence number {} does not decode to itself: {}", kind, seq, back.to_text().chars().take(100).collect::<String>()));
                        }
                    }
                }
            }
            120 => {
                // C17: a sealed datagram opens only under the key and the protocol id it was sealed with
                let obs = self.emit(op);
                if let (Some(bytes), Some(protocol)) = (v.get(1).and_then(|t| t.as_b()), u(2)) {
                    let key = v.get(3).and_then(|t| t.as_l()).and_then(|o| o.get(1)).and_then(|t| t.as_b()).map(|x| x.to_vec());
                    let sealed = bytes.first().map(|p| p & 15 != 0).unwrap_or(false);
                    if let (true, Some((p0, k0))) = (sealed, self.sealed_by.get(bytes).cloned()) {
                        let opened = obs.as_l().and_then(|o| o.first()).and_then(|t| t.as_u64()) == Some(0);
                        if opened && (p0 != protocol || k0 != key) {
                            self.violate("C17", format!("a datagram sealed for protocol id {} opened under protocol id {}{}", p0, protocol, if k0 != key { " and another key" } else { "" }));
                        }
                    }
                }
                if self.res.panicked {
                    self.violate("C07", "Packet::decode panicked".to_string());
                }
            }
            101 => {
                // a token that generate + write produced reads back (C16: write then read is the identity on valid tokens)
                let obs = self.emit(op);
                if let Some([Tree::N(0), Tree::B(bytes)]) = obs.as_l() {
                    let bytes = bytes.clone();
                    let read = self.emit(&l(vec![n(117u8), b(&bytes)]));
                    if read.as_l().and_then(|o| o.first()).and_then(|t| t.as_u64()) != Some(0) && !self.res.panicked {
                        self.violate("C16", format!("a connect token written by ConnectToken::write does not read back: {}", read.to_text().chars().take(80).collect::<String>()));
                    }
                    // ... and to the values it was generated from: client id, protocol id, timeout and the server addresses in order
                    let field = |i: usize| read.as_l().and_then(|o| o.get(1)).and_then(|t| t.as_l()).and_then(|p| p.first()).and_then(|t| t.as_l()).and_then(|f| f.get(i)).cloned();
                    if let (Some(slots), Some(addrs)) = (field(6), v.get(7).and_then(|t| t.as_l())) {
                        let mut want: Vec<Tree> = addrs.iter().map(|a| topt(Some(a.clone()))).collect();
                        while want.len() < 32 {
                            want.push(topt(None));
                        }
                        if slots != l(want) || field(0) != v.get(5).cloned() || field(2) != v.get(3).cloned() || field(10) != v.get(6).cloned() {
                            self.violate("C16", format!("a connect token reads back with other values than it was generated from: addresses {}", slots.to_text().chars().take(160).collect::<String>()));
                        }
                    }
                }
                if self.res.panicked {
                    self.violate("C07", "generating, writing or reading back a connect token panicked".to_string());
                }
            }
            117 | 118 => {
                let obs = self.emit(op);
                // C16: a token that reads successfully re-serialises to bytes that read to the same value
                if let Some([Tree::N(0), Tree::L(pair)]) = obs.as_l() {
                    if code == 117 && pair.len() == 2 {
                        self.feat("token_read_ok");
                        if pair[1] != l(vec![n(0u8), pair[0].clone()]) {
                            self.violate("C16", "a connect token that was read successfully does not survive write followed by read".to_string());
                        }
                    }
                }
                if self.res.panicked {
                    self.violate("C07", "parsing bytes as a connect token (or building a client from it) panicked".to_string());
                }
            }
            103 => {
                let k = u(1).unwrap_or(0);
                let dt = std::time::Duration::from_nanos(u(2).unwrap_or(0));
                // C18 at the client: a connected client times out exactly when nothing arrived for longer than the token's timeout
                let view = self.world.clients.get(&k).map(|c| (c.verif_state(), c.current_time()));
                let timeout = self.client_token.get(&k).and_then(|t| self.tokens.get(t)).map(|t| t.timeout);
                let obs = self.emit(op);
                if self.res.panicked {
                    self.violate("C07", "NetcodeClient::update panicked".to_string());
                    return false;
                }
                // failover: a client that moves on to the next listed address starts the handshake there from the request
                if let (Some(((_, _, _, _, idx0, _), _)), Some((st1, _, _, _, idx1, _))) = (view, self.world.clients.get(&k).map(|c| c.verif_state())) {
                    if idx1 > idx0 && st1 != 1 && st1 != 0 {
                        self.violate("C18", format!("client {} moved from server address {} to {} and is in step {} instead of sending a connection request: the next server never issued the challenge it would answer", k, idx0, idx1, st1));
                    }
                    if idx1 > idx0 {
                        self.feat("client_failover");
                    }
                }
                if let (Some(((3, _, last_recv, _, _, _), now)), Some(timeout)) = (view, timeout) {
                    let after = self.world.clients.get(&k).map(|c| c.verif_state().0);
                    let silent = (now + dt).saturating_sub(last_recv);
                    let due = timeout > 0 && silent > std::time::Duration::from_secs(timeout as u64);
                    if due && after == Some(3) {
                        self.violate("C18", format!("connected client {} silent for {:?} (timeout {} s) was not timed out by update", k, silent, timeout));
                    }
                    if !due && after == Some(0) {
                        self.violate("C18", format!("connected client {} was disconnected by update after {:?} of silence, timeout is {} s", k, silent, timeout));
                    }
                    if due {
                        self.feat("client_timed_out");
                    }
                }
                if let Some([Tree::N(1), Tree::L(pa)]) = obs.as_l() {
                    if let (Some(p), Some(a)) = (pa.first().and_then(|t| t.as_b()), pa.get(1).and_then(parse_addr)) {
                        self.log_client_out(k, p.to_vec(), a, None);
                    }
                }
            }
            105 | 106 => {
                let k = u(1).unwrap_or(0);
                let payload = v.get(2).and_then(|t| t.as_b()).map(|x| x.to_vec());
                let was_connected = self.world.clients.get(&k).map(|c| c.verif_state().0 == 3).unwrap_or(false);
                let obs = self.emit(op);
                if let (105, true, Some(p), Some(Tree::N(1))) = (code, was_connected && !self.res.panicked, payload.as_ref(), obs.as_l().and_then(|o| o.first())) {
                    if p.len() <= 1300 {
                        self.violate("C13", format!("connected client {} refused a payload of {} bytes: {}", k, p.len(), obs.to_text().chars().take(40).collect::<String>()));
                    }
                }
                if let Some([Tree::N(0), Tree::L(ap)]) = obs.as_l() {
                    if let (Some(a), Some(p)) = (ap.first().and_then(parse_addr), ap.get(1).and_then(|t| t.as_b())) {
                        self.log_client_out(k, p.to_vec(), a, if code == 105 { payload } else { None });
                    }
                }
            }
            114 => {
                let payload = v.get(2).and_then(|t| t.as_b()).map(|x| x.to_vec());
                let id = u(1).unwrap_or(0);
                let held = self.world.server.as_ref().map(|s| s.verif_clients().iter().any(|c| c.client_id == id)).unwrap_or(false);
                let obs = self.emit(op);
                // C13: whatever the message layer may hand down (up to 1300 bytes) is accepted for a connected client
                if let (true, Some(p), Some(Tree::N(1))) = (held && !self.res.panicked, payload.as_ref(), obs.as_l().and_then(|o| o.first())) {
                    if p.len() <= 1300 {
                        self.violate("C13", format!("the server refused a payload of {} bytes for connected client {}: {}", p.len(), id, obs.to_text().chars().take(40).collect::<String>()));
                    }
                }
                if let Some([Tree::N(0), Tree::L(ap)]) = obs.as_l() {
                    if let (Some(a), Some(p)) = (ap.first().and_then(parse_addr), ap.get(1).and_then(|t| t.as_b())) {
                        // C10/C04: a payload for client id goes to the address that id is connected from, and to nobody when it is not connected
                        match self.connected.get(&id).copied() {
                            Some(at) if at == a => {}
                            Some(at) => {
                                self.violate("C10", format!("a payload for client id {} was addressed to {}, that client is connected from {}", id, a, at));
                                self.violate("C04", format!("a payload for client id {} was addressed to {}, that client is connected from {}", id, a, at));
                            }
                            None => {
                                self.violate("C10", format!("a payload for client id {} was sealed and addressed to {} although no such client is connected", id, a));
                                self.violate("C04", format!("a payload for client id {} was sealed and addressed to {} although no such client is connected", id, a));
                            }
                        }
                        self.log_server_out(p.to_vec(), a, payload);
                    }
                }
            }
            112 | 113 => {
                // update_client / disconnect: timeouts are checked against the hook view
                let id = u(1).unwrap_or(0);
                let view = self.world.server.as_ref().and_then(|s| s.verif_clients().into_iter().find(|c| c.client_id == id).map(|c| (c, s.current_time())));
                let obs = self.emit(op);
                if self.res.panicked {
                    self.violate("C07", "a NetcodeServer call panicked".to_string());
                    return false;
                }
                if code == 112 {
                    if let Some((c, now)) = view {
                        let silent = now.saturating_sub(c.last_packet_received_time);
                        let limit = std::time::Duration::from_secs(c.timeout_seconds.max(0) as u64);
                        let disconnected = obs.as_l().and_then(|r| r.first()).and_then(|t| t.as_u64()) == Some(4);
                        if c.timeout_seconds > 0 && silent > limit && !disconnected {
                            self.violate("C18", format!("client {} silent for {:?} (timeout {:?}) was not disconnected by update_client", id, silent, limit));
                        }
                        if disconnected && !(c.timeout_seconds > 0 && silent > limit) {
                            self.violate("C18", format!("client {} disconnected by update_client after {:?} of silence, timeout is {:?}", id, silent, limit));
                        }
                        // nothing at all was handed to the server from the client's address for longer than the timeout: whatever
                        // the server's own bookkeeping says, the client is silent and must go
                        let last_any = self.last_arrival_from.get(&c.addr).copied().into_iter().chain(self.last_heard.get(&id).copied()).max();
                        if let (false, true, Some(last_any)) = (disconnected, c.timeout_seconds > 0, last_any) {
                            if now.saturating_sub(last_any) > limit {
                                self.violate("C18", format!("client {} was kept by update_client although no datagram from its address reached the server for {:?}, timeout is {:?}", id, now.saturating_sub(last_any), limit));
                                self.violate("C20", format!("the session of client {} outlives its timeout at the server ({:?} without any datagram from its address, timeout {:?}): a vanished client is never reported disconnected", id, now.saturating_sub(last_any), limit));
                            }
                        }
                        // the same against the monitor's own clock: the handshake's completion and every surfaced payload are arrivals
                        if let (true, Some(heard)) = (disconnected, self.last_heard.get(&id).copied()) {
                            let own_silent = now.saturating_sub(heard);
                            if own_silent <= limit {
                                self.violate("C18", format!("client {} timed out by update_client {:?} after an authentic packet of it was accepted, timeout is {:?}", id, own_silent, limit));
                            }
                        }
                        if disconnected {
                            self.feat("server_timed_out_client");
                        }
                    }
                }
                self.handle_server_result(&obs, None);
            }
            115 => {
                let m = u(1).unwrap_or(0) as usize;
                if let Some(s) = self.world.server.as_ref() {
                    if m < s.max_clients() {
                        self.max_lowered = true;
                    }
                }
                self.emit(op);
            }
            110 => {
                // raw bytes to the server
                if let (Some(a), Some(data)) = (v.get(1).and_then(parse_addr), v.get(2).and_then(|t| t.as_b())) {
                    let genuine = self.out_c.values().any(|l| l.iter().any(|d| d.bytes == data));
                    self.feat("raw_to_server");
                    // a fabricated connection-request typed datagram carries no token that validates
                    let fabricated_request = !genuine && data.first().map(|p| p & 15 == 0).unwrap_or(true);
                    self.to_server(a, data.to_vec(), None, fabricated_request);
                }
            }
            104 => {
                if let (Some(k), Some(data)) = (u(1), v.get(2).and_then(|t| t.as_b())) {
                    let genuine = self.out_s.iter().any(|d| d.bytes == data);
                    self.feat("raw_to_client");
                    let _ = genuine;
                    self.to_client(k, data.to_vec(), None, false);
                }
            }
            150 | 151 => {
                // (150 k back kind a b) / (151 k back from kind a b): a datagram of client k to the server
                let (k, back) = (u(1).unwrap_or(0), u(2).unwrap_or(0) as usize);
                let (from, base) = if code == 150 { (self.client_addr.get(&k).copied(), 3) } else { (v.get(3).and_then(parse_addr), 4) };
                let (kind, a, bb) = (u(base).unwrap_or(0), u(base + 1).unwrap_or(0) as usize, u(base + 2).unwrap_or(0));
                let len = self.out_c.get(&k).map(|l| l.len()).unwrap_or(0);
                let from = match from {
                    Some(f) if back < len => f,
                    _ => {
                        self.comment("datagram or address does not exist: skipped");
                        return true;
                    }
                };
                let i = len - 1 - back;
                let orig = self.out_c[&k][i].bytes.clone();
                let mut data = orig.clone();
                mutate(&mut data, kind, a, bb);
                let own_addr = self.client_addr.get(&k) == Some(&from);
                let unmodified = data == orig;
                let is_request = orig.first().map(|p| p & 15 == 0).unwrap_or(false);
                // a sealed datagram that was altered, or that comes from another address, is not authentic for the session it addresses
                let inauthentic = false; // decided inside to_server from the session keys
                if is_request {
                    if let Some(t) = self.client_token.get(&k) {
                        self.token_seen_from.entry(*t).or_default().insert(from);
                    }
                }
                if unmodified && own_addr {
                    self.feat("genuine_to_server");
                } else {
                    self.feat("tampered_or_readdressed_to_server");
                }
                // a request stays the same request when only the unused high nibble of its prefix or trailing bytes differ
                let same_request = is_request && data.len() >= 1078 && orig.len() >= 1078 && data[0] & 15 == 0 && data[1..1078] == orig[1..1078];
                // any other change to a request (version, protocol id, expiry, nonce, sealed part, length) makes it one that cannot validate
                let inauthentic = inauthentic || (is_request && !unmodified && !same_request && data.first().map(|p| p & 15 == 0).unwrap_or(true));
                if inauthentic {
                    self.feat("tampered_request_to_server");
                }
                self.to_server(from, data, if unmodified || same_request { Some((k, i)) } else { None }, inauthentic);
            }
            152 | 153 => {
                // (152 k back kind a b): a datagram the server addressed to client k, to client k
                // (153 k2 back k kind a b): ... to another client k2
                let (target, src_k, base) = if code == 152 { (u(1).unwrap_or(0), u(1).unwrap_or(0), 3) } else { (u(1).unwrap_or(0), u(3).unwrap_or(0), 4) };
                let back = u(2).unwrap_or(0) as usize;
                let (kind, a, bb) = (u(base).unwrap_or(0), u(base + 1).unwrap_or(0) as usize, u(base + 2).unwrap_or(0));
                let addr = match self.client_addr.get(&src_k) {
                    Some(a) => *a,
                    None => {
                        self.comment("unknown client address: skipped");
                        return true;
                    }
                };
                let idxs: Vec<usize> = self.out_s.iter().enumerate().filter(|(_, d)| d.dst == addr).map(|(i, _)| i).collect();
                if back >= idxs.len() {
                    self.comment("datagram does not exist: skipped");
                    return true;
                }
                let i = idxs[idxs.len() - 1 - back];
                let orig = self.out_s[i].bytes.clone();
                let mut data = orig.clone();
                mutate(&mut data, kind, a, bb);
                let unmodified = data == orig;
                // was it sealed for the token this client holds?
                let same_session = self.client_token.get(&target) == self.client_token.get(&src_k) || target == src_k;
                let inauthentic = false; // decided inside to_client from the token's key
                if unmodified && same_session {
                    self.feat("genuine_to_client");
                    self.out_s[i].delivered_unmodified += 1;
                } else {
                    self.feat("tampered_or_crossed_to_client");
                }
                self.to_client(target, data, if unmodified { Some(i) } else { None }, inauthentic);
            }
            159 => {
                // (159 k i): client k's i-th datagram (counted from its first one) is delivered to the server again, unmodified
                let (k, i) = (u(1).unwrap_or(0), u(2).unwrap_or(0) as usize);
                let from = self.client_addr.get(&k).copied();
                let len = self.out_c.get(&k).map(|l| l.len()).unwrap_or(0);
                match from {
                    Some(from) if i < len => {
                        let data = self.out_c[&k][i].bytes.clone();
                        self.feat("recorded_datagram_replayed");
                        self.to_server(from, data, Some((k, i)), false);
                    }
                    _ => self.comment("datagram does not exist: skipped"),
                }
            }
            156 => {
                // (156 k back): a datagram client k emitted comes back to client k itself
                let (k, back) = (u(1).unwrap_or(0), u(2).unwrap_or(0) as usize);
                let len = self.out_c.get(&k).map(|l| l.len()).unwrap_or(0);
                if back >= len {
                    self.comment("datagram does not exist: skipped");
                    return true;
                }
                let data = self.out_c[&k][len - 1 - back].bytes.clone();
                self.feat("reflected_to_client");
                self.to_client(k, data, None, true);
            }
            157 => {
                // (157 k back): a datagram the server addressed to client k comes back to the server from k's address
                let (k, back) = (u(1).unwrap_or(0), u(2).unwrap_or(0) as usize);
                let addr = match self.client_addr.get(&k) {
                    Some(a) => *a,
                    None => {
                        self.comment("unknown client address: skipped");
                        return true;
                    }
                };
                let idxs: Vec<usize> = self.out_s.iter().enumerate().filter(|(_, d)| d.dst == addr).map(|(i, _)| i).collect();
                if back >= idxs.len() {
                    self.comment("datagram does not exist: skipped");
                    return true;
                }
                let data = self.out_s[idxs[idxs.len() - 1 - back]].bytes.clone();
                self.feat("reflected_to_server");
                self.to_server(addr, data, None, false);
            }
            155 => {
                // (155 k kc seq): the owner of client k's token answers with the challenge the server issued to client kc
                let (k, kc, seq) = (u(1).unwrap_or(0), u(2).unwrap_or(0), u(3).unwrap_or(77));
                let (from, from_c) = match (self.client_addr.get(&k), self.client_addr.get(&kc)) {
                    (Some(a), Some(c)) => (*a, *c),
                    _ => {
                        self.comment("unknown client address: skipped");
                        return true;
                    }
                };
                let (tk, tc) = match (self.client_token.get(&k).and_then(|t| self.tokens.get(t)).cloned(), self.client_token.get(&kc).and_then(|t| self.tokens.get(t)).cloned()) {
                    (Some(a), Some(c)) => (a, c),
                    _ => {
                        self.comment("unknown token: skipped");
                        return true;
                    }
                };
                // newest challenge addressed to kc
                let mut chal: Option<(u64, [u8; 300])> = None;
                for d in self.out_s.iter().rev() {
                    if d.dst != from_c {
                        continue;
                    }
                    let mut copy = d.bytes.clone();
                    if let Ok((_, Packet::Challenge { token_sequence, token_data })) = Packet::decode(&mut copy, tc.protocol, Some(&tc.s2c), None) {
                        chal = Some((token_sequence, token_data));
                        break;
                    }
                }
                let (ts, td) = match chal {
                    Some(x) => x,
                    None => {
                        self.comment("no challenge to reuse: skipped");
                        return true;
                    }
                };
                let mut buf = vec![0u8; 1400];
                let pkt = Packet::Response { token_sequence: ts, token_data: td };
                let len = match pkt.encode(&mut buf, tk.protocol, Some((seq, &tk.c2s))) {
                    Ok(l) => l,
                    Err(_) => return true,
                };
                buf.truncate(len);
                self.feat("crossed_challenge_response");
                // the response must be ignored unless the pending entry at `from` is for the very client id and
                // user data the challenge was issued for
                let matches_pending = self.world.server.as_ref().map(|s| s.verif_pending().iter().any(|p| p.addr == from && p.client_id == tc.id && p.user_data.to_vec() == tc.user)).unwrap_or(false);
                self.owner_crafted = true;
                self.crafted_seen = true;
                self.invalid_response = !matches_pending;
                self.to_server(from, buf, None, !matches_pending);
                self.invalid_response = false;
                self.owner_crafted = false;
            }
            158 => {
                // (158 k seq garbage): the owner of client k's token sends a response whose challenge token is garbage
                let (k, seq) = (u(1).unwrap_or(0), u(2).unwrap_or(0));
                let garbage = v.get(3).and_then(|t| t.as_b()).map(|x| x.to_vec()).unwrap_or_default();
                let (from, tk) = match (self.client_addr.get(&k), self.client_token.get(&k).and_then(|t| self.tokens.get(t)).cloned()) {
                    (Some(a), Some(t)) => (*a, t),
                    _ => {
                        self.comment("unknown client: skipped");
                        return true;
                    }
                };
                let mut td = [0u8; 300];
                for (i, x) in garbage.iter().take(300).enumerate() {
                    td[i] = *x;
                }
                let mut buf = vec![0u8; 1400];
                let pkt = Packet::Response { token_sequence: seq, token_data: td };
                let len = match pkt.encode(&mut buf, tk.protocol, Some((seq, &tk.c2s))) {
                    Ok(l) => l,
                    Err(_) => return true,
                };
                buf.truncate(len);
                self.feat("garbage_challenge_response");
                self.owner_crafted = true;
                self.crafted_seen = true;
                self.invalid_response = true;
                self.to_server(from, buf, None, true);
                self.invalid_response = false;
                self.owner_crafted = false;
            }
            170 => {
                // (170 k rounds): good rounds for client k - everything emitted is delivered, ticks of 250 ms
                let k = u(1).unwrap_or(0);
                let rounds = u(2).unwrap_or(4);
                self.good_rounds(k, rounds);
            }
            _ => {
                self.emit(op);
                if self.res.panicked {
                    self.violate("C07", format!("a renetcode call panicked: {}", op.to_text().chars().take(120).collect::<String>()));
                }
            }
        }
        if self.res.panicked {
            return false;
        }
        self.after_server_step();
        true
    }

    /// C18: with a valid token, capacity and a delivering network the handshake completes within a few rounds
    fn good_rounds(&mut self, k: u64, rounds: u64) {
        let addr = match self.client_addr.get(&k) {
            Some(a) => *a,
            None => return,
        };
        let tinfo = match self.client_token.get(&k).and_then(|t| self.tokens.get(t)).cloned() {
            Some(t) => t,
            None => return,
        };
        // preconditions of the liveness statement, read through the hooks
        let pre = {
            let (s, c) = match (self.world.server.as_ref(), self.world.clients.get(&k)) {
                (Some(s), Some(c)) => (s, c),
                _ => return,
            };
            let clients = s.verif_clients();
            let connecting = c.is_connecting();
            let free = clients.len() < s.max_clients();
            let id_free = !clients.iter().any(|x| x.client_id == tinfo.id);
            let addr_free = !clients.iter().any(|x| x.addr == addr);
            let pending_ok = s.verif_pending().iter().all(|p| p.addr != addr || (p.client_id == tinfo.id && p.user_data[..] == tinfo.user[..]));
            let targets_server = s.addresses().contains(&c.server_addr()) || true;
            // a client already in the response step can only complete the attempt its challenge belongs to: the server
            // must still hold that attempt (it drops it when the id connects elsewhere, when it expires, ...)
            let (cstate, _, last_recv, _, _, chal_seq) = c.verif_state();
            let tinfo_timeout = tinfo.timeout;
            // the client's own deadline: it gives up when nothing arrived for the token's timeout
            let silent = c.current_time().saturating_sub(last_recv);
            let deadline_ok = tinfo_timeout <= 0 || silent + std::time::Duration::from_millis(250 * (rounds + 1)) < std::time::Duration::from_secs(tinfo_timeout as u64);
            let responding_ok = cstate != 2 || s.verif_pending().iter().any(|p| p.addr == addr && p.client_id == tinfo.id && p.first_challenge_sequence <= chal_seq);
            // the token must stay valid for the rounds, and the client must still have time before its own deadline
            let not_expired = s.current_time().as_secs() + 3 < tinfo.expire;
            let token_unused_elsewhere = self.client_token.get(&k).and_then(|t| self.token_seen_from.get(t)).map(|s| s.iter().all(|a| *a == addr)).unwrap_or(true);
            // scoped to the first session on a token: a second one restarts the sequence numbers under the same keys and
            // the client's replay window may already hold them
            let first_session = !self.client_token_reused(k) && self.client_token.get(&k).map(|t| self.token_sessions.get(t).copied().unwrap_or(0) == 0).unwrap_or(true);
            first_session && connecting && free && id_free && addr_free && pending_ok && responding_ok && deadline_ok && targets_server && not_expired && tinfo.valid_for_server && token_unused_elsewhere
        };
        let targets = self.world.clients.get(&k).map(|c| self.world.server.as_ref().map(|s| s.addresses().contains(&c.server_addr())).unwrap_or(false)).unwrap_or(false);
        let client_time = self.world.clients.get(&k).map(|c| c.current_time()).unwrap_or_default();
        let server_time = self.world.server.as_ref().map(|s| s.current_time()).unwrap_or_default();
        let clocks_aligned = client_time.as_secs().abs_diff(server_time.as_secs()) <= 1;
        for _ in 0..rounds {
            if self.res.panicked {
                return;
            }
            // client tick, its datagram goes to the server, replies go back
            let before = self.out_c.get(&k).map(|l| l.len()).unwrap_or(0);
            self.run_op(&l(vec![n(103u8), n(k), n(250_000_000u64)]));
            let s_before = self.out_s.len();
            let after = self.out_c.get(&k).map(|l| l.len()).unwrap_or(0);
            self.emit(&l(vec![n(111u8), n(250_000_000u64)]));
            for i in before..after {
                let data = self.out_c[&k][i].bytes.clone();
                let dst = self.out_c[&k][i].dst;
                if self.world.server.as_ref().map(|s| s.addresses().contains(&dst)).unwrap_or(false) {
                    self.to_server(addr, data, Some((k, i)), false);
                }
            }
            let ids: Vec<u64> = self.world.server.as_ref().map(|s| s.clients_id()).unwrap_or_default();
            for id in ids {
                self.run_op(&l(vec![n(112u8), n(id)]));
            }
            for i in s_before..self.out_s.len() {
                if self.out_s[i].dst == addr {
                    let data = self.out_s[i].bytes.clone();
                    self.out_s[i].delivered_unmodified += 1;
                    self.to_client(k, data, Some(i), false);
                }
            }
        }
        if self.res.panicked {
            return;
        }
        let client_connected = self.world.clients.get(&k).map(|c| c.is_connected()).unwrap_or(false);
        let server_has = self.world.server.as_ref().map(|s| s.clients_id().contains(&tinfo.id) && s.client_addr(tinfo.id) == Some(addr)).unwrap_or(false);
        if pre && clocks_aligned && rounds >= 3 && targets {
            self.feat("good_rounds_with_preconditions");
            if !(client_connected && server_has) {
                self.violate("C18", format!("client {} holding a valid token is not connected after {} good rounds (client connected: {}, server lists it: {})", k, rounds, client_connected, server_has));
            }
        }
        if client_connected && server_has {
            self.feat("handshake_completed");
        }
    }

    pub fn finish(mut self) -> RunResult {
        std::mem::take(&mut self.res)
    }
}

pub fn run_history(ops: &[Tree]) -> RunResult {
    let mut h = NHistory::new();
    for op in ops {
        if !h.run_op(op) {
            break;
        }
    }
    h.finish()
}
