//! Correspondence harness: generates histories, runs them on the implementation (this
//! process, linked against /repo's crates) and on the model (the extracted OCaml driver),
//! compares the observation streams and runs the property monitors.
mod nexec;
mod ngen;
mod nhist;
mod rexec;
mod rgen;
mod rhist;
mod rng;
mod tgen;
mod thist;
mod tree;

use rhist::{RunResult, Violation};
use rng::Rng;
use std::collections::BTreeMap;
use std::fmt::Write as _;
use std::io::Write as _;
use std::path::{Path, PathBuf};
use std::process::Command;
use tree::Tree;

fn gen_history(suite: &str, r: &mut Rng) -> Vec<Tree> {
    match suite {
        "r-codec" => rgen::gen_codec(r),
        "r-pair" => {
            if r.chance(1, 4) {
                return rgen::gen_slice_stress(r);
            }
            let steps = r.range(30, 140) as usize;
            rgen::gen_pair(r, &rgen::PairGen { hostile: false, steps })
        }
        "r-hostile" => {
            let steps = r.range(30, 120) as usize;
            rgen::gen_pair(r, &rgen::PairGen { hostile: true, steps })
        }
        "r-server" => {
            let steps = r.range(30, 120) as usize;
            let hostile = r.chance(1, 3);
            rgen::gen_server(r, hostile, steps)
        }
        "n-codec" => ngen::gen_codec(r),
        "n-replay" => ngen::gen_replay(r),
        "n-world" => ngen::gen_world(r),
        "t-udp" => tgen::gen_transport(r),
        _ => panic!("unknown suite {}", suite),
    }
}

fn run_history_here(suite: &str, ops: &[Tree]) -> RunResult {
    match suite {
        "r-codec" | "r-pair" | "r-hostile" | "r-server" => rhist::run_history(ops),
        "n-codec" | "n-replay" | "n-world" => nhist::run_history(ops),
        "t-udp" => thist::run_history(ops),
        _ => panic!("unknown suite {}", suite),
    }
}

/// seconds one history may take before it counts as a call that does not return
const HANG_LIMIT_S: u64 = 45;

/// Runs a history on a thread of its own; a call into the library that does not come back within the limit (a loop over
/// a peer-chosen range, say) is reported as a violation instead of stalling the whole check. The stuck thread is left
/// behind; the process ends when the run is over.
fn run_history(suite: &str, ops: &[Tree]) -> RunResult {
    let (tx, rx) = std::sync::mpsc::channel();
    let (s2, o2) = (suite.to_string(), ops.to_vec());
    std::thread::spawn(move || {
        let r = run_history_here(&s2, &o2);
        let _ = tx.send(r);
    });
    match rx.recv_timeout(std::time::Duration::from_secs(HANG_LIMIT_S)) {
        Ok(r) => r,
        Err(_) => {
            let prop: &'static str = match suite {
                "t-udp" => "C20",
                x if x.starts_with("n-") => "C07",
                _ => "C06",
            };
            let mut r = RunResult::default();
            r.violations.push(Violation { prop, step: 0, msg: format!("HANG: an operation of this history did not return within {} s (the history is given unshrunk)", HANG_LIMIT_S) });
            if prop == "C06" {
                // a server stuck in one client's packet serves nobody else
                r.violations.push(Violation { prop: "C11", step: 0, msg: format!("HANG: an operation of this history did not return within {} s: one peer's packet stalls the whole endpoint (the history is given unshrunk)", HANG_LIMIT_S) });
            }
            r
        }
    }
}

fn is_hang(res: &RunResult) -> bool {
    res.violations.iter().any(|v| v.msg.starts_with("HANG"))
}

fn run_driver(driver: &Path, lines: &[String], scratch: &Path, tag: &str) -> Vec<String> {
    let inp = scratch.join(format!("{}.ops", tag));
    let outp = scratch.join(format!("{}.model", tag));
    {
        let mut f = std::io::BufWriter::new(std::fs::File::create(&inp).expect("create ops file"));
        for l in lines {
            writeln!(f, "{}", l).unwrap();
        }
    }
    let st = Command::new(driver).arg(&inp).arg(&outp).status().expect("run model driver");
    if !st.success() {
        eprintln!("model driver failed on {}", inp.display());
        return vec![];
    }
    std::fs::read_to_string(&outp).unwrap_or_default().lines().map(|s| s.to_string()).collect()
}

/// first differing line, if any
fn first_diff(impl_obs: &[String], model_obs: &[String]) -> Option<usize> {
    for i in 0..impl_obs.len().max(model_obs.len()) {
        if impl_obs.get(i) != model_obs.get(i) {
            return Some(i);
        }
    }
    None
}

#[derive(Clone, PartialEq)]
enum Failure {
    Mismatch,
    Monitor(&'static str),
}

fn failures(suite: &str, ops: &[Tree], driver: &Path, scratch: &Path, tag: &str) -> (Vec<Failure>, RunResult, Vec<String>) {
    let res = run_history(suite, ops);
    let model = run_driver(driver, &res.lines, scratch, tag);
    let mut f = vec![];
    if first_diff(&res.impl_obs, &model).is_some() {
        f.push(Failure::Mismatch);
    }
    for v in &res.violations {
        f.push(Failure::Monitor(v.prop));
    }
    (f, res, model)
}

/// delta debugging over the operation list
fn shrink(suite: &str, ops: &[Tree], target: &Failure, driver: &Path, scratch: &Path) -> Vec<Tree> {
    let mut cur: Vec<Tree> = ops.to_vec();
    let mut budget = 400usize;
    // and a budget of time: histories with hundreds of sealed datagrams are expensive to re-run on the model
    let started = std::time::Instant::now();
    let spent_before = SHRINK_SPENT_MS.load(std::sync::atomic::Ordering::Relaxed);
    let limit_ms: u64 = if spent_before > 240_000 { 0 } else { 45_000 };
    let mut chunk = (cur.len() / 2).max(1);
    while chunk >= 1 && budget > 0 {
        let mut i = 0;
        let mut progressed = false;
        while i < cur.len() && budget > 0 {
            if started.elapsed().as_millis() as u64 >= limit_ms {
                budget = 0;
                break;
            }
            let end = (i + chunk).min(cur.len());
            let mut cand = cur[..i].to_vec();
            cand.extend_from_slice(&cur[end..]);
            budget -= 1;
            let (f, _, _) = failures(suite, &cand, driver, scratch, "shrink");
            if f.contains(target) {
                cur = cand;
                progressed = true;
            } else {
                i += chunk;
            }
        }
        if chunk == 1 && !progressed {
            break;
        }
        if !progressed || chunk > 1 {
            chunk = if chunk == 1 { 1 } else { chunk / 2 };
        }
    }
    SHRINK_SPENT_MS.fetch_add(started.elapsed().as_millis() as u64, std::sync::atomic::Ordering::Relaxed);
    cur
}

static SHRINK_SPENT_MS: std::sync::atomic::AtomicU64 = std::sync::atomic::AtomicU64::new(0);

fn json_str(s: &str) -> String {
    let mut o = String::from("\"");
    for c in s.chars() {
        match c {
            '"' => o.push_str("\\\""),
            '\\' => o.push_str("\\\\"),
            '\n' => o.push_str("\\n"),
            c if (c as u32) < 0x20 => {
                let _ = write!(o, "\\u{:04x}", c as u32);
            }
            c => o.push(c),
        }
    }
    o.push('"');
    o
}

fn write_replay(dir: &Path, suite: &str, label: &str, seed: u64, index: u64, what: &str, ops: &[Tree], res: &RunResult, model: &[String]) -> PathBuf {
    std::fs::create_dir_all(dir).ok();
    let path = dir.join(format!("{}-{}-{}-{}.hist", suite, label, seed, index));
    let mut f = std::fs::File::create(&path).expect("create replay file");
    writeln!(f, "# suite={} seed={} index={}", suite, seed, index).unwrap();
    writeln!(f, "# {}", what.replace('\n', " ")).unwrap();
    for v in &res.violations {
        writeln!(f, "# monitor {} at step {}: {}", v.prop, v.step, v.msg.replace('\n', " ")).unwrap();
    }
    if let Some(d) = first_diff(&res.impl_obs, model) {
        writeln!(f, "# first difference at resolved line {}:", d + 1).unwrap();
        writeln!(f, "#   op    {}", res.lines.get(d).map(|s| s.as_str()).unwrap_or("<none>")).unwrap();
        writeln!(f, "#   impl  {}", res.impl_obs.get(d).map(|s| s.as_str()).unwrap_or("<none>")).unwrap();
        writeln!(f, "#   model {}", model.get(d).map(|s| s.as_str()).unwrap_or("<none>")).unwrap();
    }
    for op in ops {
        writeln!(f, "{}", op.to_text()).unwrap();
    }
    path
}

fn read_history(path: &Path) -> (String, Vec<Tree>) {
    let text = std::fs::read_to_string(path).expect("read history file");
    let mut suite = String::from("r-pair");
    let mut ops = vec![];
    for line in text.lines() {
        if let Some(rest) = line.strip_prefix("# suite=") {
            suite = rest.split_whitespace().next().unwrap_or("r-pair").to_string();
        }
        if line.is_empty() || line.starts_with('#') {
            continue;
        }
        if let Some(t) = Tree::parse(line) {
            ops.push(t);
        }
    }
    (suite, ops)
}

struct Args {
    map: BTreeMap<String, String>,
    pos: Vec<String>,
}
fn parse_args() -> Args {
    let mut map = BTreeMap::new();
    let mut pos = vec![];
    let mut it = std::env::args().skip(1);
    while let Some(a) = it.next() {
        if let Some(k) = a.strip_prefix("--") {
            let v = it.next().unwrap_or_default();
            map.insert(k.to_string(), v);
        } else {
            pos.push(a);
        }
    }
    Args { map, pos }
}

fn main() {
    std::panic::set_hook(Box::new(|_| {}));
    let args = parse_args();
    let cmd = args.pos.first().map(|s| s.as_str()).unwrap_or("");
    let driver = PathBuf::from(args.map.get("driver").cloned().unwrap_or_else(|| "/verif/.cache/ocaml/driver".into()));
    match cmd {
        "run" => cmd_run(&args, &driver),
        "replay" => cmd_replay(&args, &driver),
        _ => {
            eprintln!("usage: verif_harness run --suite S --seed N --count K --out DIR [--corpus DIR] | replay --file F");
            std::process::exit(2);
        }
    }
}

fn cmd_replay(args: &Args, driver: &Path) {
    let file = PathBuf::from(args.map.get("file").expect("--file"));
    let scratch = PathBuf::from(args.map.get("out").cloned().unwrap_or_else(|| "/verif/.cache/scratch".into()));
    std::fs::create_dir_all(&scratch).ok();
    let (suite, ops) = read_history(&file);
    let (f, res, model) = failures(&suite, &ops, driver, &scratch, "replay");
    let quiet = args.map.contains_key("quiet");
    if !quiet {
        for i in 0..res.lines.len() {
            println!("op    {}", res.lines[i]);
            println!("impl  {}", res.impl_obs[i]);
            println!("model {}", model.get(i).map(|s| s.as_str()).unwrap_or("<none>"));
        }
    }
    for v in &res.violations {
        println!("MONITOR {} step {}: {}", v.prop, v.step, v.msg);
    }
    if let Some(d) = first_diff(&res.impl_obs, &model) {
        println!("MISMATCH at resolved line {}", d + 1);
    }
    if f.is_empty() {
        println!("REPLAY-OK {}", file.display());
    } else {
        println!("REPLAY-FAILS {}", file.display());
        std::process::exit(1);
    }
}

fn cmd_run(args: &Args, driver: &Path) {
    let suite = args.map.get("suite").expect("--suite").clone();
    let seed: u64 = args.map.get("seed").and_then(|s| s.parse().ok()).unwrap_or(1);
    let count: u64 = args.map.get("count").and_then(|s| s.parse().ok()).unwrap_or(100);
    let out = PathBuf::from(args.map.get("out").expect("--out"));
    let tag = args.map.get("tag").cloned().unwrap_or_else(|| suite.clone());
    std::fs::create_dir_all(&out).ok();
    let replay_dir = PathBuf::from(args.map.get("replays").cloned().unwrap_or_else(|| out.join("replays").to_string_lossy().into_owned()));
    let t0 = std::time::Instant::now();

    // histories: corpus first, then fresh ones from the seed
    let mut histories: Vec<(String, Vec<Tree>)> = vec![];
    if let Some(c) = args.map.get("corpus") {
        let mut files: Vec<PathBuf> = std::fs::read_dir(c).map(|d| d.filter_map(|e| e.ok().map(|e| e.path())).collect()).unwrap_or_default();
        files.sort();
        for f in files {
            if f.extension().map(|e| e == "hist").unwrap_or(false) {
                let (s, ops) = read_history(&f);
                if s == suite {
                    histories.push((format!("corpus:{}", f.file_name().unwrap().to_string_lossy()), ops));
                }
            }
        }
    }
    let ncorpus = histories.len();
    for i in 0..count {
        let mut r = Rng::new(seed.wrapping_mul(1_000_003).wrapping_add(i));
        histories.push((format!("{}", i), gen_history(&suite, &mut r)));
    }

    let mut results: Vec<RunResult> = vec![];
    let mut all_lines: Vec<String> = vec![];
    for (_, ops) in &histories {
        let res = run_history(&suite, ops);
        all_lines.extend(res.lines.iter().cloned());
        all_lines.push("---".into());
        results.push(res);
    }
    let model_all = run_driver(driver, &all_lines, &out, &tag);
    // split the model output per history
    let mut model_per: Vec<Vec<String>> = vec![];
    let mut cur = vec![];
    for l in model_all {
        if l == "---" {
            model_per.push(std::mem::take(&mut cur));
        } else {
            cur.push(l);
        }
    }
    while model_per.len() < results.len() {
        model_per.push(vec![]);
    }

    let mut features: BTreeMap<&'static str, u64> = BTreeMap::new();
    let mut hist_with_feature: BTreeMap<&'static str, u64> = BTreeMap::new();
    let mut total_ops = 0u64;
    let mut nontrivial = std::collections::HashSet::new();
    let mut mismatches: Vec<(String, String)> = vec![]; // (history name, replay path)
    let mut violations: Vec<(String, String, String)> = vec![]; // (prop, msg, replay)
    let mut compared_lines = 0u64;
    for (hi, res) in results.iter().enumerate() {
        total_ops += res.lines.len() as u64;
        compared_lines += res.impl_obs.len() as u64;
        for (k, v) in &res.features {
            *features.entry(k).or_insert(0) += v;
            *hist_with_feature.entry(k).or_insert(0) += 1;
        }
        if res.nontrivial {
            // distinct by content of the resolved operation stream
            let mut h = std::collections::hash_map::DefaultHasher::new();
            use std::hash::Hash;
            res.lines.hash(&mut h);
            use std::hash::Hasher;
            nontrivial.insert(h.finish());
        }
        let model = &model_per[hi];
        let (name, ops) = &histories[hi];
        let index = if hi < ncorpus { 1_000_000 + hi as u64 } else { (hi - ncorpus) as u64 };
        let mut fails: Vec<Failure> = vec![];
        if first_diff(&res.impl_obs, model).is_some() {
            fails.push(Failure::Mismatch);
        }
        for v in &res.violations {
            fails.push(Failure::Monitor(v.prop));
        }
        fails.dedup_by(|a, b| a == b);
        for f in fails {
            // limit the work spent on a flood of failures
            if mismatches.len() + violations.len() >= 12 {
                break;
            }
            if is_hang(res) {
                // re-running it would stall again: the history goes out as it is
                if let Failure::Monitor(prop) = &f {
                    let msg = res.violations.iter().find(|v| v.prop == *prop).map(|v: &Violation| v.msg.clone()).unwrap_or_default();
                    let p = write_replay(&replay_dir, &suite, prop, seed, index, &format!("monitor {} failed on the implementation (history {})", prop, name), ops, res, &[]);
                    violations.push((prop.to_string(), msg, p.to_string_lossy().into_owned()));
                }
                continue;
            }
            let small = shrink(&suite, ops, &f, driver, &out);
            let (_, sres, smodel) = failures(&suite, &small, driver, &out, "final");
            match &f {
                Failure::Mismatch => {
                    let p = write_replay(&replay_dir, &suite, "mismatch", seed, index, &format!("model and implementation disagree (history {})", name), &small, &sres, &smodel);
                    mismatches.push((name.clone(), p.to_string_lossy().into_owned()));
                }
                Failure::Monitor(prop) => {
                    let msg = sres.violations.iter().find(|v| v.prop == *prop).map(|v: &Violation| v.msg.clone()).unwrap_or_default();
                    let p = write_replay(&replay_dir, &suite, prop, seed, index, &format!("monitor {} failed on the implementation (history {})", prop, name), &small, &sres, &smodel);
                    violations.push((prop.to_string(), msg, p.to_string_lossy().into_owned()));
                }
            }
        }
    }

    // summary
    let mut s = String::new();
    s.push_str("{\n");
    let _ = writeln!(s, " \"suite\": {},", json_str(&suite));
    let _ = writeln!(s, " \"seed\": {},", seed);
    let _ = writeln!(s, " \"histories\": {},", histories.len());
    let _ = writeln!(s, " \"corpus_histories\": {},", ncorpus);
    let _ = writeln!(s, " \"operations\": {},", total_ops);
    let _ = writeln!(s, " \"observations_compared\": {},", compared_lines);
    let _ = writeln!(s, " \"distinct_nontrivial\": {},", nontrivial.len());
    let _ = writeln!(s, " \"wall_s\": {:.3},", t0.elapsed().as_secs_f64());
    s.push_str(" \"features\": {");
    let mut first = true;
    for (k, v) in &features {
        if !first {
            s.push_str(", ");
        }
        first = false;
        let _ = write!(s, "{}: [{}, {}]", json_str(k), v, hist_with_feature.get(k).unwrap_or(&0));
    }
    s.push_str("},\n");
    s.push_str(" \"mismatches\": [");
    for (i, (name, p)) in mismatches.iter().enumerate() {
        if i > 0 {
            s.push_str(", ");
        }
        let _ = write!(s, "{{\"history\": {}, \"replay\": {}}}", json_str(name), json_str(p));
    }
    s.push_str("],\n \"violations\": [");
    for (i, (prop, msg, p)) in violations.iter().enumerate() {
        if i > 0 {
            s.push_str(", ");
        }
        let _ = write!(s, "{{\"property\": {}, \"message\": {}, \"replay\": {}}}", json_str(prop), json_str(msg), json_str(p));
    }
    s.push_str("],\n \"samples\": [");
    let mut ns = 0;
    for (hi, (_, ops)) in histories.iter().enumerate() {
        if hi >= ncorpus && ns < 2 {
            if ns > 0 {
                s.push_str(", ");
            }
            let text: Vec<String> = ops.iter().take(14).map(|o| {
                let t = o.to_text();
                if t.len() > 160 { format!("{}...", &t[..160]) } else { t }
            }).collect();
            s.push_str(&json_str(&text.join(" ; ")));
            ns += 1;
        }
    }
    s.push_str("]\n}\n");
    std::fs::write(out.join(format!("{}.summary.json", tag)), &s).expect("write summary");
    println!("{} histories={} ops={} mismatches={} violations={} wall={:.1}s", suite, histories.len(), total_ops, mismatches.len(), violations.len(), t0.elapsed().as_secs_f64());
    if !mismatches.is_empty() || !violations.is_empty() {
        std::process::exit(1);
    }
}
