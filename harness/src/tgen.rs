//! Generator of the transport suite (t-udp): real transports, relay fault schedules.
use crate::nexec::z_tree;
use crate::rexec::{cfg_tree, ChanCfg};
use crate::rgen::Payloads;
use crate::rng::Rng;
use crate::tree::*;

const MS: u64 = 1_000_000;
const SEC: u64 = 1_000_000_000;

pub fn gen_transport(r: &mut Rng) -> Vec<Tree> {
    let mut ops = vec![];
    let cfg = vec![
        ChanCfg { id: 0, max: 100_000, ty: 0, resend_ns: 0 },
        ChanCfg { id: 1, max: 100_000, ty: 2, resend_ns: *r.pick(&[0u64, 100 * MS, 300 * MS]) },
        ChanCfg { id: 2, max: 100_000, ty: 1, resend_ns: *r.pick(&[0u64, 100 * MS, 300 * MS]) },
    ];
    let t0 = *r.pick(&[0u64, 7 * SEC]);
    let max = *r.pick(&[1u64, 2, 2, 4, 4]);
    let protocol = 7u64;
    let key = r.bytes(32);
    let budget = *r.pick(&[3000u64, 60000]);
    ops.push(l(vec![n(200u8), n(t0), n(max), n(protocol), l(vec![n(1u8), b(&key)]), n(budget), cfg_tree(&cfg), cfg_tree(&cfg)]));
    let focus: Option<usize> = if r.chance(1, 3) { Some(*r.pick(&[18usize, 19, 20, 20, 21, 23, 23, 12, 13, 14])) } else { None };
    let nclients = if focus == Some(21) { 3 } else { *r.pick(&[1u64, 2, 2, 3]) };
    let ids = [11u64, if focus == Some(21) || r.chance(1, 6) { 11 } else { 22 }, 33];
    let mut tk = 0u64;
    let mut token_with = |r: &mut Rng, ops: &mut Vec<Tree>, k: u64, now: u64, short_lived: bool| -> u64 {
        let t = tk;
        tk += 1;
        let mode = if short_lived { 0 } else { *r.pick(&[0u64, 0, 0, 0, 1, 2]) };
        let tkey = if r.chance(1, 12) { r.bytes(32) } else { key.clone() };
        let timeout: i64 = *r.pick(&[2i64, 5, 15]);
        ops.push(l(vec![n(201u8), n(t), n(now), n(protocol), n(if short_lived { *r.pick(&[2u64, 3, 5]) } else { *r.pick(&[5u64, 30, 30]) }), n(ids[k as usize]), z_tree(timeout), n(mode), b(&r.bytes(256)), b(&tkey)]));
        t
    };
    let mut now = t0;
    for k in 0..nclients {
        let t = token_with(r, &mut ops, k, now, false);
        ops.push(l(vec![n(202u8), n(k), n(now), n(t), n(budget), cfg_tree(&cfg), cfg_tree(&cfg)]));
    }
    let mut pl = Payloads::new();
    let sizes = [0usize, 1, 50, 1199, 1200, 1201, 2500, 4000];
    let steps = r.range(20, 70);
    for step in 0..steps {
        let k = r.below(nclients);
        let id = ids[k as usize];
        let ch = *r.pick(&[0u64, 1, 2, 2]);
        let mutk = |r: &mut Rng| -> (u64, u64, u64) {
            if r.chance(4, 5) { (0, 0, 0) } else { (r.range(1, 4), r.below(11000), r.below(256)) }
        };
        let w: [u32; 24] = [18, 5, 5, 10, 10, 5, 5, 8, 8, 6, 6, 5, 3, 3, 2, 2, 1, 2, 3, 2, 2, 2, 0, 1];
        let case = match focus {
            Some(f) if step == 4 || step == 15 => f,
            _ => r.weighted(&w),
        };
        match case {
            0 => {
                let dt = *r.pick(&[16 * MS, 100 * MS, 250 * MS, 250 * MS, SEC]);
                ops.push(l(vec![n(260u16), n(k), n(r.range(1, 4)), n(dt)]));
                now += dt;
            }
            1 => ops.push(l(vec![n(203u8), n(k), n(*r.pick(&[0u64, 16 * MS, 250 * MS, SEC, 3 * SEC]))])),
            2 => ops.push(l(vec![n(204u8), n(k)])),
            3 => {
                let (kind, a, bb) = mutk(r);
                ops.push(l(vec![n(250u8), n(k), n(r.below(4)), n(kind), n(a), n(bb)]));
            }
            4 => {
                let (kind, a, bb) = mutk(r);
                ops.push(l(vec![n(251u8), n(k), n(r.below(4)), n(kind), n(a), n(bb)]));
            }
            5 => ops.push(l(vec![n(205u8), n(*r.pick(&[0u64, 16 * MS, 250 * MS, SEC, 3 * SEC, 6 * SEC]))])),
            6 => ops.push(l(vec![n(206u8)])),
            7 => {
                let len = *r.pick(&sizes);
                ops.push(l(vec![n(220u8), n(k), n(ch), b(&pl.make(r, len))]));
            }
            8 => {
                let len = *r.pick(&sizes);
                if r.chance(2, 3) {
                    ops.push(l(vec![n(222u8), n(id), n(ch), b(&pl.make(r, len))]));
                } else {
                    ops.push(l(vec![n(223u8), n(ch), b(&pl.make(r, len))]));
                }
            }
            9 => {
                for c in [0u64, 1, 2] {
                    for _ in 0..3 {
                        ops.push(l(vec![n(221u8), n(k), n(c)]));
                    }
                }
            }
            10 => {
                for c in [0u64, 1, 2] {
                    for _ in 0..3 {
                        ops.push(l(vec![n(224u8), n(id), n(c)]));
                    }
                }
            }
            11 => {
                ops.push(l(vec![n(225u8)]));
                ops.push(l(vec![n(225u8)]));
                ops.push(l(vec![n(227u8)]));
                ops.push(l(vec![n(228u8), n(k)]));
                ops.push(l(vec![n(233u8)]));
                ops.push(l(vec![n(234u8), n(k)]));
            }
            12 => {
                let len = *r.pick(&[0usize, 17, 18, 30, 326, 1078, 1400]);
                let mut m = r.bytes(len);
                if !m.is_empty() {
                    m[0] = r.below(7) as u8 | ((r.below(16) as u8) << 4);
                }
                ops.push(l(vec![n(252u8), b(&m)]));
            }
            13 => {
                if nclients > 1 {
                    ops.push(l(vec![n(253u8), n((k + 1) % nclients), n(k), n(r.below(3)), n(0u8), n(0u8), n(0u8)]));
                } else {
                    ops.push(l(vec![n(254u8), n(k), b(&r.bytes(40))]));
                }
            }
            14 => ops.push(l(vec![n(209u8), n(k)])),
            15 => ops.push(l(vec![n(226u8), n(id)])),
            16 => ops.push(l(vec![n(210u8)])),
            17 => ops.push(l(vec![n(229u8), n(*r.pick(&[1u64, 2, 4]))])),
            21 => {
                // two sessions racing for one client id across a hole in the slot table (clients 0 and 1 share the id, client 2
                // takes the first slot and leaves between the two responses)
                if nclients == 3 && ids[0] == ids[1] && step < 8 {
                    let srv = |ops: &mut Vec<Tree>| ops.push(l(vec![n(205u8), n(16 * MS)]));
                    ops.push(l(vec![n(229u8), n(4u8)]));
                    ops.push(l(vec![n(260u16), n(2u8), n(4u8), n(250 * MS)]));
                    for j in [0u64, 1] {
                        ops.push(l(vec![n(203u8), n(j), n(250 * MS)]));
                        ops.push(l(vec![n(250u8), n(j), n(0u8), n(0u8), n(0u8), n(0u8)]));
                        srv(&mut ops);
                    }
                    for j in [0u64, 1] {
                        if j == 1 {
                            ops.push(l(vec![n(209u8), n(2u8)]));
                            ops.push(l(vec![n(250u8), n(2u8), n(0u8), n(0u8), n(0u8), n(0u8)]));
                            srv(&mut ops);
                        }
                        ops.push(l(vec![n(251u8), n(j), n(0u8), n(0u8), n(0u8), n(0u8)]));
                        ops.push(l(vec![n(203u8), n(j), n(250 * MS)]));
                        ops.push(l(vec![n(250u8), n(j), n(0u8), n(0u8), n(0u8), n(0u8)]));
                        srv(&mut ops);
                    }
                    ops.push(l(vec![n(227u8)]));
                    ops.push(l(vec![n(233u8)]));
                    ops.push(l(vec![n(222u8), n(ids[0]), n(2u8), b(&pl.make(r, 40))]));
                    for j in [0u64, 1] {
                        ops.push(l(vec![n(220u8), n(j), n(2u8), b(&pl.make(r, 30))]));
                        ops.push(l(vec![n(260u16), n(j), n(2u8), n(250 * MS)]));
                        ops.push(l(vec![n(221u8), n(j), n(2u8)]));
                    }
                    ops.push(l(vec![n(224u8), n(ids[0]), n(2u8)]));
                    ops.push(l(vec![n(224u8), n(ids[0]), n(2u8)]));
                    ops.push(l(vec![n(225u8)]));
                }
            }
            20 => {
                // a hole in the server's slot table: everybody connects, the first one leaves, then the last one; the ones
                // in between must keep their sessions, their traffic and their place in both tables
                ops.push(l(vec![n(229u8), n(4u8)]));
                for j in 0..nclients {
                    ops.push(l(vec![n(260u16), n(j), n(4u8), n(250 * MS)]));
                }
                ops.push(l(vec![n(227u8)]));
                let leave = |ops: &mut Vec<Tree>, j: u64| {
                    ops.push(l(vec![n(209u8), n(j)]));
                    ops.push(l(vec![n(250u8), n(j), n(0u8), n(0u8), n(0u8), n(0u8)]));
                    ops.push(l(vec![n(205u8), n(16 * MS)]));
                };
                leave(&mut ops, 0);
                if nclients >= 3 {
                    leave(&mut ops, nclients - 1);
                }
                ops.push(l(vec![n(227u8)]));
                ops.push(l(vec![n(233u8)]));
                for j in 1..nclients {
                    let len = *r.pick(&[1usize, 50, 2500]);
                    ops.push(l(vec![n(222u8), n(ids[j as usize]), n(2u8), b(&pl.make(r, len))]));
                    ops.push(l(vec![n(220u8), n(j), n(2u8), b(&pl.make(r, len))]));
                    ops.push(l(vec![n(260u16), n(j), n(3u8), n(250 * MS)]));
                    for _ in 0..2 {
                        ops.push(l(vec![n(221u8), n(j), n(2u8)]));
                        ops.push(l(vec![n(224u8), n(ids[j as usize]), n(2u8)]));
                    }
                }
                ops.push(l(vec![n(225u8)]));
                ops.push(l(vec![n(227u8)]));
            }
            23 => {
                // the token runs out while the response is on its way: the server's next update spans the expiry instant
                let t = token_with(r, &mut ops, k, now, true);
                ops.push(l(vec![n(202u8), n(k), n(now), n(t), n(budget), cfg_tree(&cfg), cfg_tree(&cfg)]));
                ops.push(l(vec![n(203u8), n(k), n(16 * MS)]));
                ops.push(l(vec![n(250u8), n(k), n(0u8), n(0u8), n(0u8), n(0u8)]));
                ops.push(l(vec![n(205u8), n(16 * MS)]));
                ops.push(l(vec![n(251u8), n(k), n(0u8), n(0u8), n(0u8), n(0u8)]));
                ops.push(l(vec![n(203u8), n(k), n(250 * MS)]));
                ops.push(l(vec![n(250u8), n(k), n(0u8), n(0u8), n(0u8), n(0u8)]));
                ops.push(l(vec![n(205u8), n(*r.pick(&[3 * SEC, 6 * SEC, 6 * SEC]))]));
                ops.push(l(vec![n(227u8)]));
                ops.push(l(vec![n(225u8)]));
            }
            18 => {
                // the application disconnects the message layer of the client, then the transport is updated
                ops.push(l(vec![n(232u8), n(k)]));
                ops.push(l(vec![n(203u8), n(k), n(16 * MS)]));
                ops.push(l(vec![n(250u8), n(k), n(0u8), n(0u8), n(0u8), n(0u8)]));
            }
            19 => {
                // the same inside the handshake window: the response reached the server, the accept did not reach the client
                let t = token_with(r, &mut ops, k, now, false);
                ops.push(l(vec![n(202u8), n(k), n(now), n(t), n(budget), cfg_tree(&cfg), cfg_tree(&cfg)]));
                for _ in 0..2 {
                    ops.push(l(vec![n(203u8), n(k), n(250 * MS)]));
                    ops.push(l(vec![n(250u8), n(k), n(0u8), n(0u8), n(0u8), n(0u8)]));
                    ops.push(l(vec![n(205u8), n(16 * MS)]));
                    if r.chance(3, 4) {
                        ops.push(l(vec![n(251u8), n(k), n(0u8), n(0u8), n(0u8), n(0u8)]));
                        ops.push(l(vec![n(203u8), n(k), n(250 * MS)]));
                        ops.push(l(vec![n(250u8), n(k), n(0u8), n(0u8), n(0u8), n(0u8)]));
                        ops.push(l(vec![n(205u8), n(16 * MS)]));
                    }
                }
                ops.push(l(vec![n(232u8), n(k)]));
                ops.push(l(vec![n(203u8), n(k), n(16 * MS)]));
                ops.push(l(vec![n(250u8), n(k), n(0u8), n(0u8), n(0u8), n(0u8)]));
                ops.push(l(vec![n(205u8), n(16 * MS)]));
                ops.push(l(vec![n(228u8), n(k)]));
                ops.push(l(vec![n(227u8)]));
            }
            _ => {
                // a fresh attempt for this client slot
                let t = token_with(r, &mut ops, k, now, false);
                ops.push(l(vec![n(202u8), n(k), n(now), n(t), n(budget), cfg_tree(&cfg), cfg_tree(&cfg)]));
            }
        }
    }
    for _ in 0..4 {
        ops.push(l(vec![n(225u8)]));
    }
    ops.push(l(vec![n(227u8)]));
    ops.push(l(vec![n(233u8)]));
    for k in 0..nclients {
        ops.push(l(vec![n(228u8), n(k)]));
        ops.push(l(vec![n(234u8), n(k)]));
    }
    ops
}
