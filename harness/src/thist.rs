//! Transport suite: the REAL NetcodeServerTransport / NetcodeClientTransport over loopback UDP sockets,
//! with an in-process relay that the history drives explicitly (deliver / drop / duplicate / reorder /
//! corrupt / re-address). Loopback delivery is synchronous, so the run is deterministic given the
//! random keys, which are read back and handed to the model.
use crate::nexec::{addr_tree, nerr_tree, parse_addr, z_tree, NWorld};
use crate::rexec::{cfg_tree, parse_cfgs, reason_tree, status_tree, ChanCfg};
use crate::rhist::{RunResult, Violation};
use crate::tree::*;
use bytes::Bytes;
use renet::{ChannelConfig, ConnectionConfig, RenetClient, RenetServer, SendType, ServerEvent};
use renet_netcode::{NetcodeClientTransport, NetcodeServerTransport, NetcodeTransportError};
use renetcode::{ClientAuthentication, ConnectToken, NetcodeError, ServerAuthentication, ServerConfig};
use std::collections::{BTreeMap, HashMap, HashSet};
use std::net::{SocketAddr, UdpSocket};
use std::panic::{catch_unwind, AssertUnwindSafe};
use std::time::Duration;

fn bind() -> UdpSocket {
    let s = UdpSocket::bind("127.0.0.1:0").expect("bind loopback socket");
    s.set_nonblocking(true).unwrap();
    s
}

fn drain(sock: &UdpSocket) -> Vec<(Vec<u8>, SocketAddr)> {
    let mut out = vec![];
    let mut buf = [0u8; 2048];
    while let Ok((len, from)) = sock.recv_from(&mut buf) {
        out.push((buf[..len].to_vec(), from));
    }
    out
}

fn to_channel_configs(c: &[ChanCfg]) -> Vec<ChannelConfig> {
    c.iter()
        .map(|c| ChannelConfig {
            channel_id: c.id,
            max_memory_usage_bytes: c.max,
            send_type: match c.ty {
                0 => SendType::Unreliable,
                1 => SendType::ReliableOrdered { resend_time: Duration::from_nanos(c.resend_ns) },
                _ => SendType::ReliableUnordered { resend_time: Duration::from_nanos(c.resend_ns) },
            },
        })
        .collect()
}

fn terr_tree(e: &NetcodeTransportError) -> Tree {
    match e {
        NetcodeTransportError::Netcode(NetcodeError::Disconnected(r)) => {
            let code = crate::nexec::nerr_tree(&NetcodeError::Disconnected(*r));
            // (9 reason) -> (0 reason)
            let reason = code.as_l().and_then(|v| v.get(1)).cloned().unwrap_or(n(0u8));
            l(vec![n(0u8), reason])
        }
        NetcodeTransportError::Netcode(e) => l(vec![n(2u8), nerr_tree(e)]),
        NetcodeTransportError::Renet(r) => l(vec![n(1u8), reason_tree(*r)]),
        NetcodeTransportError::IO(_) => l(vec![n(3u8)]),
    }
}

struct TClient {
    transport: NetcodeClientTransport,
    renet: RenetClient,
    sock_addr: SocketAddr,
    back: UdpSocket, // the relay's socket towards the server for this client
    out: Vec<(Vec<u8>, SocketAddr)>, // datagrams the client emitted (bytes, destination)
    inbox: Vec<Vec<u8>>,             // datagrams the server emitted towards this client
    sent: HashMap<u8, Vec<Vec<u8>>>,
    got: HashMap<u8, Vec<Vec<u8>>>,
    token: u64,
    explicit_disconnect: bool,
}

pub struct THistory {
    pub res: RunResult,
    step: usize,
    front: UdpSocket,  // the address the tokens name as the server
    dead: UdpSocket,   // a server address where nobody answers
    attacker: UdpSocket,
    server: Option<(NetcodeServerTransport, RenetServer)>,
    server_cfg: Option<(Vec<ChanCfg>, Vec<ChanCfg>)>,
    clients: BTreeMap<u64, TClient>,
    tokens: HashMap<u64, ConnectToken>,
    attacker_inbox: Vec<Vec<u8>>,
    srv_sent: HashMap<(u64, u8), Vec<Vec<u8>>>, // (client id, channel)
    srv_got: HashMap<(u64, u8), Vec<Vec<u8>>>,
    ev_state: HashMap<u64, bool>,
    explicit_server_disconnect: bool,
    hostile_payload: bool,
    old_backs: Vec<UdpSocket>,       // relay sockets of replaced clients: the server may still talk to them
    retired_sent: Vec<(SocketAddr, HashMap<u8, Vec<Vec<u8>>>)>, // what replaced clients had submitted, by relay address
    known_ids: HashSet<u64>,         // ids the message layer listed after the previous server update
}

impl THistory {
    pub fn new() -> Self {
        THistory {
            res: RunResult::default(),
            step: 0,
            front: bind(),
            dead: bind(),
            attacker: bind(),
            server: None,
            server_cfg: None,
            clients: BTreeMap::new(),
            tokens: HashMap::new(),
            attacker_inbox: vec![],
            srv_sent: HashMap::new(),
            srv_got: HashMap::new(),
            ev_state: HashMap::new(),
            explicit_server_disconnect: false,
            hostile_payload: false,
            old_backs: vec![],
            retired_sent: vec![],
            known_ids: HashSet::new(),
        }
    }
    fn feat(&mut self, name: &'static str) {
        *self.res.features.entry(name).or_insert(0) += 1;
    }
    fn violate(&mut self, prop: &'static str, msg: String) {
        if !self.res.violations.iter().any(|v| v.prop == prop) {
            let msg: String = if msg.len() > 360 { format!("{}...", msg.chars().take(360).collect::<String>()) } else { msg };
            self.res.violations.push(Violation { prop, step: self.step, msg });
        }
    }
    fn comment(&mut self, text: &str) {
        self.res.lines.push(format!("# {}", text));
        self.res.impl_obs.push(format!("# {}", text));
    }
    fn record(&mut self, resolved: Tree, obs: Tree) {
        self.res.lines.push(resolved.to_text());
        self.res.impl_obs.push(obs.to_text());
    }
    fn front_addr(&self) -> SocketAddr {
        self.front.local_addr().unwrap()
    }

    /// reads everything the clients sent (to the live or the dead server address)
    fn pump_clients(&mut self) -> HashMap<u64, Vec<(Vec<u8>, SocketAddr)>> {
        let mut per: HashMap<u64, Vec<(Vec<u8>, SocketAddr)>> = HashMap::new();
        let fa = self.front.local_addr().unwrap();
        let da = self.dead.local_addr().unwrap();
        let mut all: Vec<(Vec<u8>, SocketAddr, SocketAddr)> = drain(&self.front).into_iter().map(|(b, f)| (b, f, fa)).collect();
        all.extend(drain(&self.dead).into_iter().map(|(b, f)| (b, f, da)));
        for (bytes, from, dst) in all {
            if let Some((k, c)) = self.clients.iter_mut().find(|(_, c)| c.sock_addr == from) {
                c.out.push((bytes.clone(), dst));
                per.entry(*k).or_default().push((bytes, dst));
            }
        }
        per
    }

    /// reads everything the server sent; returns (destination, bytes) sorted by destination, per destination in order
    fn pump_server(&mut self) -> Vec<(SocketAddr, Vec<u8>)> {
        let mut out: Vec<(SocketAddr, Vec<u8>)> = vec![];
        for c in self.clients.values_mut() {
            let dst = c.back.local_addr().unwrap();
            for (bytes, _) in drain(&c.back) {
                c.inbox.push(bytes.clone());
                out.push((dst, bytes));
            }
        }
        for sock in self.old_backs.iter() {
            let dst = sock.local_addr().unwrap();
            for (bytes, _) in drain(sock) {
                out.push((dst, bytes));
            }
        }
        let dst = self.attacker.local_addr().unwrap();
        for (bytes, _) in drain(&self.attacker) {
            self.attacker_inbox.push(bytes.clone());
            out.push((dst, bytes));
        }
        out.sort_by_key(|(a, _)| a.port());
        if out.iter().any(|(_, b)| b.len() > 1400) {
            self.violate("C13", "the server transport sent a datagram above 1400 bytes".to_string());
        }
        out
    }

    fn dgrams_tree(v: &[(SocketAddr, Vec<u8>)]) -> Tree {
        l(v.iter().map(|(a, bb)| l(vec![addr_tree(a), b(bb)])).collect())
    }

    fn mutate(data: &mut Vec<u8>, kind: u64, a: usize, bb: u64) {
        match kind {
            0 => {}
            1 => {
                if !data.is_empty() {
                    let bit = a % (data.len() * 8);
                    data[bit / 8] ^= 1 << (bit % 8);
                }
            }
            2 => data.truncate(a.min(data.len())),
            3 => {
                if !data.is_empty() {
                    let at = a % data.len();
                    data[at] = bb as u8;
                }
            }
            _ => data.extend(std::iter::repeat(bb as u8).take(1 + a % 16)),
        }
    }

    pub fn run_op(&mut self, op: &Tree) -> bool {
        self.step += 1;
        let v = match op.as_l() {
            Some(v) if !v.is_empty() => v.to_vec(),
            _ => return true,
        };
        let u = |i: usize| v.get(i).and_then(|t| t.as_u64());
        let code = op.opcode().unwrap_or(0);
        let ok = match catch_unwind(AssertUnwindSafe(|| self.run_inner(code, &v, &u))) {
            Ok(x) => x,
            Err(_) => {
                self.res.panicked = true;
                self.record(op.clone(), panic_tree());
                self.violate("C20", format!("a transport call panicked: {}", op.to_text().chars().take(100).collect::<String>()));
                false
            }
        };
        if ok {
            self.after_step();
        }
        ok
    }

    fn run_inner(&mut self, code: u64, v: &[Tree], u: &dyn Fn(usize) -> Option<u64>) -> bool {
        match code {
            200 => {
                // (200 now max protocol key budget scfg ccfg)
                let (now, max, protocol) = (u(1).unwrap_or(0), u(2).unwrap_or(1), u(3).unwrap_or(0));
                let key = v.get(4).and_then(|t| t.as_l()).and_then(|o| o.get(1)).and_then(|t| t.as_b()).map(|x| x.to_vec());
                let budget = u(5).unwrap_or(60000);
                let (sc, cc) = (v.get(6).and_then(parse_cfgs).unwrap_or_default(), v.get(7).and_then(parse_cfgs).unwrap_or_default());
                let authentication = match &key {
                    Some(k) if k.len() == 32 => {
                        let mut a = [0u8; 32];
                        a.copy_from_slice(k);
                        ServerAuthentication::Secure { private_key: a }
                    }
                    _ => ServerAuthentication::Unsecure,
                };
                let fa = self.front_addr();
                let cfg = ServerConfig { current_time: Duration::from_nanos(now), max_clients: max as usize, protocol_id: protocol, public_addresses: vec![fa], authentication };
                let transport = NetcodeServerTransport::new(cfg, bind()).expect("server transport");
                let chal = transport.verif_netcode_server().verif_challenge_key();
                let rs = RenetServer::new(ConnectionConfig { available_bytes_per_tick: budget, server_channels_config: to_channel_configs(&sc), client_channels_config: to_channel_configs(&cc) });
                self.server = Some((transport, rs));
                self.server_cfg = Some((sc.clone(), cc.clone()));
                let resolved = l(vec![n(200u8), n(now), n(max), n(protocol), l(vec![addr_tree(&fa)]), v[4].clone(), b(&chal), n(budget), cfg_tree(&sc), cfg_tree(&cc)]);
                self.record(resolved, l(vec![]));
            }
            201 => {
                // (201 k now protocol expire cid timeout addrmode user key)
                let (k, now, protocol, expire, cid) = (u(1).unwrap_or(0), u(2).unwrap_or(0), u(3).unwrap_or(0), u(4).unwrap_or(30), u(5).unwrap_or(1));
                let timeout = v.get(6).and_then(|t| t.as_l()).map(|z| { let m = z.get(1).and_then(|t| t.as_u64()).unwrap_or(0) as i64; if z.first().and_then(|t| t.as_u64()) == Some(1) { -m } else { m } }).unwrap_or(15) as i32;
                let mode = u(7).unwrap_or(0);
                let user = v.get(8).and_then(|t| t.as_b()).map(|x| x.to_vec()).unwrap_or_else(|| vec![0u8; 256]);
                let key = v.get(9).and_then(|t| t.as_b()).map(|x| x.to_vec()).unwrap_or_else(|| vec![0u8; 32]);
                if user.len() != 256 || key.len() != 32 {
                    self.comment("malformed token operation skipped");
                    return true;
                }
                let (fa, da) = (self.front_addr(), self.dead.local_addr().unwrap());
                let addrs = match mode { 0 => vec![fa], 1 => vec![da, fa], _ => vec![da] };
                let mut ud = [0u8; 256];
                ud.copy_from_slice(&user);
                let mut kk = [0u8; 32];
                kk.copy_from_slice(&key);
                let t = ConnectToken::generate(Duration::from_nanos(now), protocol, expire, cid, timeout, addrs.clone(), Some(&ud), &kk).expect("token");
                let mut bytes = vec![];
                t.write(&mut bytes).unwrap();
                let resolved = l(vec![n(201u8), n(k), n(now), n(protocol), n(expire), n(cid), z_tree(timeout as i64), l(addrs.iter().map(addr_tree).collect()), b(&user), b(&key), b(&t.xnonce), b(&t.client_to_server_key), b(&t.server_to_client_key)]);
                self.tokens.insert(k, t);
                self.record(resolved, l(vec![n(0u8), b(&bytes)]));
            }
            202 => {
                // (202 k now tk budget scfg rcfg)
                let (k, now, tk, budget) = (u(1).unwrap_or(0), u(2).unwrap_or(0), u(3).unwrap_or(0), u(4).unwrap_or(60000));
                let (sc, rc) = (v.get(5).and_then(parse_cfgs).unwrap_or_default(), v.get(6).and_then(parse_cfgs).unwrap_or_default());
                let token = match self.tokens.get(&tk) {
                    Some(t) => t.clone(),
                    None => {
                        self.comment("unknown token: skipped");
                        return true;
                    }
                };
                let sock = bind();
                let sock_addr = sock.local_addr().unwrap();
                let transport = match NetcodeClientTransport::new(Duration::from_nanos(now), ClientAuthentication::Secure { connect_token: token }, sock) {
                    Ok(t) => t,
                    Err(e) => {
                        self.record(Tree::L(v.to_vec()), l(vec![n(1u8), nerr_tree(&e)]));
                        return true;
                    }
                };
                let renet = RenetClient::new(ConnectionConfig { available_bytes_per_tick: budget, client_channels_config: to_channel_configs(&sc), server_channels_config: to_channel_configs(&rc) });
                if let Some(old) = self.clients.remove(&k) {
                    self.retired_sent.push((old.back.local_addr().unwrap(), old.sent));
                    self.old_backs.push(old.back);
                }
                self.clients.insert(k, TClient { transport, renet, sock_addr, back: bind(), out: vec![], inbox: vec![], sent: HashMap::new(), got: HashMap::new(), token: tk, explicit_disconnect: false });
                self.record(Tree::L(v.to_vec()), l(vec![n(0u8)]));
            }
            203 | 204 => {
                let k = u(1).unwrap_or(0);
                let dt = u(2).unwrap_or(0);
                let c = match self.clients.get_mut(&k) {
                    Some(c) => c,
                    None => {
                        self.comment("unknown client: skipped");
                        return true;
                    }
                };
                let renet_was_disconnected = c.renet.is_disconnected();
                let netcode_was_disconnected = c.transport.verif_netcode_client().is_disconnected();
                let reason_before = c.transport.disconnect_reason();
                let r = if code == 203 { c.transport.update(Duration::from_nanos(dt), &mut c.renet) } else { c.transport.send_packets(&mut c.renet) };
                let err = r.err();
                // C20: a disconnect decided by the message layer is pushed down by the next update, whatever the handshake state
                let layers_disagree = code == 203 && renet_was_disconnected && !c.transport.verif_netcode_client().is_disconnected();
                // and the other way round: a netcode session that has ended (refused, timed out, expired, closed by the server)
                // is pushed up by the next update, whether or not the message layer had ever been connected
                let not_pushed_up = code == 203 && netcode_was_disconnected && !c.renet.is_disconnected();
                let reason_after = c.transport.disconnect_reason();
                let both_gone_before = renet_was_disconnected && netcode_was_disconnected;
                if let Some(NetcodeTransportError::IO(e)) = &err {
                    // an OS level failure is outside the model: report it as a harness problem, not as a violation
                    self.comment(&format!("io error {}", e));
                }
                if not_pushed_up {
                    self.violate("C20", format!("client {}: the netcode layer was disconnected before NetcodeClientTransport::update and the message layer is still not disconnected after it", k));
                }
                if layers_disagree {
                    self.violate("C20", format!("client {}: the message layer was disconnected before NetcodeClientTransport::update and the netcode layer is still not disconnected after it", k));
                }
                let sent = self.pump_clients().remove(&k).unwrap_or_default();
                if sent.iter().any(|(bb, _)| bb.len() > 1400) {
                    self.violate("C13", format!("client {} sent a datagram above 1400 bytes", k));
                }
                // C12/C20: once both layers of a client are disconnected it stays silent and keeps its reason
                if both_gone_before {
                    if !sent.is_empty() {
                        self.violate("C12", format!("client {}: both layers were disconnected and the transport still sent {} datagram(s)", k, sent.len()));
                        self.violate("C20", format!("client {}: both layers were disconnected and the transport still sent {} datagram(s)", k, sent.len()));
                    }
                    if reason_before.is_some() && reason_before.map(crate::nexec::creason_tree) != reason_after.map(crate::nexec::creason_tree) {
                        self.violate("C12", format!("client {}: the reported disconnect reason changed from {:?} to {:?} after both layers were disconnected", k, reason_before, reason_after));
                        self.violate("C20", format!("client {}: the reported disconnect reason changed from {:?} to {:?} after both layers were disconnected", k, reason_before, reason_after));
                    }
                }
                let obs = l(vec![topt(err.as_ref().map(terr_tree)), l(sent.iter().map(|(bb, d)| l(vec![addr_tree(d), b(bb)])).collect())]);
                self.record(Tree::L(v.to_vec()), obs);
            }
            205 | 206 | 210 => {
                let dt = u(1).unwrap_or(0);
                let (t, rs) = match self.server.as_mut() {
                    Some(x) => x,
                    None => {
                        self.comment("no server: skipped");
                        return true;
                    }
                };
                match code {
                    205 => {
                        let _ = t.update(Duration::from_nanos(dt), rs);
                    }
                    206 => t.send_packets(rs),
                    _ => {
                        t.disconnect_all(rs);
                        self.explicit_server_disconnect = true;
                    }
                }
                let outs = self.pump_server();
                self.record(Tree::L(v.to_vec()), Self::dgrams_tree(&outs));
                if code == 205 {
                    self.check_lockstep();
                }
            }
            209 => {
                let k = u(1).unwrap_or(0);
                let c = match self.clients.get_mut(&k) {
                    Some(c) => c,
                    None => return true,
                };
                c.transport.disconnect();
                c.explicit_disconnect = true;
                let sent = self.pump_clients().remove(&k).unwrap_or_default();
                self.record(Tree::L(v.to_vec()), l(sent.iter().map(|(bb, d)| l(vec![addr_tree(d), b(bb)])).collect()));
            }
            250 | 251 | 252 | 253 | 254 => self.relay(code, v, u),
            260 => {
                let (k, rounds) = (u(1).unwrap_or(0), u(2).unwrap_or(3));
                let dt = u(3).unwrap_or(250_000_000);
                // C18 across the full stack: a handshake datagram the server sent to this client in one good round (a
                // challenge while the client asks, a keep-alive while it answers), sealed for its token and coming from the
                // address the client currently talks to, moves the handshake on at the client's next update
                let mut expect: Option<(u8, usize)> = None;
                for _ in 0..rounds {
                    expect = self.good_round(k, dt, expect);
                }
            }
            220 => {
                let (k, ch) = (u(1).unwrap_or(0), u(2).unwrap_or(0) as u8);
                let m = v.get(3).and_then(|t| t.as_b()).map(|x| x.to_vec()).unwrap_or_default();
                let c = match self.clients.get_mut(&k) { Some(c) => c, None => return true };
                let was = c.renet.is_disconnected();
                c.renet.send_message(ch, Bytes::from(m.clone()));
                if !was && !c.renet.is_disconnected() {
                    c.sent.entry(ch).or_default().push(m);
                }
                let st = status_tree(&c.renet);
                self.record(Tree::L(v.to_vec()), st);
            }
            221 => {
                let (k, ch) = (u(1).unwrap_or(0), u(2).unwrap_or(0) as u8);
                let c = match self.clients.get_mut(&k) { Some(c) => c, None => return true };
                let m = c.renet.receive_message(ch);
                if let Some(m) = &m {
                    c.got.entry(ch).or_default().push(m.to_vec());
                }
                self.record(Tree::L(v.to_vec()), topt(m.map(|m| b(&m))));
                self.check_client_got(k, ch);
            }
            222 | 223 | 224 | 225 | 226 | 227 | 229 | 230 | 233 => self.server_call(code, v, u),
            234 => {
                let k = u(1).unwrap_or(0);
                let obs = match self.clients.get(&k) {
                    Some(c) => l(vec![n(c.transport.client_id()), topt(c.transport.disconnect_reason().map(crate::nexec::creason_tree)), n(c.transport.time_since_last_received_packet().as_nanos() as u64)]),
                    None => unresolved_tree(),
                };
                self.record(Tree::L(v.to_vec()), obs);
            }
            228 => {
                let k = u(1).unwrap_or(0);
                let obs = match self.clients.get(&k) {
                    Some(c) => {
                        let mut w = NWorld::new();
                        // reuse the client state rendering of the netcode suite through a borrowed view
                        let st = client_state_of(c.transport.verif_netcode_client());
                        let _ = &mut w;
                        l(vec![status_tree(&c.renet), st])
                    }
                    None => unresolved_tree(),
                };
                self.record(Tree::L(v.to_vec()), obs);
            }
            232 => {
                // the application disconnects the message layer; the next transport update must push it down
                let k = u(1).unwrap_or(0);
                let c = match self.clients.get_mut(&k) { Some(c) => c, None => return true };
                c.renet.disconnect();
                c.explicit_disconnect = true;
                let st = status_tree(&c.renet);
                self.record(Tree::L(v.to_vec()), st);
            }
            231 => {
                let (k, dt) = (u(1).unwrap_or(0), u(2).unwrap_or(0));
                let c = match self.clients.get_mut(&k) { Some(c) => c, None => return true };
                c.renet.update(Duration::from_nanos(dt));
                let st = status_tree(&c.renet);
                self.record(Tree::L(v.to_vec()), st);
            }
            _ => {
                self.comment("unknown operation skipped");
            }
        }
        true
    }

    fn server_call(&mut self, code: u64, v: &[Tree], u: &dyn Fn(usize) -> Option<u64>) {
        let mut session_ids: Option<Vec<u64>> = None;
        let (t, rs) = match self.server.as_mut() {
            Some(x) => x,
            None => {
                self.comment("no server: skipped");
                return;
            }
        };
        let obs = match code {
            222 => {
                let (id, ch) = (u(1).unwrap_or(0), u(2).unwrap_or(0) as u8);
                let m = v.get(3).and_then(|t| t.as_b()).map(|x| x.to_vec()).unwrap_or_default();
                let live = rs.verif_connection(id).map(|c| !c.is_disconnected()).unwrap_or(false);
                rs.send_message(id, ch, Bytes::from(m.clone()));
                if live && rs.verif_connection(id).map(|c| !c.is_disconnected()).unwrap_or(false) {
                    self.srv_sent.entry((id, ch)).or_default().push(m);
                }
                l(vec![])
            }
            223 => {
                let ch = u(1).unwrap_or(0) as u8;
                let m = v.get(2).and_then(|t| t.as_b()).map(|x| x.to_vec()).unwrap_or_default();
                let live: Vec<u64> = rs.verif_connection_ids().into_iter().filter(|id| rs.verif_connection(*id).map(|c| !c.is_disconnected()).unwrap_or(false)).collect();
                rs.broadcast_message(ch, Bytes::from(m.clone()));
                for id in live {
                    if rs.verif_connection(id).map(|c| !c.is_disconnected()).unwrap_or(false) {
                        self.srv_sent.entry((id, ch)).or_default().push(m.clone());
                    }
                }
                l(vec![])
            }
            224 => {
                let (id, ch) = (u(1).unwrap_or(0), u(2).unwrap_or(0) as u8);
                let m = rs.receive_message(id, ch);
                if let Some(m) = &m {
                    self.srv_got.entry((id, ch)).or_default().push(m.to_vec());
                }
                topt(m.map(|m| b(&m)))
            }
            225 => {
                // every pending event; the disconnections one update produces for several clients come out of a hash map,
                // so each maximal run of consecutive disconnect events is listed by client id
                let mut evs: Vec<ServerEvent> = vec![];
                while let Some(e) = rs.get_event() {
                    evs.push(e);
                }
                for e in &evs {
                    let (id, is_conn) = match e {
                        ServerEvent::ClientConnected { client_id } => (*client_id, true),
                        ServerEvent::ClientDisconnected { client_id, .. } => (*client_id, false),
                    };
                    let cur = *self.ev_state.get(&id).unwrap_or(&false);
                    if is_conn == cur {
                        self.violate("C20", format!("events for client {} do not alternate (two {} in a row)", id, if is_conn { "connects" } else { "disconnects" }));
                        if is_conn {
                            self.violate("C11", format!("two sessions are connected under client id {}: what is sent to that id reaches one of them only, and what either of them sends is obtained under the same id", id));
                        }
                    }
                    self.ev_state.insert(id, is_conn);
                    if is_conn {
                        self.feat("event_connected");
                    } else {
                        self.feat("event_disconnected");
                    }
                }
                let mut out: Vec<Tree> = vec![];
                let mut run: Vec<(u64, Tree)> = vec![];
                for e in &evs {
                    match e {
                        ServerEvent::ClientConnected { client_id } => {
                            run.sort_by_key(|x| x.0);
                            out.extend(run.drain(..).map(|x| x.1));
                            out.push(l(vec![n(0u8), n(*client_id)]));
                        }
                        ServerEvent::ClientDisconnected { client_id, reason } => run.push((*client_id, l(vec![n(1u8), n(*client_id), reason_tree(*reason)]))),
                    }
                }
                run.sort_by_key(|x| x.0);
                out.extend(run.drain(..).map(|x| x.1));
                l(out)
            }
            226 => {
                rs.disconnect(u(1).unwrap_or(0));
                self.explicit_server_disconnect = true;
                l(vec![])
            }
            227 => {
                session_ids = Some(t.verif_netcode_server().clients_id());
                let mut a = rs.clients_id();
                a.sort_unstable();
                let mut d = rs.disconnections_id();
                d.sort_unstable();
                l(vec![nlist(&a), nlist(&d), nlist(&rs.verif_connection_ids()), NWorld::server_state_tree(t.verif_netcode_server())])
            }
            229 => {
                t.set_max_clients(u(1).unwrap_or(0) as usize);
                l(vec![])
            }
            233 => {
                let ids = t.verif_netcode_server().clients_id();
                session_ids = Some(ids.clone());
                l(vec![
                    nu(t.connected_clients()),
                    nu(t.max_clients()),
                    l(t.addresses().iter().map(addr_tree).collect()),
                    l(ids.iter().map(|id| l(vec![n(*id), topt(t.client_addr(*id).map(|a| addr_tree(&a))), topt(t.user_data(*id).map(|u| b(&u)))])).collect()),
                ])
            }
            _ => {
                rs.update(Duration::from_nanos(u(1).unwrap_or(0)));
                l(vec![])
            }
        };
        self.record(Tree::L(v.to_vec()), obs);
        if let Some(ids) = session_ids {
            self.check_one_session_per_id(ids);
        }
        if code == 224 {
            let (id, ch) = (u(1).unwrap_or(0), u(2).unwrap_or(0) as u8);
            self.check_server_got(id, ch);
        }
    }

    /// the netcode layer holds at most one session per client id: the message layer above has one connection per id
    fn check_one_session_per_id(&mut self, mut ids: Vec<u64>) {
        ids.sort_unstable();
        if let Some(w) = ids.windows(2).find(|w| w[0] == w[1]) {
            let id = w[0];
            for prop in ["C11", "C20", "C05"] {
                self.violate(prop, format!("two netcode sessions are connected under client id {}: the message layer has one connection for both, what is sent to that id reaches one of them only and what either sends is obtained under the same id", id));
            }
        }
    }

    fn relay(&mut self, code: u64, v: &[Tree], u: &dyn Fn(usize) -> Option<u64>) {
        let fa = self.front_addr();
        match code {
            250 => {
                // (250 k back kind a b): client k's datagram to the server, through the relay's socket for k
                let (k, back) = (u(1).unwrap_or(0), u(2).unwrap_or(0) as usize);
                let (kind, a, bb) = (u(3).unwrap_or(0), u(4).unwrap_or(0) as usize, u(5).unwrap_or(0));
                let (mut data, from) = match self.clients.get(&k) {
                    Some(c) if back < c.out.len() => (c.out[c.out.len() - 1 - back].0.clone(), c.back.local_addr().unwrap()),
                    _ => {
                        self.comment("datagram does not exist: skipped");
                        return;
                    }
                };
                Self::mutate(&mut data, kind, a, bb);
                if kind != 0 {
                    self.feat("relay_corrupts");
                }
                let server_addr = match self.server.as_ref() {
                    Some((t, _)) => t_socket_addr(t),
                    None => return,
                };
                let _ = self.clients[&k].back.send_to(&data, server_addr);
                self.feat("relay_to_server");
                self.record(l(vec![n(207u8), addr_tree(&from), b(&data)]), l(vec![]));
            }
            251 | 253 => {
                // (251 k back kind a b): server datagram for k to k; (253 k2 k back): ... to another client
                let (target, src, back, base) = if code == 251 { (u(1).unwrap_or(0), u(1).unwrap_or(0), u(2).unwrap_or(0) as usize, 3) } else { (u(1).unwrap_or(0), u(2).unwrap_or(0), u(3).unwrap_or(0) as usize, 4) };
                let (kind, a, bb) = (u(base).unwrap_or(0), u(base + 1).unwrap_or(0) as usize, u(base + 2).unwrap_or(0));
                let mut data = match self.clients.get(&src) {
                    Some(c) if back < c.inbox.len() => c.inbox[c.inbox.len() - 1 - back].clone(),
                    _ => {
                        self.comment("datagram does not exist: skipped");
                        return;
                    }
                };
                Self::mutate(&mut data, kind, a, bb);
                let dst = match self.clients.get(&target) {
                    Some(c) => c.sock_addr,
                    None => return,
                };
                let _ = self.front.send_to(&data, dst);
                self.feat("relay_to_client");
                self.record(l(vec![n(208u8), n(target), addr_tree(&fa), b(&data)]), l(vec![]));
            }
            252 => {
                let data = v.get(1).and_then(|t| t.as_b()).map(|x| x.to_vec()).unwrap_or_default();
                let server_addr = match self.server.as_ref() {
                    Some((t, _)) => t_socket_addr(t),
                    None => return,
                };
                let from = self.attacker.local_addr().unwrap();
                let _ = self.attacker.send_to(&data, server_addr);
                self.feat("attacker_to_server");
                self.record(l(vec![n(207u8), addr_tree(&from), b(&data)]), l(vec![]));
            }
            _ => {
                // (254 k xbytes): a datagram from a foreign source address to client k
                let k = u(1).unwrap_or(0);
                let data = v.get(2).and_then(|t| t.as_b()).map(|x| x.to_vec()).unwrap_or_default();
                let dst = match self.clients.get(&k) {
                    Some(c) => c.sock_addr,
                    None => return,
                };
                let from = self.attacker.local_addr().unwrap();
                let _ = self.attacker.send_to(&data, dst);
                self.record(l(vec![n(208u8), n(k), addr_tree(&from), b(&data)]), l(vec![]));
            }
        }
    }

    /// client tick + flush, everything relayed; server tick + flush, everything relayed back
    fn good_round(&mut self, k: u64, dt: u64, expect: Option<(u8, usize)>) -> Option<(u8, usize)> {
        if !self.clients.contains_key(&k) {
            return None;
        }
        let before = self.clients[&k].out.len();
        self.run_inner(203, &[n(203u8), n(k), n(dt)], &|i| [203u64, k, dt].get(i).copied());
        if let (Some((st0, idx0)), Some(c)) = (expect, self.clients.get(&k)) {
            let (st1, _, _, _, idx1, _) = c.transport.verif_netcode_client().verif_state();
            if st1 == st0 && idx1 == idx0 && !self.res.panicked {
                self.violate("C18", format!("client {} stays in handshake step {} although the server's {} reached its socket from the address it talks to: the handshake never completes at this address", k, st0, if st0 == 1 { "challenge" } else { "keep-alive" }));
                self.violate("C20", format!("the transport of client {} did not hand a handshake datagram from its current server address to the netcode client (step {} unchanged)", k, st0));
            }
        }
        self.run_inner(204, &[n(204u8), n(k)], &|i| [204u64, k].get(i).copied());
        let after = self.clients[&k].out.len();
        for i in before..after {
            let back = (after - 1 - i) as u64;
            self.relay(250, &[], &|j| [250u64, k, back, 0, 0, 0].get(j).copied());
        }
        let inbox_before = self.clients[&k].inbox.len();
        self.run_inner(205, &[n(205u8), n(dt)], &|i| [205u64, dt].get(i).copied());
        self.run_inner(206, &[n(206u8)], &|i| [206u64].get(i).copied());
        let inbox_after = self.clients[&k].inbox.len();
        for i in inbox_before..inbox_after {
            let back = (inbox_after - 1 - i) as u64;
            self.relay(251, &[], &|j| [251u64, k, back, 0, 0, 0].get(j).copied());
        }
        // what the next update of this client must achieve
        let fa = self.front_addr();
        let c = self.clients.get(&k)?;
        let nc = c.transport.verif_netcode_client();
        let (st, _, _, _, idx, _) = nc.verif_state();
        let token = self.tokens.get(&c.token)?;
        if (st != 1 && st != 2) || nc.server_addr() != fa {
            return None;
        }
        let wanted = if st == 1 { 2u8 } else { 4u8 };
        let arrived = c.inbox[inbox_before..inbox_after].iter().any(|d| {
            let mut copy = d.clone();
            d.first().map(|p| p & 15 == wanted).unwrap_or(false) && renetcode::verif::Packet::decode(&mut copy, token.protocol_id, Some(&token.server_to_client_key), None).is_ok()
        });
        if arrived { Some((st, idx)) } else { None }
    }

    /// C20: after every server transport update the message layer and the handshake layer list the same clients
    fn check_lockstep(&mut self) {
        let (t, rs) = match self.server.as_ref() {
            Some(x) => x,
            None => return,
        };
        let net: HashSet<u64> = t.verif_netcode_server().clients_id().into_iter().collect();
        let renet: HashSet<u64> = rs.verif_connection_ids().into_iter().collect();
        let still_disconnected = rs.disconnections_id();
        let fresh: Vec<u64> = renet.iter().filter(|id| !self.known_ids.contains(id)).copied().collect();
        self.known_ids = renet.clone();
        let now_secs = t.verif_netcode_server().current_time().as_secs();
        let mut expired_on_arrival: Vec<(u64, u64)> = vec![];
        for id in fresh {
            // a new session: what the server submitted to / obtained from an earlier session of this id does not count
            self.srv_sent.retain(|(i, _), _| *i != id);
            self.srv_got.retain(|(i, _), _| *i != id);
            // C05: the token of a session that has just been established has not expired on the server's clock (a half-open
            // session lives through the second its token expires in, so the comparison is strict)
            let addr = t.verif_netcode_server().client_addr(id);
            let token = self.clients.values().find(|c| Some(c.back.local_addr().unwrap()) == addr).and_then(|c| self.tokens.get(&c.token));
            if let Some(tok) = token {
                if tok.client_id == id && tok.expire_timestamp < now_secs {
                    expired_on_arrival.push((id, tok.expire_timestamp));
                }
            }
        }
        for (id, exp) in expired_on_arrival {
            self.violate("C05", format!("client {} was connected by an update that ends at second {} of the server's clock, its connect token expired at second {}", id, now_secs, exp));
            self.violate("C20", format!("the server transport judged the handshake of client {} on the clock of its previous update (token expiry {} s, clock now {} s)", id, exp, now_secs));
        }
        if net != renet {
            self.violate("C20", format!("after NetcodeServerTransport::update the netcode layer lists clients {:?} and the message layer {:?}", net, renet));
        }
        if !still_disconnected.is_empty() {
            self.violate("C20", format!("after NetcodeServerTransport::update the message layer still holds disconnected clients {:?}", still_disconnected));
        }
    }

    fn channel_type(cfg: &[ChanCfg], ch: u8) -> Option<u8> {
        cfg.iter().find(|c| c.id == ch).map(|c| c.ty)
    }

    /// the channel guarantees hold across the full stack (what the client obtained vs what the server submitted)
    fn session_addr(&self, id: u64) -> Option<SocketAddr> {
        self.server.as_ref().and_then(|(t, _)| t.verif_netcode_server().client_addr(id))
    }
    fn check_client_got(&mut self, k: u64, ch: u8) {
        let id = match self.clients.get(&k).and_then(|c| self.tokens.get(&c.token)).map(|t| t.client_id) {
            Some(i) => i,
            None => return,
        };
        // only while this client is the peer of the server's current session for that id
        if self.session_addr(id) != self.clients.get(&k).map(|c| c.back.local_addr().unwrap()) {
            return;
        }
        let ty = self.server_cfg.as_ref().and_then(|c| Self::channel_type(&c.0, ch));
        let got = self.clients[&k].got.get(&ch).cloned().unwrap_or_default();
        let sent = self.srv_sent.get(&(id, ch)).cloned().unwrap_or_default();
        self.check_channel("client", ty, &got, &sent);
    }
    fn check_server_got(&mut self, id: u64, ch: u8) {
        let ty = self.server_cfg.as_ref().and_then(|c| Self::channel_type(&c.1, ch));
        let got = self.srv_got.get(&(id, ch)).cloned().unwrap_or_default();
        let peer = match self.session_addr(id) {
            Some(a) => a,
            None => return,
        };
        let sent = self
            .clients
            .values()
            .find(|c| c.back.local_addr().unwrap() == peer)
            .map(|c| c.sent.get(&ch).cloned().unwrap_or_default())
            .or_else(|| self.retired_sent.iter().find(|(a, _)| *a == peer).map(|(_, m)| m.get(&ch).cloned().unwrap_or_default()))
            .unwrap_or_default();
        self.check_channel("server", ty, &got, &sent);
    }
    fn check_channel(&mut self, side: &str, ty: Option<u8>, got: &[Vec<u8>], sent: &[Vec<u8>]) {
        let last = match got.last() {
            Some(x) => x,
            None => return,
        };
        self.feat("message_across_stack");
        self.res.nontrivial = true;
        match ty {
            Some(1) => {
                let kk = got.len();
                if kk > sent.len() || &sent[kk - 1] != last {
                    self.violate("C20", format!("across the UDP stack the {} obtained message #{} of an ordered channel that is not the submitted one", side, kk));
                    self.violate("C01", format!("across the UDP stack the {} obtained message #{} of an ordered channel that is not the submitted one", side, kk));
                }
            }
            Some(2) => {
                let a = got.iter().filter(|m| *m == last).count();
                let bq = sent.iter().filter(|m| *m == last).count();
                if a > bq {
                    self.violate("C20", format!("across the UDP stack the {} obtained a reliable unordered message {} times, submitted {} times", side, a, bq));
                    self.violate("C02", format!("across the UDP stack the {} obtained a reliable unordered message {} times, submitted {} times", side, a, bq));
                }
            }
            _ => {
                if !sent.iter().any(|m| m == last) {
                    self.violate("C20", format!("across the UDP stack the {} obtained an unreliable message that was never submitted", side));
                    self.violate("C03", format!("across the UDP stack the {} obtained an unreliable message that was never submitted", side));
                }
            }
        }
    }

    fn after_step(&mut self) {
        // interference by the relay never disconnects the message layer with a protocol error
        let mut bad: Vec<String> = vec![];
        for (k, c) in self.clients.iter() {
            if let Some(r) = c.renet.disconnect_reason() {
                use renet::DisconnectReason::*;
                match r {
                    PacketDeserialization(_) | ReceivedInvalidChannelId(_) | ReceiveChannelError { .. } | PacketSerialization(_) => bad.push(format!("client {} disconnected with {:?}", k, r)),
                    _ => {}
                }
            }
        }
        if let Some((_, rs)) = self.server.as_ref() {
            for id in rs.verif_connection_ids() {
                if let Some(r) = rs.disconnect_reason(id) {
                    use renet::DisconnectReason::*;
                    match r {
                        PacketDeserialization(_) | ReceivedInvalidChannelId(_) | ReceiveChannelError { .. } | PacketSerialization(_) => bad.push(format!("server side of client {} disconnected with {:?}", id, r)),
                        _ => {}
                    }
                }
            }
        }
        if !self.hostile_payload {
            for m in bad {
                self.violate("C20", format!("datagram interference reached the message layer: {}", m));
            }
        }
    }

    pub fn finish(mut self) -> RunResult {
        std::mem::take(&mut self.res)
    }
}

fn t_socket_addr(t: &NetcodeServerTransport) -> SocketAddr {
    t.verif_socket_addr()
}

fn client_state_of(c: &renetcode::NetcodeClient) -> Tree {
    let (state, seq, last_recv, last_send, idx, chal) = c.verif_state();
    let creason = |r: renetcode::DisconnectReason| -> Tree {
        n(match r {
            renetcode::DisconnectReason::ConnectTokenExpired => 0u8,
            renetcode::DisconnectReason::ConnectionTimedOut => 1,
            renetcode::DisconnectReason::ConnectionResponseTimedOut => 2,
            renetcode::DisconnectReason::ConnectionRequestTimedOut => 3,
            renetcode::DisconnectReason::ConnectionDenied => 4,
            renetcode::DisconnectReason::DisconnectedByClient => 5,
            renetcode::DisconnectReason::DisconnectedByServer => 6,
        })
    };
    let st = if state == 0 { l(vec![n(0u8), creason(c.disconnect_reason().unwrap())]) } else { l(vec![n(state)]) };
    let ns = |d: Duration| Tree::N(d.as_nanos());
    let since = match catch_unwind(AssertUnwindSafe(|| c.time_since_last_received_packet())) {
        Ok(d) => l(vec![n(0u8), ns(d)]),
        Err(_) => panic_tree(),
    };
    l(vec![st, n(seq), ns(last_recv), topt(last_send.map(ns)), nu(idx), n(chal), addr_tree(&c.server_addr()), ns(c.current_time()), n(c.client_id()), since])
}

pub fn run_history(ops: &[Tree]) -> RunResult {
    let mut h = THistory::new();
    for op in ops {
        if !h.run_op(op) {
            break;
        }
    }
    h.finish()
}
