(* TDriver.v - executable world for the transport correspondence suite (opcodes >= 200). *)
From RenetV Require Import Base Consts Tree Varint Packet Channels Conn Server RDriver.
From RenetV Require Import Aead NPacket Token NServer NClient NDriver Transport.
Open Scope N_scope.

Record tworld := {
  tw_server : option (tserver * server);
  tw_clients : list (N * (tclient * conn));
  tw_tokens : list (N * connect_token);
}.
Definition tworld0 : tworld := {| tw_server := None; tw_clients := []; tw_tokens := [] |}.

Definition t_terr (e : terr) : tree :=
  match e with
  | TENetcodeDisconnected r => TL [TN 0; t_creason r]
  | TERenet r => TL [TN 1; t_reason r]
  | TENetcode e => TL [TN 2; t_nerr e]
  end.

Definition t_addrs_list (l : list addr) : tree := TL (map t_addr l).

Definition ev_id (e : event) : N := match e with EvConnected id => id | EvDisconnected id _ => id end.
Fixpoint insert_ev (e : event) (run : list event) : list event :=
  match run with
  | [] => [e]
  | h :: t => if ev_id h <=? ev_id e then h :: insert_ev e t else e :: run
  end.
Fixpoint canon_events (l run : list event) : list event :=
  match l with
  | [] => run
  | e :: t =>
      match e with
      | EvDisconnected _ _ => canon_events t (insert_ev e run)
      | EvConnected _ => run ++ e :: canon_events t []
      end
  end.

Definition t_dgrams (l : list dgram) : tree := TL (map (fun ab => TL [t_addr (fst ab); TB (snd ab)]) l).

(* canonical order of what the server sent: by destination, per destination in emission order *)
Fixpoint insert_dgram (x : dgram) (l : list dgram) : list dgram :=
  match l with
  | [] => [x]
  | y :: t => if addr_ltb (fst y) (fst x) then y :: insert_dgram x t else x :: l
  end.
Definition sort_dgrams (l : list dgram) : list dgram := fold_right insert_dgram [] l.

Definition with_server (w : tworld) (x : tserver * server) : tworld :=
  {| tw_server := Some x; tw_clients := tw_clients w; tw_tokens := tw_tokens w |}.
Definition with_client (w : tworld) (k : N) (x : tclient * conn) : tworld :=
  {| tw_server := tw_server w; tw_clients := aput k x (tw_clients w); tw_tokens := tw_tokens w |}.

Definition on_ts (w : tworld) (f : tserver -> server -> tres (tserver * server * tree)) : tworld * tree :=
  match tw_server w with
  | None => (w, T_UNRESOLVED)
  | Some (t, rs) =>
      match f t rs with
      | Ok (t', rs', o) => (with_server w (t', rs'), o)
      | Err _ => (w, T_PANIC)
      | Panic _ => (w, T_PANIC)
      end
  end.

Definition on_tc (w : tworld) (k : N) (f : tclient -> conn -> tres (tclient * conn * tree)) : tworld * tree :=
  match afind k (tw_clients w) with
  | None => (w, T_UNRESOLVED)
  | Some (t, rc) =>
      match f t rc with
      | Ok (t', rc', o) => (with_client w k (t', rc'), o)
      | Err _ => (w, T_PANIC)
      | Panic _ => (w, T_PANIC)
      end
  end.

Definition tstep (w : tworld) (op : tree) : tworld * tree :=
  match op with
  | TL [TN 200; TN now; TN max; TN protocol; TL addrs; key; TB chal; TN budget; TL scfg; TL ccfg] =>
      match d_addrs addrs, d_optb key, d_cfgs scfg, d_cfgs ccfg with
      | Some al, Some k, Some sc, Some cc =>
          match nserver_new now max protocol al k chal with
          | Ok s => (with_server w ({| ts_net := s; ts_in := [] |}, server_new budget sc cc), TL [])
          | _ => (w, T_PANIC)
          end
      | _, _, _, _ => (w, T_BAD_OP)
      end
  | TL [TN 201; TN k; TN now; TN protocol; TN expire_secs; TN cid; tz; TL addrs; TB user; TB key; TB xnonce; TB c2s; TB s2c] =>
      match d_addrs addrs, d_z tz with
      | Some al, Some timeout =>
          match token_generate now protocol expire_secs cid timeout al user key xnonce c2s s2c with
          | Ok t => ({| tw_server := tw_server w; tw_clients := tw_clients w; tw_tokens := aput k t (tw_tokens w) |},
                     TL [TN 0; TB (token_write t)])
          | Err e => (w, TL [TN 1; t_nerr e])
          | Panic _ => (w, T_PANIC)
          end
      | _, _ => (w, T_BAD_OP)
      end
  | TL [TN 202; TN k; TN now; TN tk; TN budget; TL scfg; TL rcfg] =>
      match afind tk (tw_tokens w), d_cfgs scfg, d_cfgs rcfg with
      | Some t, Some sc, Some rc =>
          match nclient_new now t, conn_new budget sc rc with
          | Ok c, Ok r => (with_client w k ({| tc_net := c; tc_in := [] |}, r), TL [TN 0])
          | Err e, _ => (w, TL [TN 1; t_nerr e])
          | _, _ => (w, T_PANIC)
          end
      | None, _, _ => (w, T_UNRESOLVED)
      | _, _, _ => (w, T_BAD_OP)
      end
  | TL [TN 203; TN k; TN dt] =>
      on_tc w k (fun t rc => do x <- tclient_update t rc dt; let '(t', rc', outs, e) := x in
                             Ok (t', rc', TL [topt t_terr e; t_dgrams outs]))
  | TL [TN 204; TN k] =>
      on_tc w k (fun t rc => do x <- tclient_send t rc; let '(t', rc', outs, e) := x in
                             Ok (t', rc', TL [topt t_terr e; t_dgrams outs]))
  | TL [TN 205; TN dt] =>
      on_ts w (fun t rs => do x <- tserver_update t rs dt; let '(t', rs', outs) := x in Ok (t', rs', t_dgrams (sort_dgrams outs)))
  | TL [TN 206] =>
      on_ts w (fun t rs => do x <- tserver_send t rs; let '(t', rs', outs) := x in Ok (t', rs', t_dgrams (sort_dgrams outs)))
  | TL [TN 207; a; TB bytes] =>
      match d_addr a with
      | Some a => on_ts w (fun t rs => Ok ({| ts_net := ts_net t; ts_in := ts_in t ++ [(a, bytes)] |}, rs, TL []))
      | None => (w, T_BAD_OP)
      end
  | TL [TN 208; TN k; a; TB bytes] =>
      match d_addr a with
      | Some a => on_tc w k (fun t rc => Ok ({| tc_net := tc_net t; tc_in := tc_in t ++ [(a, bytes)] |}, rc, TL []))
      | None => (w, T_BAD_OP)
      end
  | TL [TN 209; TN k] =>
      on_tc w k (fun t rc => do x <- tclient_disconnect t; let (t', outs) := x in Ok (t', rc, t_dgrams outs))
  | TL [TN 210] =>
      on_ts w (fun t rs => do x <- tserver_disconnect_all t rs; let '(t', rs', outs) := x in Ok (t', rs', t_dgrams (sort_dgrams outs)))
  (* message-layer calls on the objects the transports drive *)
  | TL [TN 220; TN k; TN ch; TB m] =>
      on_tc w k (fun t rc => do rc' <- of_pres (send_message rc ch m); Ok (t, rc', t_status (c_status rc')))
  | TL [TN 221; TN k; TN ch] =>
      on_tc w k (fun t rc => do x <- of_pres (receive_message rc ch); let (rc', m) := x in Ok (t, rc', topt TB m))
  | TL [TN 222; TN id; TN ch; TB m] =>
      on_ts w (fun t rs => do rs' <- of_pres (srv_send_message rs id ch m); Ok (t, rs', TL []))
  | TL [TN 223; TN ch; TB m] =>
      on_ts w (fun t rs => do rs' <- of_pres (broadcast_message rs ch m); Ok (t, rs', TL []))
  | TL [TN 224; TN id; TN ch] =>
      on_ts w (fun t rs => do x <- of_pres (srv_receive_message rs id ch); let (rs', m) := x in Ok (t, rs', topt TB m))
  (* every pending event; disconnections of several clients produced by one update come out of a hash map in the
     library, so each maximal run of consecutive disconnect events is listed by client id *)
  | TL [TN 225] =>
      on_ts w (fun t rs => Ok (t, with_events rs [], TL (map t_event (canon_events (s_events rs) []))))
  | TL [TN 226; TN id] => on_ts w (fun t rs => Ok (t, srv_disconnect rs id, TL []))
  | TL [TN 227] =>
      on_ts w (fun t rs => Ok (t, rs, TL [tn_list (Server.clients_id rs); tn_list (Server.disconnections_id rs);
                                           tn_list (map fst (s_conns rs)); t_server_state (ts_net t)]))
  | TL [TN 228; TN k] =>
      on_tc w k (fun t rc => Ok (t, rc, TL [t_status (c_status rc); t_client_state (tc_net t)]))
  | TL [TN 229; TN m] =>
      on_ts w (fun t rs => Ok ({| ts_net := set_max_clients (ts_net t) m; ts_in := ts_in t |}, rs, TL []))
  | TL [TN 230; TN dt] => on_ts w (fun t rs => do rs' <- of_pres (srv_update rs dt); Ok (t, rs', TL []))
  (* the transports' own getters *)
  | TL [TN 233] =>
      on_ts w (fun t rs => let s := ts_net t in
        Ok (t, rs, TL [TN (connected_count s); TN (ns_max s); t_addrs_list (ns_addrs s);
                       TL (map (fun id => TL [TN id; topt t_addr (NServer.client_addr s id); topt TB (NServer.user_data s id)])
                               (NServer.clients_id s))]))
  | TL [TN 234; TN k] =>
      on_tc w k (fun t rc => let c := tc_net t in
        Ok (t, rc, TL [TN (ct_client_id (cl_token c)); topt t_creason (NClient.disconnect_reason c); TN (cl_now c - cl_last_recv c)]))
  | TL [TN 232; TN k] => on_tc w k (fun t rc => let rc' := Conn.disconnect rc in Ok (t, rc', t_status (c_status rc')))
  | TL [TN 231; TN k; TN dt] => on_tc w k (fun t rc => do rc' <- of_pres (update rc dt); Ok (t, rc', t_status (c_status rc')))
  | _ => (w, T_BAD_OP)
  end.
