(* Transport.v - renet_netcode/src/{server,client}.rs: the glue between the message layer
   (RenetServer / RenetClient) and the handshake layer (NetcodeServer / NetcodeClient).
   A UDP socket is a queue of (source address, bytes); what the kernel does (buffering,
   WouldBlock, ICMP errors, scheduling) is not modelled. *)
From RenetV Require Import Base Consts Varint Packet Channels Conn Server.
From RenetV Require Import Aead NPacket Token NServer NClient.
Open Scope N_scope.

Definition dgram := (addr * list N)%type.

Inductive terr :=
| TENetcodeDisconnected (r : creason)      (* NetcodeTransportError::Netcode(Disconnected(reason)) *)
| TERenet (r : Conn.reason)                (* NetcodeTransportError::Renet(reason) *)
| TENetcode (e : nerr).

Definition tres := res terr.

Definition of_pres {A} (r : pres A) : tres A :=
  match r with Ok a => Ok a | Err _ => Panic SITE_IMPOSSIBLE_ERR | Panic p => Panic p end.
Definition of_nres {A} (r : nres A) : tres A :=
  match r with Ok a => Ok a | Err e => Err (TENetcode e) | Panic p => Panic p end.

(* the transports' receive buffer *)
Definition recv_trunc (b : list N) : list N := takeN NC_MAX_PACKET_BYTES b.

(* ---------------- server ---------------- *)
Record tserver := { ts_net : nserver; ts_in : list dgram }.

Definition handle_server_result (r : sresult) (rs : server) (outs : list dgram) : tres (server * list dgram) :=
  match r with
  | SRNone => Ok (rs, outs)
  | SRPacketToSend a p => Ok (rs, outs ++ [(a, p)])
  | SRPayload id p => do x <- of_pres (process_packet_from rs p id); Ok (fst x, outs)
  | SRConnected id a _ p => do rs' <- of_pres (add_connection rs id); Ok (rs', outs ++ [(a, p)])
  | SRDisconnected id a p =>
      let rs' := remove_connection rs id in
      Ok (rs', match p with Some b => outs ++ [(a, b)] | None => outs end)
  end.

Fixpoint recv_loop (net : nserver) (rs : server) (q : list dgram) (outs : list dgram) : tres (nserver * server * list dgram) :=
  match q with
  | [] => Ok (net, rs, outs)
  | (a, b) :: t =>
      do x <- of_nres (NServer.process_packet net a (recv_trunc b));
      let (net', r) := x in
      do y <- handle_server_result r rs outs;
      let (rs', outs') := y in
      recv_loop net' rs' t outs'
  end.

Fixpoint update_clients (ids : list N) (net : nserver) (rs : server) (outs : list dgram) : tres (nserver * server * list dgram) :=
  match ids with
  | [] => Ok (net, rs, outs)
  | id :: t =>
      do x <- of_nres (update_client net id);
      let (net', r) := x in
      do y <- handle_server_result r rs outs;
      let (rs', outs') := y in
      update_clients t net' rs' outs'
  end.

Fixpoint disconnect_clients (ids : list N) (net : nserver) (rs : server) (outs : list dgram) : tres (nserver * server * list dgram) :=
  match ids with
  | [] => Ok (net, rs, outs)
  | id :: t =>
      do x <- of_nres (nserver_disconnect net id);
      let (net', r) := x in
      do y <- handle_server_result r rs outs;
      let (rs', outs') := y in
      disconnect_clients t net' rs' outs'
  end.

(* NetcodeServerTransport::update *)
Definition tserver_update (t : tserver) (rs : server) (dt : N) : tres (tserver * server * list dgram) :=
  let net0 := nserver_update (ts_net t) dt in
  do a <- recv_loop net0 rs (ts_in t) [];
  let '(net1, rs1, o1) := a in
  do b <- update_clients (NServer.clients_id net1) net1 rs1 o1;
  let '(net2, rs2, o2) := b in
  do c <- disconnect_clients (Server.disconnections_id rs2) net2 rs2 o2;
  let '(net3, rs3, o3) := c in
  Ok ({| ts_net := net3; ts_in := [] |}, rs3, o3).

(* per client: packets are sealed one by one; the first failure skips the rest of that client *)
Fixpoint seal_all (net : nserver) (id : N) (pk : list (list N)) (outs : list dgram) : tres (nserver * list dgram) :=
  match pk with
  | [] => Ok (net, outs)
  | p :: t =>
      match generate_payload_packet net id p with
      | (net', Ok (a, d)) => seal_all net' id t (outs ++ [(a, d)])
      | (net', Err _) => Ok (net', outs)
      | (_, Panic s) => Panic s
      end
  end.

Fixpoint send_clients (ids : list N) (net : nserver) (rs : server) (outs : list dgram) : tres (nserver * server * list dgram) :=
  match ids with
  | [] => Ok (net, rs, outs)
  | id :: t =>
      do x <- of_pres (srv_get_packets_to_send rs id);
      let (rs', pk) := x in
      match pk with
      | None => Panic SITE_ORDER_UNWRAP      (* get_packets_to_send(client_id).unwrap() *)
      | Some pk =>
          do y <- seal_all net id pk outs;
          let (net', outs') := y in
          send_clients t net' rs' outs'
      end
  end.

(* NetcodeServerTransport::send_packets *)
Definition tserver_send (t : tserver) (rs : server) : tres (tserver * server * list dgram) :=
  do x <- send_clients (Server.clients_id rs) (ts_net t) rs [];
  let '(net', rs', outs) := x in
  Ok ({| ts_net := net'; ts_in := ts_in t |}, rs', outs).

(* NetcodeServerTransport::disconnect_all *)
Definition tserver_disconnect_all (t : tserver) (rs : server) : tres (tserver * server * list dgram) :=
  do x <- disconnect_clients (NServer.clients_id (ts_net t)) (ts_net t) rs [];
  let '(net', rs', outs) := x in
  Ok ({| ts_net := net'; ts_in := ts_in t |}, rs', outs).

(* ---------------- client ---------------- *)
Record tclient := { tc_net : nclient; tc_in : list dgram }.

Fixpoint client_recv_loop (net : nclient) (rc : conn) (q : list dgram) : tres (nclient * conn) :=
  match q with
  | [] => Ok (net, rc)
  | (a, b) :: t =>
      if negb (addr_eqb a (cl_server_addr net)) then client_recv_loop net rc t else
      let (net', o) := nclient_process_packet net (recv_trunc b) in
      match o with
      | Some payload => do rc' <- of_pres (Conn.process_packet rc payload); client_recv_loop net' rc' t
      | None => client_recv_loop net' rc t
      end
  end.

(* result of a transport call: the new states, what was sent, and Ok / the error it returned *)
Definition tclient_update (t : tclient) (rc : conn) (dt : N) : tres (tclient * conn * list dgram * option terr) :=
  match NClient.disconnect_reason (tc_net t) with
  | Some r => Ok (t, disconnect_transport rc, [], Some (TENetcodeDisconnected r))
  | None =>
      match Conn.disconnect_reason rc with
      | Some e =>
          match nclient_disconnect (tc_net t) with
          | (net', Ok (a, d)) => Ok ({| tc_net := net'; tc_in := tc_in t |}, rc, [(a, d)], Some (TERenet e))
          | (net', Err x) => Ok ({| tc_net := net'; tc_in := tc_in t |}, rc, [], Some (TENetcode x))
          | (_, Panic s) => Panic s
          end
      | None =>
          let rc1 := if NClient.is_connected (tc_net t) then set_connected rc
                     else if NClient.is_connecting (tc_net t) then set_connecting rc else rc in
          do x <- client_recv_loop (tc_net t) rc1 (tc_in t);
          let (net1, rc2) := x in
          do y <- of_nres (nclient_update net1 dt);
          let (net2, o) := y in
          Ok ({| tc_net := net2; tc_in := [] |}, rc2,
              match o with Some (d, a) => [(a, d)] | None => [] end, None)
      end
  end.

Fixpoint client_seal_all (net : nclient) (pk : list (list N)) (outs : list dgram) : tres (nclient * list dgram * option terr) :=
  match pk with
  | [] => Ok (net, outs, None)
  | p :: t =>
      match nclient_generate_payload net p with
      | (net', Ok (a, d)) => client_seal_all net' t (outs ++ [(a, d)])
      | (net', Err e) => Ok (net', outs, Some (TENetcode e))
      | (_, Panic s) => Panic s
      end
  end.

Definition tclient_send (t : tclient) (rc : conn) : tres (tclient * conn * list dgram * option terr) :=
  match NClient.disconnect_reason (tc_net t) with
  | Some r => Ok (t, rc, [], Some (TENetcodeDisconnected r))
  | None =>
      do x <- of_pres (get_packets_to_send rc);
      let (rc', pk) := x in
      do y <- client_seal_all (tc_net t) pk [];
      let '(net', outs, e) := y in
      Ok ({| tc_net := net'; tc_in := tc_in t |}, rc', outs, e)
  end.

Definition tclient_disconnect (t : tclient) : tres (tclient * list dgram) :=
  if NClient.is_disconnected (tc_net t) then Ok (t, []) else
  match nclient_disconnect (tc_net t) with
  | (net', Ok (a, d)) => Ok ({| tc_net := net'; tc_in := tc_in t |}, [(a, d)])
  | (net', Err _) => Ok ({| tc_net := net'; tc_in := tc_in t |}, [])
  | (_, Panic s) => Panic s
  end.
