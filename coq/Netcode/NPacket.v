(* NPacket.v - renetcode/src/{replay_protection,packet}.rs: replay window, prefix/sequence
   framing, the seven packet kinds, challenge tokens. *)
From RenetV Require Import Base Consts Aead.
Open Scope N_scope.

Inductive creason :=
| CRTokenExpired | CRTimedOut | CRResponseTimedOut | CRRequestTimedOut
| CRDenied | CRByClient | CRByServer.

Inductive nerr :=
| EUnavailablePrivateKey | EInvalidPacketType | EInvalidProtocolID | EInvalidVersion
| EPacketTooSmall | EPayloadAboveLimit | EDuplicatedSequence | ENoMoreServers | EExpired
| EDisconnected (r : creason) | ECryptoError | ENotInHostList | EClientNotFound
| EClientNotConnected | EIoError | ETokenGeneration.

Definition nres := res nerr.

Definition SITE_N_DURATION_SUB : N := 40.
Definition SITE_N_UNREACHABLE : N := 41.
Definition SITE_N_PENDING_UNWRAP : N := 42.
Definition SITE_N_NO_SERVER_ADDR : N := 43.
Definition SITE_N_SLOT_INDEX : N := 44.
Definition SITE_N_MAX_CLIENTS : N := 45.

Definition NS_PER_SEC : N := 1000000000.
Definition as_secs (t : N) : N := t / NS_PER_SEC.

Definition le64 (v : N) : list N := le_bytes 8 v.
Definition le32 (v : N) : list N := le_bytes 4 v.
Definition le16 (v : N) : list N := le_bytes 2 v.
Definition zeros (n : N) : list N := repeatN 0 (N.to_nat n).

(* ------------------------------------------------------------------ *)
(* ReplayProtection: 256 slots, EMPTY = u64::MAX *)
Record replay := { rp_most_recent : N; rp_slots : list N }.

Definition replay_new : replay :=
  {| rp_most_recent := 0; rp_slots := repeatN U64MAX (N.to_nat NC_REPLAY_SIZE) |}.

Definition already_received (r : replay) (s : N) : bool :=
  if (NC_REPLAY_SIZE <=? rp_most_recent r) && (s <=? rp_most_recent r - NC_REPLAY_SIZE) then true
  else
    let v := nth (N.to_nat (s mod NC_REPLAY_SIZE)) (rp_slots r) U64MAX in
    if v =? U64MAX then false else s <=? v.

Definition advance_sequence (r : replay) (s : N) : replay :=
  {| rp_most_recent := if rp_most_recent r <? s then s else rp_most_recent r;
     rp_slots := upd (rp_slots r) (N.to_nat (s mod NC_REPLAY_SIZE)) s |}.

(* ------------------------------------------------------------------ *)
Inductive npacket :=
| PRequest (version : list N) (protocol expire : N) (xnonce data : list N)
| PDenied
| PChallenge (tseq : N) (tdata : list N)
| PResponse (tseq : N) (tdata : list N)
| PKeepAlive (client_index max_clients : N)
| PPayload (p : list N)
| PDisconnect.

Definition packet_id (p : npacket) : N :=
  match p with
  | PRequest _ _ _ _ _ => 0 | PDenied => 1 | PChallenge _ _ => 2 | PResponse _ _ => 3
  | PKeepAlive _ _ => 4 | PPayload _ => 5 | PDisconnect => 6
  end.

Definition applies_replay (ty : N) : bool := (ty =? 4) || (ty =? 5) || (ty =? 6).

(* number of bytes needed for a sequence: 0 for 0 *)
Fixpoint seq_bytes_fuel (fuel : nat) (s : N) : N :=
  match fuel with
  | O => 0
  | S f => if s =? 0 then 0 else 1 + seq_bytes_fuel f (s / 256)
  end.
Definition sequence_bytes_required (s : N) : N := seq_bytes_fuel 8 (s mod U64).

Definition encode_prefix (id s : N) : N := id + 16 * sequence_bytes_required s.

Definition nonce_of (s : N) : list N := [0; 0; 0; 0] ++ le64 s.
Definition packet_aad (prefix protocol : N) : list N := NC_VERSION_INFO ++ le64 protocol ++ [prefix].

Definition packet_body (p : npacket) : list N :=
  match p with
  | PRequest v protocol expire xn data => v ++ le64 protocol ++ le64 expire ++ xn ++ data
  | PChallenge ts td | PResponse ts td => le64 ts ++ td
  | PKeepAlive ci mc => le32 ci ++ le32 mc
  | PPayload b => b
  | PDenied | PDisconnect => []
  end.

(* Packet::encode into a buffer of cap bytes *)
Definition encode (cap : N) (p : npacket) (protocol : N) (crypto : option (N * list N)) : nres (list N) :=
  match p with
  | PRequest _ _ _ _ _ =>
      let out := [encode_prefix 0 0] ++ packet_body p in
      if cap <? len out then Err EIoError else Ok out
  | _ =>
      match crypto with
      | None => Err EUnavailablePrivateKey
      | Some (s, key) =>
          let prefix := encode_prefix (packet_id p) s in
          let head := [prefix] ++ le_bytes (N.to_nat (sequence_bytes_required s)) s in
          let body := packet_body p in
          if cap <? len head + len body + NC_MAC_BYTES then Err EIoError
          else Ok (head ++ aead_seal key (nonce_of s) (packet_aad prefix protocol) body)
      end
  end.

(* Packet::read *)
Definition read_packet (ty : N) (src : list N) : nres npacket :=
  match ty with
  | 5 => Ok (PPayload src)
  | 0 =>
      if len src <? 13 + 8 + 8 + NC_XNONCE_BYTES + NC_PRIVATE_BYTES then Err EIoError else
      let v := takeN 13 src in
      let r1 := dropN 13 src in
      let protocol := le_val (takeN 8 r1) in
      let r2 := dropN 8 r1 in
      let expire := le_val (takeN 8 r2) in
      let r3 := dropN 8 r2 in
      Ok (PRequest v protocol expire (takeN NC_XNONCE_BYTES r3) (takeN NC_PRIVATE_BYTES (dropN NC_XNONCE_BYTES r3)))
  | 2 =>
      if len src <? 8 + NC_CHALLENGE_BYTES then Err EIoError
      else Ok (PChallenge (le_val (takeN 8 src)) (takeN NC_CHALLENGE_BYTES (dropN 8 src)))
  | 3 =>
      if len src <? 8 + NC_CHALLENGE_BYTES then Err EIoError
      else Ok (PResponse (le_val (takeN 8 src)) (takeN NC_CHALLENGE_BYTES (dropN 8 src)))
  | 4 =>
      if len src <? 8 then Err EIoError
      else Ok (PKeepAlive (le_val (takeN 4 src)) (le_val (takeN 4 (dropN 4 src))))
  | 1 => Ok PDenied
  | 6 => Ok PDisconnect
  | _ => Err EInvalidPacketType
  end.

(* Packet::decode; the replay window is passed by &mut: it is returned whatever the result *)
Definition decode (buf : list N) (protocol : N) (key : option (list N)) (rp : option replay)
  : option replay * nres (N * npacket) :=
  if len buf <? 2 + NC_MAC_BYTES then (rp, Err EPacketTooSmall) else
  match buf with
  | [] => (rp, Err EPacketTooSmall)
  | prefix :: rest =>
      let ty := prefix mod 16 in
      let seqlen := prefix / 16 in
      if 6 <? ty then (rp, Err EInvalidPacketType) else
      if ty =? 0 then (rp, do p <- read_packet 0 rest; Ok (0, p)) else
      match key with
      | None => (rp, Err EUnavailablePrivateKey)
      | Some key =>
          if 8 <? seqlen then (rp, Err EIoError) else
          if len rest <? seqlen then (rp, Err EIoError) else
          let s := le_val (takeN seqlen rest) in
          let body := dropN seqlen rest in
          if len body <? NC_MAC_BYTES then (rp, Err EPacketTooSmall) else
          let dup := match rp with
                     | Some r => applies_replay ty && already_received r s
                     | None => false
                     end in
          if dup then (rp, Err EDuplicatedSequence) else
          match aead_open key (nonce_of s) (packet_aad prefix protocol) body with
          | None => (rp, Err ECryptoError)
          | Some plain =>
              let rp' := match rp with
                         | Some r => if applies_replay ty then Some (advance_sequence r s) else Some r
                         | None => None
                         end in
              (rp', do p <- read_packet ty plain; Ok (s, p))
          end
      end
  end.

(* ------------------------------------------------------------------ *)
(* ChallengeToken *)
Definition challenge_plain (client_id : N) (user_data : list N) : list N :=
  let body := le64 client_id ++ user_data in
  body ++ zeros (NC_CHALLENGE_BYTES - NC_MAC_BYTES - len body).

Definition generate_challenge (client_id : N) (user_data : list N) (cseq : N) (ckey : list N) : npacket :=
  PChallenge cseq (aead_seal ckey (nonce_of cseq) [] (challenge_plain client_id user_data)).

(* returns (client_id, user_data) *)
Definition challenge_decode (tdata : list N) (tseq : N) (ckey : list N) : nres (N * list N) :=
  match aead_open ckey (nonce_of tseq) [] tdata with
  | None => Err ECryptoError
  | Some plain =>
      if len plain <? 8 + NC_USER_DATA_BYTES then Err EIoError
      else Ok (le_val (takeN 8 plain), takeN NC_USER_DATA_BYTES (dropN 8 plain))
  end.
