(* NClient.v - renetcode/src/client.rs (NetcodeClient) *)
From RenetV Require Import Base Consts Aead NPacket Token.
Open Scope N_scope.

Inductive cstate := CDisconnected (r : creason) | CSendingRequest | CSendingResponse | CConnected.

Record nclient := {
  cl_state : cstate;
  cl_id : N;
  cl_connect_start : N;
  cl_last_send : option N;
  cl_last_recv : N;
  cl_now : N;
  cl_seq : N;
  cl_server_addr : addr;
  cl_addr_index : N;
  cl_token : connect_token;
  cl_chal_seq : N;
  cl_chal_data : list N;
  cl_max_clients : N;
  cl_client_index : N;
  cl_replay : replay;
}.

(* NetcodeClient::new with ClientAuthentication::Secure *)
Definition nclient_new (now : N) (t : connect_token) : nres nclient :=
  match ct_addrs t with
  | Some a :: _ =>
      Ok {| cl_state := CSendingRequest; cl_id := ct_client_id t; cl_connect_start := now; cl_last_send := None;
            cl_last_recv := now; cl_now := now; cl_seq := 0; cl_server_addr := a; cl_addr_index := 0;
            cl_token := t; cl_chal_seq := 0; cl_chal_data := zeros NC_CHALLENGE_BYTES;
            cl_max_clients := 0; cl_client_index := 0; cl_replay := replay_new |}
  | _ => Panic SITE_N_NO_SERVER_ADDR
  end.

Definition cl_set (c : nclient) st ls lr seq : nclient :=
  {| cl_state := st; cl_id := cl_id c; cl_connect_start := cl_connect_start c; cl_last_send := ls; cl_last_recv := lr;
     cl_now := cl_now c; cl_seq := seq; cl_server_addr := cl_server_addr c; cl_addr_index := cl_addr_index c;
     cl_token := cl_token c; cl_chal_seq := cl_chal_seq c; cl_chal_data := cl_chal_data c;
     cl_max_clients := cl_max_clients c; cl_client_index := cl_client_index c; cl_replay := cl_replay c |}.

Definition cl_with_replay (c : nclient) rp : nclient :=
  {| cl_state := cl_state c; cl_id := cl_id c; cl_connect_start := cl_connect_start c; cl_last_send := cl_last_send c;
     cl_last_recv := cl_last_recv c; cl_now := cl_now c; cl_seq := cl_seq c; cl_server_addr := cl_server_addr c;
     cl_addr_index := cl_addr_index c; cl_token := cl_token c; cl_chal_seq := cl_chal_seq c; cl_chal_data := cl_chal_data c;
     cl_max_clients := cl_max_clients c; cl_client_index := cl_client_index c; cl_replay := rp |}.

Definition is_connected (c : nclient) : bool := match cl_state c with CConnected => true | _ => false end.
Definition is_connecting (c : nclient) : bool :=
  match cl_state c with CSendingRequest | CSendingResponse => true | _ => false end.
Definition is_disconnected (c : nclient) : bool := match cl_state c with CDisconnected _ => true | _ => false end.
Definition disconnect_reason (c : nclient) : option creason := match cl_state c with CDisconnected r => Some r | _ => None end.
Definition time_since_last_received (c : nclient) : nres N := sub_chk SITE_N_DURATION_SUB (cl_now c) (cl_last_recv c).

Definition c2s_key (c : nclient) : list N := ct_c2s (cl_token c).
Definition s2c_key (c : nclient) : list N := ct_s2c (cl_token c).
Definition protocol_of (c : nclient) : N := ct_protocol (cl_token c).

Definition CL_CAP : N := NC_MAX_PACKET_BYTES.

(* disconnect(): the state changes even when encoding fails *)
Definition nclient_disconnect (c : nclient) : nclient * nres (addr * list N) :=
  let c1 := cl_set c (CDisconnected CRByClient) (cl_last_send c) (cl_last_recv c) (cl_seq c) in
  match encode CL_CAP PDisconnect (protocol_of c1) (Some (cl_seq c1, c2s_key c1)) with
  | Ok out => (c1, Ok (cl_server_addr c1, out))
  | Err e => (c1, Err e)
  | Panic p => (c1, Panic p)
  end.

Definition nclient_process_packet (c : nclient) (buf : list N) : nclient * option (list N) :=
  let (rp, r) := decode buf (protocol_of c) (Some (s2c_key c)) (Some (cl_replay c)) in
  let c1 := cl_with_replay c (match rp with Some x => x | None => cl_replay c end) in
  match r with
  | Ok (_, pkt) =>
      match pkt, cl_state c1 with
      | PDenied, (CSendingRequest | CSendingResponse) =>
          (cl_set c1 (CDisconnected CRDenied) (cl_last_send c1) (cl_now c1) (cl_seq c1), None)
      | PChallenge tseq tdata, CSendingRequest =>
          ({| cl_state := CSendingResponse; cl_id := cl_id c1; cl_connect_start := cl_connect_start c1; cl_last_send := None;
              cl_last_recv := cl_now c1; cl_now := cl_now c1; cl_seq := cl_seq c1; cl_server_addr := cl_server_addr c1;
              cl_addr_index := cl_addr_index c1; cl_token := cl_token c1; cl_chal_seq := tseq; cl_chal_data := tdata;
              cl_max_clients := cl_max_clients c1; cl_client_index := cl_client_index c1; cl_replay := cl_replay c1 |}, None)
      | PKeepAlive _ _, CConnected =>
          (cl_set c1 CConnected (cl_last_send c1) (cl_now c1) (cl_seq c1), None)
      | PKeepAlive ci mc, CSendingResponse =>
          ({| cl_state := CConnected; cl_id := cl_id c1; cl_connect_start := cl_connect_start c1; cl_last_send := cl_last_send c1;
              cl_last_recv := cl_now c1; cl_now := cl_now c1; cl_seq := cl_seq c1; cl_server_addr := cl_server_addr c1;
              cl_addr_index := cl_addr_index c1; cl_token := cl_token c1; cl_chal_seq := cl_chal_seq c1; cl_chal_data := cl_chal_data c1;
              cl_max_clients := mc; cl_client_index := ci; cl_replay := cl_replay c1 |}, None)
      | PPayload p, CConnected =>
          (cl_set c1 CConnected (cl_last_send c1) (cl_now c1) (cl_seq c1), Some p)
      | PDisconnect, CConnected =>
          (cl_set c1 (CDisconnected CRByServer) (cl_last_send c1) (cl_now c1) (cl_seq c1), None)
      | _, _ => (c1, None)
      end
  | _ => (c1, None)
  end.

Definition nclient_generate_payload (c : nclient) (payload : list N) : nclient * nres (addr * list N) :=
  if NC_MAX_PAYLOAD_BYTES <? len payload then (c, Err EPayloadAboveLimit) else
  if negb (is_connected c) then (c, Err EClientNotConnected) else
  match encode CL_CAP (PPayload payload) (protocol_of c) (Some (cl_seq c, c2s_key c)) with
  | Ok out => (cl_set c (cl_state c) (Some (cl_now c)) (cl_last_recv c) (cl_seq c + 1), Ok (cl_server_addr c, out))
  | Err e => (c, Err e)
  | Panic p => (c, Panic p)
  end.

(* update_internal_state: Ok (c, true) = continue with generate_packet, Ok (c, false) = an error was logged *)
Definition update_internal_state (c0 : nclient) (dt : N) : nres (nclient * bool) :=
  let c := {| cl_state := cl_state c0; cl_id := cl_id c0; cl_connect_start := cl_connect_start c0; cl_last_send := cl_last_send c0;
              cl_last_recv := cl_last_recv c0; cl_now := cl_now c0 + dt; cl_seq := cl_seq c0; cl_server_addr := cl_server_addr c0;
              cl_addr_index := cl_addr_index c0; cl_token := cl_token c0; cl_chal_seq := cl_chal_seq c0; cl_chal_data := cl_chal_data c0;
              cl_max_clients := cl_max_clients c0; cl_client_index := cl_client_index c0; cl_replay := cl_replay c0 |} in
  let t := cl_token c in
  let timed_out := (0 <? ct_timeout t)%Z && (cl_last_recv c + Z.to_N (ct_timeout t) * NS_PER_SEC <? cl_now c) in
  match cl_state c with
  | CSendingRequest | CSendingResponse =>
      let expire_seconds := ct_expire t - ct_create t in     (* saturating_sub *)
      do elapsed <- sub_chk SITE_N_DURATION_SUB (cl_now c) (cl_connect_start c);
      if expire_seconds <=? as_secs elapsed then
        Ok (cl_set c (CDisconnected CRTokenExpired) (cl_last_send c) (cl_last_recv c) (cl_seq c), false)
      else if timed_out then
        let reason := match cl_state c with CSendingResponse => CRResponseTimedOut | _ => CRRequestTimedOut end in
        let idx := cl_addr_index c + 1 in
        let dead := {| cl_state := CDisconnected reason; cl_id := cl_id c; cl_connect_start := cl_connect_start c;
                       cl_last_send := cl_last_send c; cl_last_recv := cl_last_recv c; cl_now := cl_now c; cl_seq := cl_seq c;
                       cl_server_addr := cl_server_addr c; cl_addr_index := idx; cl_token := cl_token c;
                       cl_chal_seq := cl_chal_seq c; cl_chal_data := cl_chal_data c; cl_max_clients := cl_max_clients c;
                       cl_client_index := cl_client_index c; cl_replay := cl_replay c |} in
        if 32 <=? idx then Ok (dead, false) else
        match nth_opt (ct_addrs t) (N.to_nat idx) with
        | Some (Some a) =>
            Ok ({| cl_state := CSendingRequest; cl_id := cl_id c; cl_connect_start := cl_now c; cl_last_send := None;
                   cl_last_recv := cl_now c; cl_now := cl_now c; cl_seq := cl_seq c; cl_server_addr := a; cl_addr_index := idx;
                   cl_token := cl_token c; cl_chal_seq := 0; cl_chal_data := cl_chal_data c; cl_max_clients := cl_max_clients c;
                   cl_client_index := cl_client_index c; cl_replay := cl_replay c |}, true)
        | Some None => Ok (dead, false)
        | None => Panic SITE_N_SLOT_INDEX
        end
      else Ok (c, true)
  | CConnected =>
      if timed_out then Ok (cl_set c (CDisconnected CRTimedOut) (cl_last_send c) (cl_last_recv c) (cl_seq c), false)
      else Ok (c, true)
  | CDisconnected _ => Ok (c, false)
  end.

Definition generate_packet (c : nclient) : nres (nclient * option (list N * addr)) :=
  do too_soon <- (match cl_last_send c with
                  | None => Ok false
                  | Some t => do d <- sub_chk SITE_N_DURATION_SUB (cl_now c) t; Ok (d <? NC_SEND_RATE_MS * 1000000)
                  end);
  if too_soon then Ok (c, None) else
  let pkt := match cl_state c with
             | CSendingRequest => Some (PRequest NC_VERSION_INFO (ct_protocol (cl_token c)) (ct_expire (cl_token c))
                                                 (ct_xnonce (cl_token c)) (ct_private (cl_token c)))
             | CSendingResponse => Some (PResponse (cl_chal_seq c) (cl_chal_data c))
             | CConnected => Some (PKeepAlive 0 0)
             | CDisconnected _ => None
             end in
  match pkt with
  | None => Ok (c, None)
  | Some p =>
      let c1 := cl_set c (cl_state c) (Some (cl_now c)) (cl_last_recv c) (cl_seq c) in
      match encode CL_CAP p (protocol_of c1) (Some (cl_seq c1, c2s_key c1)) with
      | Ok out => Ok (cl_set c1 (cl_state c1) (cl_last_send c1) (cl_last_recv c1) (cl_seq c1 + 1), Some (out, cl_server_addr c1))
      | Err _ => Ok (c1, None)
      | Panic s => Panic s
      end
  end.

Definition nclient_update (c : nclient) (dt : N) : nres (nclient * option (list N * addr)) :=
  do r <- update_internal_state c dt;
  let (c1, go) := r in
  if go then generate_packet c1 else Ok (c1, None).
