(* Token.v - renetcode/src/token.rs: connect tokens (public part, sealed private part). *)
From RenetV Require Import Base Consts Aead NPacket.
Open Scope N_scope.

Inductive addr :=
| AddrV4 (ip : list N) (port : N)     (* 4 bytes *)
| AddrV6 (ip : list N) (port : N).    (* 16 bytes *)

Definition addr_eqb (a b : addr) : bool :=
  match a, b with
  | AddrV4 i p, AddrV4 j q => bytes_eqb i j && (p =? q)
  | AddrV6 i p, AddrV6 j q => bytes_eqb i j && (p =? q)
  | _, _ => false
  end.

Record private_token := {
  pt_client_id : N;
  pt_timeout : Z;                      (* i32 *)
  pt_addrs : list (option addr);       (* 32 slots *)
  pt_c2s : list N;
  pt_s2c : list N;
  pt_user : list N;
}.

Record connect_token := {
  ct_client_id : N;
  ct_version : list N;
  ct_protocol : N;
  ct_create : N;
  ct_expire : N;
  ct_xnonce : list N;
  ct_addrs : list (option addr);
  ct_c2s : list N;
  ct_s2c : list N;
  ct_private : list N;
  ct_timeout : Z;
}.

Definition i32_bytes (z : Z) : list N := le32 (Z.to_N (z mod 4294967296)%Z).
Definition i32_of (v : N) : Z := if v <? 2147483648 then Z.of_N v else (Z.of_N v - 4294967296)%Z.

Definition write_addr (a : addr) : list N :=
  match a with
  | AddrV4 ip port => [NC_ADDR_V4] ++ ip ++ le16 port
  | AddrV6 ip port => [NC_ADDR_V6] ++ ip ++ le16 port
  end.

Fixpoint write_addrs_body (l : list (option addr)) : list N :=
  match l with
  | [] => []
  | Some a :: t => write_addr a ++ write_addrs_body t
  | None :: t => write_addrs_body t
  end.

Definition count_some {A} (l : list (option A)) : N :=
  len (filter (fun o => match o with Some _ => true | None => false end) l).

Definition write_server_addresses (l : list (option addr)) : list N :=
  le32 (count_some l) ++ write_addrs_body l.

(* reads up to min(count, 32) entries, storing the addresses consecutively *)
Fixpoint read_addrs_loop (fuel : nat) (src : list N) (acc : list (option addr)) : nres (list (option addr) * list N) :=
  match fuel with
  | O => Ok (acc, src)
  | S f =>
      match src with
      | [] => Err EIoError
      | ty :: r =>
          if ty =? NC_ADDR_V4 then
            if len r <? 6 then Err EIoError
            else read_addrs_loop f (dropN 6 r) (acc ++ [Some (AddrV4 (takeN 4 r) (le_val (takeN 2 (dropN 4 r))))])
          else if ty =? NC_ADDR_V6 then
            if len r <? 18 then Err EIoError
            else read_addrs_loop f (dropN 18 r) (acc ++ [Some (AddrV6 (takeN 16 r) (le_val (takeN 2 (dropN 16 r))))])
          else if ty =? NC_ADDR_NONE then read_addrs_loop f r acc
          else Err EIoError
      end
  end.

Definition pad_slots (l : list (option addr)) : list (option addr) :=
  l ++ repeatN None (32 - length l).

Definition read_server_addresses (src : list N) : nres (list (option addr) * list N) :=
  if len src <? 4 then Err EIoError else
  let count := le_val (takeN 4 src) in
  let n := if 32 <? count then 32 else count in
  do r <- read_addrs_loop (N.to_nat n) (dropN 4 src) [];
  let (found, rest) := r in
  match found with
  | [] => Err EIoError
  | _ => Ok (pad_slots found, rest)
  end.

(* ---------------- private part ---------------- *)
Definition private_plain (t : private_token) : list N :=
  let body := le64 (pt_client_id t) ++ i32_bytes (pt_timeout t) ++ write_server_addresses (pt_addrs t)
              ++ pt_c2s t ++ pt_s2c t ++ pt_user t in
  body ++ zeros (NC_PRIVATE_BYTES - NC_MAC_BYTES - len body).

Definition token_aad (protocol expire : N) : list N := NC_VERSION_INFO ++ le64 protocol ++ le64 expire.

Definition private_encode (t : private_token) (protocol expire : N) (xnonce key : list N) : list N :=
  xaead_seal key xnonce (token_aad protocol expire) (private_plain t).

Definition private_read (src : list N) : nres private_token :=
  if len src <? 12 then Err EIoError else
  let id := le_val (takeN 8 src) in
  let timeout := i32_of (le_val (takeN 4 (dropN 8 src))) in
  do r <- read_server_addresses (dropN 12 src);
  let (addrs, r1) := r in
  if len r1 <? NC_KEY_BYTES + NC_KEY_BYTES + NC_USER_DATA_BYTES then Err EIoError else
  Ok {| pt_client_id := id; pt_timeout := timeout; pt_addrs := addrs;
        pt_c2s := takeN NC_KEY_BYTES r1; pt_s2c := takeN NC_KEY_BYTES (dropN NC_KEY_BYTES r1);
        pt_user := takeN NC_USER_DATA_BYTES (dropN (2 * NC_KEY_BYTES) r1) |}.

(* PrivateConnectToken::decode: a failed open and a failed read both end as TokenGenerationError *)
Definition private_decode (data : list N) (protocol expire : N) (xnonce key : list N) : nres private_token :=
  match xaead_open key xnonce (token_aad protocol expire) data with
  | None => Err ETokenGeneration
  | Some plain => match private_read plain with Ok t => Ok t | Err _ => Err ETokenGeneration | Panic p => Panic p end
  end.

(* ---------------- public token ---------------- *)
(* ConnectToken::generate with the random values made explicit *)
Definition token_generate (now protocol expire_seconds client_id : N) (timeout : Z) (addrs : list addr)
           (user key xnonce c2s s2c : list N) : nres connect_token :=
  if 32 <? len addrs then Err ETokenGeneration else
  match addrs with
  | [] => Err ETokenGeneration
  | _ =>
      let slots := pad_slots (map Some addrs) in
      let expire := as_secs now + expire_seconds in
      let pt := {| pt_client_id := client_id; pt_timeout := timeout; pt_addrs := slots;
                   pt_c2s := c2s; pt_s2c := s2c; pt_user := user |} in
      Ok {| ct_client_id := client_id; ct_version := NC_VERSION_INFO; ct_protocol := protocol;
            ct_create := as_secs now; ct_expire := expire; ct_xnonce := xnonce; ct_addrs := slots;
            ct_c2s := c2s; ct_s2c := s2c; ct_private := private_encode pt protocol expire xnonce key;
            ct_timeout := timeout |}
  end.

Definition token_write (t : connect_token) : list N :=
  le64 (ct_client_id t) ++ ct_version t ++ le64 (ct_protocol t) ++ le64 (ct_create t) ++ le64 (ct_expire t)
  ++ ct_xnonce t ++ ct_private t ++ i32_bytes (ct_timeout t) ++ write_server_addresses (ct_addrs t)
  ++ ct_c2s t ++ ct_s2c t.

Definition token_read (src : list N) : nres connect_token :=
  if len src <? 8 + 13 then Err EIoError else
  let id := le_val (takeN 8 src) in
  let version := takeN 13 (dropN 8 src) in
  if negb (bytes_eqb version NC_VERSION_INFO) then Err EInvalidVersion else
  let r0 := dropN 21 src in
  if len r0 <? 8 + 8 + 8 + NC_XNONCE_BYTES + NC_PRIVATE_BYTES + 4 then Err EIoError else
  let protocol := le_val (takeN 8 r0) in
  let create := le_val (takeN 8 (dropN 8 r0)) in
  let expire := le_val (takeN 8 (dropN 16 r0)) in
  let r1 := dropN 24 r0 in
  let xnonce := takeN NC_XNONCE_BYTES r1 in
  let r2 := dropN NC_XNONCE_BYTES r1 in
  let private := takeN NC_PRIVATE_BYTES r2 in
  let r3 := dropN NC_PRIVATE_BYTES r2 in
  let timeout := i32_of (le_val (takeN 4 r3)) in
  do r <- read_server_addresses (dropN 4 r3);
  let (addrs, r4) := r in
  if len r4 <? 2 * NC_KEY_BYTES then Err EIoError else
  Ok {| ct_client_id := id; ct_version := version; ct_protocol := protocol; ct_create := create;
        ct_expire := expire; ct_xnonce := xnonce; ct_addrs := addrs;
        ct_c2s := takeN NC_KEY_BYTES r4; ct_s2c := takeN NC_KEY_BYTES (dropN NC_KEY_BYTES r4);
        ct_private := private; ct_timeout := timeout |}.
