(* NServer.v - renetcode/src/server.rs (NetcodeServer) *)
From RenetV Require Import Base Consts Aead NPacket Token.
Open Scope N_scope.

Record nconn := {
  nc_confirmed : bool;
  nc_id : N;
  nc_send_key : list N;
  nc_recv_key : list N;
  nc_user : list N;
  nc_addr : addr;
  nc_last_recv : N;
  nc_last_send : N;
  nc_timeout : Z;
  nc_seq : N;
  nc_expire : N;
  nc_replay : replay;
  nc_chal_floor : N;                   (* first_challenge_sequence *)
}.

Record token_entry := { te_time : N; te_addr : addr; te_mac : list N }.

Record nserver := {
  ns_clients : list (option nconn);          (* slots *)
  ns_pending : list (addr * nconn);          (* HashMap<SocketAddr, Connection>: order unobservable *)
  ns_entries : list (option token_entry);    (* NETCODE_MAX_CLIENTS * 2 *)
  ns_protocol : N;
  ns_connect_key : list N;
  ns_max : N;
  ns_chal_seq : N;
  ns_chal_key : list N;
  ns_addrs : list addr;
  ns_now : N;
  ns_global_seq : N;
  ns_secure : bool;
}.

Inductive sresult :=
| SRNone
| SRPacketToSend (a : addr) (payload : list N)
| SRPayload (id : N) (payload : list N)
| SRConnected (id : N) (a : addr) (user : list N) (payload : list N)
| SRDisconnected (id : N) (a : addr) (payload : option (list N)).

(* NetcodeServer::new; the random challenge key is an explicit input *)
Definition nserver_new (now max protocol : N) (addrs : list addr) (key : option (list N)) (chal_key : list N) : nres nserver :=
  if NC_MAX_CLIENTS <? max then Panic SITE_N_MAX_CLIENTS else
  Ok {| ns_clients := repeatN None (N.to_nat max);
        ns_pending := [];
        ns_entries := repeatN None (N.to_nat (NC_MAX_CLIENTS * NC_TOKEN_ENTRIES_FACTOR));
        ns_protocol := protocol;
        ns_connect_key := match key with Some k => k | None => zeros NC_KEY_BYTES end;
        ns_max := max; ns_chal_seq := 0; ns_chal_key := chal_key; ns_addrs := addrs; ns_now := now;
        ns_global_seq := NC_GLOBAL_SEQUENCE_INIT;
        ns_secure := match key with Some _ => true | None => false end |}.

Definition set_clients (s : nserver) cl := {| ns_clients := cl; ns_pending := ns_pending s; ns_entries := ns_entries s;
  ns_protocol := ns_protocol s; ns_connect_key := ns_connect_key s; ns_max := ns_max s; ns_chal_seq := ns_chal_seq s;
  ns_chal_key := ns_chal_key s; ns_addrs := ns_addrs s; ns_now := ns_now s; ns_global_seq := ns_global_seq s; ns_secure := ns_secure s |}.
Definition set_pending (s : nserver) p := {| ns_clients := ns_clients s; ns_pending := p; ns_entries := ns_entries s;
  ns_protocol := ns_protocol s; ns_connect_key := ns_connect_key s; ns_max := ns_max s; ns_chal_seq := ns_chal_seq s;
  ns_chal_key := ns_chal_key s; ns_addrs := ns_addrs s; ns_now := ns_now s; ns_global_seq := ns_global_seq s; ns_secure := ns_secure s |}.
Definition set_entries (s : nserver) e := {| ns_clients := ns_clients s; ns_pending := ns_pending s; ns_entries := e;
  ns_protocol := ns_protocol s; ns_connect_key := ns_connect_key s; ns_max := ns_max s; ns_chal_seq := ns_chal_seq s;
  ns_chal_key := ns_chal_key s; ns_addrs := ns_addrs s; ns_now := ns_now s; ns_global_seq := ns_global_seq s; ns_secure := ns_secure s |}.
Definition set_seqs (s : nserver) (g c : N) := {| ns_clients := ns_clients s; ns_pending := ns_pending s; ns_entries := ns_entries s;
  ns_protocol := ns_protocol s; ns_connect_key := ns_connect_key s; ns_max := ns_max s; ns_chal_seq := c;
  ns_chal_key := ns_chal_key s; ns_addrs := ns_addrs s; ns_now := ns_now s; ns_global_seq := g; ns_secure := ns_secure s |}.
Definition set_now (s : nserver) t := {| ns_clients := ns_clients s; ns_pending := ns_pending s; ns_entries := ns_entries s;
  ns_protocol := ns_protocol s; ns_connect_key := ns_connect_key s; ns_max := ns_max s; ns_chal_seq := ns_chal_seq s;
  ns_chal_key := ns_chal_key s; ns_addrs := ns_addrs s; ns_now := t; ns_global_seq := ns_global_seq s; ns_secure := ns_secure s |}.
Definition set_max (s : nserver) m := {| ns_clients := ns_clients s; ns_pending := ns_pending s; ns_entries := ns_entries s;
  ns_protocol := ns_protocol s; ns_connect_key := ns_connect_key s; ns_max := m; ns_chal_seq := ns_chal_seq s;
  ns_chal_key := ns_chal_key s; ns_addrs := ns_addrs s; ns_now := ns_now s; ns_global_seq := ns_global_seq s; ns_secure := ns_secure s |}.

Definition nc_with_replay (c : nconn) rp := {| nc_confirmed := nc_confirmed c; nc_id := nc_id c; nc_send_key := nc_send_key c;
  nc_recv_key := nc_recv_key c; nc_user := nc_user c; nc_addr := nc_addr c; nc_last_recv := nc_last_recv c;
  nc_last_send := nc_last_send c; nc_timeout := nc_timeout c; nc_seq := nc_seq c; nc_expire := nc_expire c; nc_replay := rp;
  nc_chal_floor := nc_chal_floor c |}.
Definition nc_received (c : nconn) (now : N) := {| nc_confirmed := true; nc_id := nc_id c; nc_send_key := nc_send_key c;
  nc_recv_key := nc_recv_key c; nc_user := nc_user c; nc_addr := nc_addr c; nc_last_recv := now;
  nc_last_send := nc_last_send c; nc_timeout := nc_timeout c; nc_seq := nc_seq c; nc_expire := nc_expire c; nc_replay := nc_replay c;
  nc_chal_floor := nc_chal_floor c |}.
Definition nc_sent (c : nconn) (now : N) := {| nc_confirmed := nc_confirmed c; nc_id := nc_id c; nc_send_key := nc_send_key c;
  nc_recv_key := nc_recv_key c; nc_user := nc_user c; nc_addr := nc_addr c; nc_last_recv := nc_last_recv c;
  nc_last_send := now; nc_timeout := nc_timeout c; nc_seq := nc_seq c + 1; nc_expire := nc_expire c; nc_replay := nc_replay c;
  nc_chal_floor := nc_chal_floor c |}.

(* ---------------- lookups ---------------- *)
Fixpoint find_slot_by (f : nconn -> bool) (cl : list (option nconn)) (i : N) : option (N * nconn) :=
  match cl with
  | [] => None
  | Some c :: t => if f c then Some (i, c) else find_slot_by f t (i + 1)
  | None :: t => find_slot_by f t (i + 1)
  end.
Definition find_by_addr (s : nserver) (a : addr) := find_slot_by (fun c => addr_eqb (nc_addr c) a) (ns_clients s) 0.
Definition find_by_id (s : nserver) (id : N) := find_slot_by (fun c => nc_id c =? id) (ns_clients s) 0.

Fixpoint first_free (cl : list (option nconn)) (i : N) : option N :=
  match cl with
  | [] => None
  | None :: _ => Some i
  | Some _ :: t => first_free t (i + 1)
  end.

Definition connected_count (s : nserver) : N := count_some (ns_clients s).

Fixpoint pend_find (a : addr) (p : list (addr * nconn)) : option nconn :=
  match p with [] => None | (a', c) :: t => if addr_eqb a a' then Some c else pend_find a t end.
Fixpoint pend_remove (a : addr) (p : list (addr * nconn)) : list (addr * nconn) :=
  match p with [] => [] | (a', c) :: t => if addr_eqb a a' then t else (a', c) :: pend_remove a t end.
Definition pend_put (a : addr) (c : nconn) (p : list (addr * nconn)) : list (addr * nconn) :=
  match pend_find a p with
  | Some _ => map (fun ac => if addr_eqb a (fst ac) then (fst ac, c) else ac) p
  | None => p ++ [(a, c)]
  end.

Definition set_slot (s : nserver) (i : N) (c : option nconn) : nserver :=
  set_clients s (upd (ns_clients s) (N.to_nat i) c).

(* public queries *)
Definition clients_id (s : nserver) : list N :=
  flat_map (fun o => match o with Some c => [nc_id c] | None => [] end) (ns_clients s).
Definition user_data (s : nserver) (id : N) : option (list N) := option_map (fun x => nc_user (snd x)) (find_by_id s id).
Definition client_addr (s : nserver) (id : N) : option addr := option_map (fun x => nc_addr (snd x)) (find_by_id s id).
Definition time_since_last_received (s : nserver) (id : N) : nres (option N) :=
  match find_by_id s id with
  | None => Ok None
  | Some (_, c) => do d <- sub_chk SITE_N_DURATION_SUB (ns_now s) (nc_last_recv c); Ok (Some d)
  end.
Definition is_client_connected (s : nserver) (id : N) : bool := match find_by_id s id with Some _ => true | None => false end.

(* ---------------- connect token entries ---------------- *)
Record scan := { sn_min : option N (* None = Duration::MAX *); sn_oldest : N; sn_empty : bool; sn_match : option token_entry }.

Fixpoint scan_entries (es : list (option token_entry)) (i : N) (mac : list N) (a : scan) : scan :=
  match es with
  | [] => a
  | Some e :: t =>
      let m := if bytes_eqb (te_mac e) mac then Some e else sn_match a in
      let younger := match sn_min a with None => true | Some mn => te_time e <? mn end in
      if negb (sn_empty a) && younger
      then scan_entries t (i + 1) mac {| sn_min := Some (te_time e); sn_oldest := i; sn_empty := false; sn_match := m |}
      else scan_entries t (i + 1) mac {| sn_min := sn_min a; sn_oldest := sn_oldest a; sn_empty := sn_empty a; sn_match := m |}
  | None :: t =>
      if negb (sn_empty a)
      then scan_entries t (i + 1) mac {| sn_min := sn_min a; sn_oldest := i; sn_empty := true; sn_match := sn_match a |}
      else scan_entries t (i + 1) mac a
  end.

(* returns (entries', allowed) *)
Definition find_or_add_entry (es : list (option token_entry)) (e : token_entry) : list (option token_entry) * bool :=
  let a := scan_entries es 0 (te_mac e) {| sn_min := None; sn_oldest := 0; sn_empty := false; sn_match := None |} in
  match sn_match a with
  | Some m => (es, addr_eqb (te_addr m) (te_addr e))
  | None => (upd es (N.to_nat (sn_oldest a)) (Some e), true)
  end.

(* ---------------- connection request ---------------- *)
Definition in_host_list (s : nserver) (t : private_token) : bool :=
  existsb (fun o => match o with Some a => existsb (addr_eqb a) (ns_addrs s) | None => false end) (pt_addrs t).

Definition OUT_CAP : N := NC_MAX_PACKET_BYTES.

Definition handle_request (s : nserver) (a : addr) (version : list N) (protocol expire : N) (xnonce data : list N)
  : nserver * nres sresult :=
  if negb (bytes_eqb version NC_VERSION_INFO) then (s, Err EInvalidVersion) else
  if negb (protocol =? ns_protocol s) then (s, Err EInvalidProtocolID) else
  if expire <=? as_secs (ns_now s) then (s, Err EExpired) else
  match private_decode data (ns_protocol s) expire xnonce (ns_connect_key s) with
  | Err e => (s, Err e)
  | Panic p => (s, Panic p)
  | Ok t =>
      if ns_secure s && negb (in_host_list s t) then (s, Err ENotInHostList) else
      match find_by_addr s a, find_by_id s (pt_client_id t) with
      | None, None =>
          let is_pending := match pend_find a (ns_pending s) with Some _ => true | None => false end in
          if negb is_pending && (NC_MAX_CLIENTS * NC_MAX_PENDING_FACTOR <=? len (ns_pending s)) then (s, Ok SRNone) else
          let mac := dropN (NC_PRIVATE_BYTES - NC_MAC_BYTES) data in
          let (es, allowed) := find_or_add_entry (ns_entries s) {| te_time := ns_now s; te_addr := a; te_mac := mac |} in
          let s1 := set_entries s es in
          if negb allowed then (s1, Ok SRNone) else
          if ns_max s1 <=? connected_count s1 then
            let s2 := set_pending s1 (pend_remove a (ns_pending s1)) in
            match encode OUT_CAP PDenied (ns_protocol s2) (Some (ns_global_seq s2, pt_s2c t)) with
            | Ok out => (set_seqs s2 (ns_global_seq s2 + 1) (ns_chal_seq s2), Ok (SRPacketToSend a out))
            | Err e => (s2, Err e)
            | Panic p => (s2, Panic p)
            end
          else
            let cseq := ns_chal_seq s1 + 1 in
            let chal := generate_challenge (pt_client_id t) (pt_user t) cseq (ns_chal_key s1) in
            let s2 := set_seqs s1 (ns_global_seq s1) cseq in
            match encode OUT_CAP chal (ns_protocol s2) (Some (ns_global_seq s2, pt_s2c t)) with
            | Ok out =>
                let s3 := set_seqs s2 (ns_global_seq s2 + 1) cseq in
                let fresh := {| nc_confirmed := false; nc_id := pt_client_id t; nc_send_key := pt_s2c t;
                                nc_recv_key := pt_c2s t; nc_user := pt_user t; nc_addr := a;
                                nc_last_recv := ns_now s3; nc_last_send := ns_now s3; nc_timeout := pt_timeout t;
                                nc_seq := 0; nc_expire := expire; nc_replay := replay_new;
  nc_chal_floor := cseq |} in
                let entry := match pend_find a (ns_pending s3) with
                             | Some old => {| nc_confirmed := nc_confirmed old; nc_id := nc_id old; nc_send_key := nc_send_key old;
                                              nc_recv_key := nc_recv_key old; nc_user := nc_user old; nc_addr := nc_addr old;
                                              nc_last_recv := ns_now s3; nc_last_send := ns_now s3; nc_timeout := nc_timeout old;
                                              nc_seq := nc_seq old; nc_expire := nc_expire old; nc_replay := nc_replay old;
  nc_chal_floor := nc_chal_floor old |}
                             | None => fresh
                             end in
                (set_pending s3 (pend_put a entry (ns_pending s3)), Ok (SRPacketToSend a out))
            | Err e => (s2, Err e)
            | Panic p => (s2, Panic p)
            end
      | _, _ => (s, Ok SRNone)
      end
  end.

(* ---------------- process_packet ---------------- *)
Definition opt_replay (o : option replay) (d : replay) : replay := match o with Some r => r | None => d end.

Definition process_packet_internal (s : nserver) (a : addr) (buf : list N) : nserver * nres sresult :=
  if len buf <? 2 + NC_MAC_BYTES then (s, Err EPacketTooSmall) else
  match find_by_addr s a with
  | Some (slot, c) =>
      (* connected client *)
      let (rp, r) := decode buf (ns_protocol s) (Some (nc_recv_key c)) (Some (nc_replay c)) in
      let c1 := nc_with_replay c (opt_replay rp (nc_replay c)) in
      let s1 := set_slot s slot (Some c1) in
      match r with
      | Err e => (s1, Err e)
      | Panic p => (s1, Panic p)
      | Ok (_, pkt) =>
          match pkt with
          | PDisconnect => (set_slot s1 slot None, Ok (SRDisconnected (nc_id c1) a None))
          | PPayload p => (set_slot s1 slot (Some (nc_received c1 (ns_now s1))), Ok (SRPayload (nc_id c1) p))
          | PKeepAlive _ _ => (set_slot s1 slot (Some (nc_received c1 (ns_now s1))), Ok SRNone)
          | _ => (s1, Ok SRNone)
          end
      end
  | None =>
      match pend_find a (ns_pending s) with
      | Some pc =>
          (* pending client *)
          let (rp, r) := decode buf (ns_protocol s) (Some (nc_recv_key pc)) (Some (nc_replay pc)) in
          let pc1 := nc_with_replay pc (opt_replay rp (nc_replay pc)) in
          let s1 := set_pending s (pend_put a pc1 (ns_pending s)) in
          match r with
          | Err e => (s1, Err e)
          | Panic p => (s1, Panic p)
          | Ok (_, pkt) =>
              match pkt with
              | PRequest v protocol expire xn data => handle_request s1 a v protocol expire xn data
              | PResponse tseq tdata =>
                  match challenge_decode tdata tseq (ns_chal_key s1) with
                  | Err e => (s1, Err e)
                  | Panic p => (s1, Panic p)
                  | Ok (cid, cuser) =>
                      if tseq <? nc_chal_floor pc1 then (s1, Ok SRNone) else
                      if negb (cid =? nc_id pc1) || negb (bytes_eqb cuser (nc_user pc1)) then (s1, Ok SRNone) else
                      let s2 := set_pending s1 (pend_remove a (ns_pending s1)) in
                      match find_by_id s2 cid with
                      | Some _ => (s2, Ok SRNone)
                      | None =>
                          match first_free (ns_clients s2) 0 with
                          | None =>
                              match encode OUT_CAP PDenied (ns_protocol s2) (Some (ns_global_seq s2, nc_send_key pc1)) with
                              | Ok out => (set_seqs s2 (ns_global_seq s2 + 1) (ns_chal_seq s2), Ok (SRPacketToSend a out))
                              | Err e => (s2, Err e)
                              | Panic p => (s2, Panic p)
                              end
                          | Some idx =>
                              match encode OUT_CAP (PKeepAlive idx (ns_max s2)) (ns_protocol s2) (Some (nc_seq pc1, nc_send_key pc1)) with
                              | Ok out =>
                                  let c := {| nc_confirmed := nc_confirmed pc1; nc_id := nc_id pc1; nc_send_key := nc_send_key pc1;
                                              nc_recv_key := nc_recv_key pc1; nc_user := cuser; nc_addr := nc_addr pc1;
                                              nc_last_recv := ns_now s2; nc_last_send := ns_now s2; nc_timeout := nc_timeout pc1;
                                              nc_seq := nc_seq pc1 + 1; nc_expire := nc_expire pc1; nc_replay := nc_replay pc1;
  nc_chal_floor := nc_chal_floor pc1 |} in
                                  (set_slot s2 idx (Some c), Ok (SRConnected (nc_id c) a (nc_user c) out))
                              | Err e => (s2, Err e)
                              | Panic p => (s2, Panic p)
                              end
                          end
                      end
                  end
              | _ => (s1, Ok SRNone)
              end
          end
      | None =>
          (* unknown address *)
          match decode buf (ns_protocol s) None None with
          | (_, Err e) => (s, Err e)
          | (_, Panic p) => (s, Panic p)
          | (_, Ok (_, PRequest v protocol expire xn data)) => handle_request s a v protocol expire xn data
          | (_, Ok _) => (s, Panic SITE_N_UNREACHABLE)
          end
      end
  end.

(* errors are logged and become ServerResult::None *)
Definition process_packet (s : nserver) (a : addr) (buf : list N) : nres (nserver * sresult) :=
  match process_packet_internal s a buf with
  | (s', Ok r) => Ok (s', r)
  | (s', Err _) => Ok (s', SRNone)
  | (_, Panic p) => Panic p
  end.

(* ---------------- the rest of the API ---------------- *)
Definition generate_payload_packet (s : nserver) (id : N) (payload : list N) : nserver * nres (addr * list N) :=
  if NC_MAX_PAYLOAD_BYTES <? len payload then (s, Err EPayloadAboveLimit) else
  match find_by_id s id with
  | None => (s, Err EClientNotFound)
  | Some (slot, c) =>
      match encode OUT_CAP (PPayload payload) (ns_protocol s) (Some (nc_seq c, nc_send_key c)) with
      | Ok out => (set_slot s slot (Some (nc_sent c (ns_now s))), Ok (nc_addr c, out))
      | Err e => (s, Err e)
      | Panic p => (s, Panic p)
      end
  end.

Definition set_max_clients (s : nserver) (m : N) : nserver :=
  let m := if NC_MAX_CLIENTS <? m then NC_MAX_CLIENTS else m in
  let s1 := if len (ns_clients s) <? m
            then set_clients s (ns_clients s ++ repeatN None (N.to_nat (m - len (ns_clients s))))
            else s in
  set_max s1 m.

Definition nserver_update (s : nserver) (dt : N) : nserver :=
  let now := ns_now s + dt in
  set_pending (set_now s now) (filter (fun ac => negb (nc_expire (snd ac) <? as_secs now)) (ns_pending s)).

Definition update_client (s : nserver) (id : N) : nres (nserver * sresult) :=
  match find_by_id s id with
  | None => Ok (s, SRNone)
  | Some (slot, c) =>
      let timed_out := (0 <? nc_timeout c)%Z && (nc_last_recv c + Z.to_N (nc_timeout c) * NS_PER_SEC <? ns_now s) in
      if timed_out then
        match encode OUT_CAP PDisconnect (ns_protocol s) (Some (nc_seq c, nc_send_key c)) with
        | Ok out => Ok (set_slot s slot None, SRDisconnected id (nc_addr c) (Some out))
        | Err _ => Ok (set_slot s slot None, SRDisconnected id (nc_addr c) None)
        | Panic p => Panic p
        end
      else if nc_last_send c + NC_SEND_RATE_MS * 1000000 <=? ns_now s then
        match encode OUT_CAP (PKeepAlive slot (ns_max s)) (ns_protocol s) (Some (nc_seq c, nc_send_key c)) with
        | Ok out => Ok (set_slot s slot (Some (nc_sent c (ns_now s))), SRPacketToSend (nc_addr c) out)
        | Err _ => Ok (s, SRNone)
        | Panic p => Panic p
        end
      else Ok (s, SRNone)
  end.

Definition nserver_disconnect (s : nserver) (id : N) : nres (nserver * sresult) :=
  match find_by_id s id with
  | None => Ok (s, SRNone)
  | Some (slot, c) =>
      match encode OUT_CAP PDisconnect (ns_protocol s) (Some (nc_seq c, nc_send_key c)) with
      | Ok out => Ok (set_slot s slot None, SRDisconnected id (nc_addr c) (Some out))
      | Err _ => Ok (set_slot s slot None, SRDisconnected id (nc_addr c) None)
      | Panic p => Panic p
      end
  end.
