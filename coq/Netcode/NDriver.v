(* NDriver.v - executable world for the renetcode correspondence suites. *)
From RenetV Require Import Base Consts Tree Aead NPacket Token NServer NClient.
Open Scope N_scope.

Record nworld := {
  nw_server : option nserver;
  nw_clients : list (N * nclient);
  nw_tokens : list (N * connect_token);
  nw_replays : list (N * replay);
}.
Definition nworld0 : nworld := {| nw_server := None; nw_clients := []; nw_tokens := []; nw_replays := [] |}.

Fixpoint afind {V} (k : N) (m : list (N * V)) : option V :=
  match m with [] => None | (k', v) :: t => if k =? k' then Some v else afind k t end.
Fixpoint aput {V} (k : N) (v : V) (m : list (N * V)) : list (N * V) :=
  match m with [] => [(k, v)] | (k', v') :: t => if k =? k' then (k, v) :: t else (k', v') :: aput k v t end.

(* ---------- trees ---------- *)
Definition t_addr (a : addr) : tree :=
  match a with AddrV4 ip p => TL [TN 4; TB ip; TN p] | AddrV6 ip p => TL [TN 6; TB ip; TN p] end.
Definition d_addr (t : tree) : option addr :=
  match t with
  | TL [TN 4; TB ip; TN p] => Some (AddrV4 ip p)
  | TL [TN 6; TB ip; TN p] => Some (AddrV6 ip p)
  | _ => None
  end.
Fixpoint d_addrs (l : list tree) : option (list addr) :=
  match l with
  | [] => Some []
  | t :: r => match d_addr t, d_addrs r with Some a, Some rs => Some (a :: rs) | _, _ => None end
  end.

Definition t_z (z : Z) : tree := if (z <? 0)%Z then TL [TN 1; TN (Z.to_N (- z))] else TL [TN 0; TN (Z.to_N z)].
Definition d_z (t : tree) : option Z :=
  match t with TL [TN 0; TN m] => Some (Z.of_N m) | TL [TN 1; TN m] => Some (- Z.of_N m)%Z | _ => None end.

Definition t_creason (r : creason) : tree :=
  TN (match r with CRTokenExpired => 0 | CRTimedOut => 1 | CRResponseTimedOut => 2 | CRRequestTimedOut => 3
                 | CRDenied => 4 | CRByClient => 5 | CRByServer => 6 end).

Definition t_nerr (e : nerr) : tree :=
  match e with
  | EUnavailablePrivateKey => TL [TN 0] | EInvalidPacketType => TL [TN 1] | EInvalidProtocolID => TL [TN 2]
  | EInvalidVersion => TL [TN 3] | EPacketTooSmall => TL [TN 4] | EPayloadAboveLimit => TL [TN 5]
  | EDuplicatedSequence => TL [TN 6] | ENoMoreServers => TL [TN 7] | EExpired => TL [TN 8]
  | EDisconnected r => TL [TN 9; t_creason r] | ECryptoError => TL [TN 10] | ENotInHostList => TL [TN 11]
  | EClientNotFound => TL [TN 12] | EClientNotConnected => TL [TN 13] | EIoError => TL [TN 14] | ETokenGeneration => TL [TN 15]
  end.

Definition t_npacket (p : npacket) : tree :=
  match p with
  | PRequest v pr ex xn d => TL [TN 0; TB v; TN pr; TN ex; TB xn; TB d]
  | PDenied => TL [TN 1]
  | PChallenge s d => TL [TN 2; TN s; TB d]
  | PResponse s d => TL [TN 3; TN s; TB d]
  | PKeepAlive ci mc => TL [TN 4; TN ci; TN mc]
  | PPayload b => TL [TN 5; TB b]
  | PDisconnect => TL [TN 6]
  end.
Definition d_npacket (t : tree) : option npacket :=
  match t with
  | TL [TN 0; TB v; TN pr; TN ex; TB xn; TB d] => Some (PRequest v pr ex xn d)
  | TL [TN 1] => Some PDenied
  | TL [TN 2; TN s; TB d] => Some (PChallenge s d)
  | TL [TN 3; TN s; TB d] => Some (PResponse s d)
  | TL [TN 4; TN ci; TN mc] => Some (PKeepAlive ci mc)
  | TL [TN 5; TB b] => Some (PPayload b)
  | TL [TN 6] => Some PDisconnect
  | _ => None
  end.

Definition t_slots (l : list (option addr)) : tree := TL (map (topt t_addr) l).

Definition t_token (t : connect_token) : tree :=
  TL [TN (ct_client_id t); TB (ct_version t); TN (ct_protocol t); TN (ct_create t); TN (ct_expire t);
      TB (ct_xnonce t); t_slots (ct_addrs t); TB (ct_c2s t); TB (ct_s2c t); TB (ct_private t); t_z (ct_timeout t)].

Definition t_private (t : private_token) : tree :=
  TL [TN (pt_client_id t); t_z (pt_timeout t); t_slots (pt_addrs t); TB (pt_c2s t); TB (pt_s2c t); TB (pt_user t)].

Definition t_sresult (r : sresult) : tree :=
  match r with
  | SRNone => TL [TN 0]
  | SRPacketToSend a p => TL [TN 1; t_addr a; TB p]
  | SRPayload id p => TL [TN 2; TN id; TB p]
  | SRConnected id a u p => TL [TN 3; TN id; t_addr a; TB u; TB p]
  | SRDisconnected id a p => TL [TN 4; TN id; t_addr a; topt TB p]
  end.

Definition t_nres {A} (f : A -> tree) (r : nres A) : tree :=
  match r with Ok a => TL [TN 0; f a] | Err e => TL [TN 1; t_nerr e] | Panic _ => T_PANIC end.

(* canonical order of pending entries: by address *)
Fixpoint bytes_ltb (a b : list N) : bool :=
  match a, b with
  | [], [] => false
  | [], _ => true
  | _, [] => false
  | x :: a', y :: b' => if x <? y then true else if y <? x then false else bytes_ltb a' b'
  end.
Definition addr_ltb (a b : addr) : bool :=
  match a, b with
  | AddrV4 _ _, AddrV6 _ _ => true
  | AddrV6 _ _, AddrV4 _ _ => false
  | AddrV4 i p, AddrV4 j q | AddrV6 i p, AddrV6 j q =>
      if bytes_ltb i j then true else if bytes_ltb j i then false else p <? q
  end.
Fixpoint insert_pending (x : addr * nconn) (l : list (addr * nconn)) : list (addr * nconn) :=
  match l with
  | [] => [x]
  | y :: t => if addr_ltb (fst x) (fst y) then x :: l else y :: insert_pending x t
  end.
Definition sort_pending (l : list (addr * nconn)) : list (addr * nconn) := fold_right insert_pending [] l.

Definition t_nconn (slot : N) (c : nconn) : tree :=
  TL [TN slot; TN (nc_id c); t_addr (nc_addr c); tbool (nc_confirmed c); TN (nc_seq c); TN (nc_last_recv c);
      TN (nc_last_send c); t_z (nc_timeout c); TN (nc_expire c); TB (nc_user c)].

Fixpoint t_clients (cl : list (option nconn)) (i : N) : list tree :=
  match cl with
  | [] => []
  | Some c :: t => t_nconn i c :: t_clients t (i + 1)
  | None :: t => t_clients t (i + 1)
  end.

Definition t_server_state (s : nserver) : tree :=
  TL [TL (t_clients (ns_clients s) 0);
      TL (map (fun ac => t_nconn 0 (snd ac)) (sort_pending (ns_pending s)));
      TN (ns_global_seq s); TN (ns_chal_seq s); TN (ns_max s); TN (len (ns_clients s));
      TN (count_some (ns_entries s)); TN (ns_now s); tn_list (clients_id s)].

Definition t_cstate (s : cstate) : tree :=
  match s with
  | CDisconnected r => TL [TN 0; t_creason r]
  | CSendingRequest => TL [TN 1]
  | CSendingResponse => TL [TN 2]
  | CConnected => TL [TN 3]
  end.

Definition t_client_state (c : nclient) : tree :=
  TL [t_cstate (cl_state c); TN (cl_seq c); TN (cl_last_recv c); topt TN (cl_last_send c); TN (cl_addr_index c);
      TN (cl_chal_seq c); t_addr (cl_server_addr c); TN (cl_now c); TN (cl_id c);
      t_nres TN (NClient.time_since_last_received c)].

Definition d_optb (t : tree) : option (option (list N)) :=
  match t with TL [TN 0] => Some None | TL [TN 1; TB b] => Some (Some b) | _ => None end.

(* ---------- steps ---------- *)
Fixpoint fill_entries (es : list (option token_entry)) (i count base : N) (a : addr) : list (option token_entry) :=
  match es with
  | [] => []
  | e :: t =>
      (if i <? count
       then Some {| te_time := base + i; te_addr := a; te_mac := le64 i ++ repeat 0 (N.to_nat (NC_MAC_BYTES - 8)) |}
       else e) :: fill_entries t (i + 1) count base a
  end.

Definition on_nserver (w : nworld) (f : nserver -> nres (nserver * tree)) : nworld * tree :=
  match nw_server w with
  | None => (w, T_UNRESOLVED)
  | Some s =>
      match f s with
      | Ok (s', t) => ({| nw_server := Some s'; nw_clients := nw_clients w; nw_tokens := nw_tokens w; nw_replays := nw_replays w |}, t)
      | Err _ => (w, T_PANIC)
      | Panic _ => (w, T_PANIC)
      end
  end.

Definition on_nclient (w : nworld) (k : N) (f : nclient -> nres (nclient * tree)) : nworld * tree :=
  match afind k (nw_clients w) with
  | None => (w, T_UNRESOLVED)
  | Some c =>
      match f c with
      | Ok (c', t) => ({| nw_server := nw_server w; nw_clients := aput k c' (nw_clients w); nw_tokens := nw_tokens w; nw_replays := nw_replays w |}, t)
      | Err _ => (w, T_PANIC)
      | Panic _ => (w, T_PANIC)
      end
  end.

Definition nstep (w : nworld) (op : tree) : nworld * tree :=
  match op with
  | TL [TN 100; TN now; TN max; TN protocol; TL addrs; key; TB chal] =>
      match d_addrs addrs, d_optb key with
      | Some al, Some k =>
          match nserver_new now max protocol al k chal with
          | Ok s => ({| nw_server := Some s; nw_clients := nw_clients w; nw_tokens := nw_tokens w; nw_replays := nw_replays w |}, TL [])
          | _ => (w, T_PANIC)
          end
      | _, _ => (w, T_BAD_OP)
      end
  | TL [TN 101; TN k; TN now; TN protocol; TN expire_secs; TN cid; tz; TL addrs; TB user; TB key; TB xnonce; TB c2s; TB s2c] =>
      match d_addrs addrs, d_z tz with
      | Some al, Some timeout =>
          match token_generate now protocol expire_secs cid timeout al user key xnonce c2s s2c with
          | Ok t => ({| nw_server := nw_server w; nw_clients := nw_clients w; nw_tokens := aput k t (nw_tokens w); nw_replays := nw_replays w |},
                     TL [TN 0; TB (token_write t)])
          | Err e => (w, TL [TN 1; t_nerr e])
          | Panic _ => (w, T_PANIC)
          end
      | _, _ => (w, T_BAD_OP)
      end
  | TL [TN 102; TN k; TN now; TN tk] =>
      match afind tk (nw_tokens w) with
      | None => (w, T_UNRESOLVED)
      | Some t =>
          match nclient_new now t with
          | Ok c => ({| nw_server := nw_server w; nw_clients := aput k c (nw_clients w); nw_tokens := nw_tokens w; nw_replays := nw_replays w |}, TL [TN 0])
          | Err e => (w, TL [TN 1; t_nerr e])
          | Panic _ => (w, T_PANIC)
          end
      end
  (* NetcodeClient::new in unsecure mode: the client builds its own token (zero key, fixed expiry and timeout) *)
  | TL [TN 128; TN k; TN tk; TN now; TN protocol; TN cid; a; TB user; TB xnonce; TB c2s; TB s2c] =>
      match d_addr a with
      | Some sa =>
          match token_generate now protocol NC_UNSECURE_EXPIRE_SECS cid (Z.of_N NC_UNSECURE_TIMEOUT_SECS) [sa] user
                               (repeat 0 (N.to_nat NC_KEY_BYTES)) xnonce c2s s2c with
          | Ok t =>
              match nclient_new now t with
              | Ok c => ({| nw_server := nw_server w; nw_clients := aput k c (nw_clients w);
                            nw_tokens := aput tk t (nw_tokens w); nw_replays := nw_replays w |},
                         TL [TN 0; TB (token_write t)])
              | Err e => (w, TL [TN 1; t_nerr e])
              | Panic _ => (w, T_PANIC)
              end
          | Err e => (w, TL [TN 1; t_nerr e])
          | Panic _ => (w, T_PANIC)
          end
      | None => (w, T_BAD_OP)
      end
  | TL [TN 103; TN k; TN dt] =>
      on_nclient w k (fun c => do r <- nclient_update c dt; let (c', o) := r in
                               Ok (c', topt (fun ba => TL [TB (fst ba); t_addr (snd ba)]) o))
  | TL [TN 104; TN k; TB buf] =>
      on_nclient w k (fun c => let (c', o) := nclient_process_packet c buf in Ok (c', topt TB o))
  | TL [TN 105; TN k; TB payload] =>
      on_nclient w k (fun c => let (c', r) := nclient_generate_payload c payload in
                               match r with Panic p => Panic p | _ => Ok (c', t_nres (fun ab => TL [t_addr (fst ab); TB (snd ab)]) r) end)
  | TL [TN 106; TN k] =>
      on_nclient w k (fun c => let (c', r) := nclient_disconnect c in
                               match r with Panic p => Panic p | _ => Ok (c', t_nres (fun ab => TL [t_addr (fst ab); TB (snd ab)]) r) end)
  | TL [TN 107; TN k] => on_nclient w k (fun c => Ok (c, t_client_state c))
  | TL [TN 110; a; TB buf] =>
      match d_addr a with
      | Some a => on_nserver w (fun s => do r <- process_packet s a buf; let (s', x) := r in Ok (s', t_sresult x))
      | None => (w, T_BAD_OP)
      end
  | TL [TN 111; TN dt] => on_nserver w (fun s => Ok (nserver_update s dt, TL []))
  | TL [TN 112; TN id] => on_nserver w (fun s => do r <- update_client s id; let (s', x) := r in Ok (s', t_sresult x))
  | TL [TN 113; TN id] => on_nserver w (fun s => do r <- nserver_disconnect s id; let (s', x) := r in Ok (s', t_sresult x))
  | TL [TN 114; TN id; TB payload] =>
      on_nserver w (fun s => let (s', r) := generate_payload_packet s id payload in
                             match r with Panic p => Panic p | _ => Ok (s', t_nres (fun ab => TL [t_addr (fst ab); TB (snd ab)]) r) end)
  | TL [TN 115; TN m] => on_nserver w (fun s => Ok (set_max_clients s m, TL []))
  (* verification hook: the first `count` slots of the connect token table hold synthetic entries *)
  | TL [TN 129; TN count; TN base; a] =>
      match d_addr a with
      | Some sa => on_nserver w (fun s => Ok (set_entries s (fill_entries (ns_entries s) 0 count base sa), TL []))
      | None => (w, T_BAD_OP)
      end
  | TL [TN 116] => on_nserver w (fun s => Ok (s, t_server_state s))
  | TL [TN 119; TN id] =>
      on_nserver w (fun s => do t <- NServer.time_since_last_received s id;
                             Ok (s, TL [topt TB (user_data s id); topt t_addr (client_addr s id); topt TN t; tbool (is_client_connected s id)]))
  | TL [TN 117; TB bytes] =>
      (* what was read, and what reading its re-serialisation gives *)
      (w, t_nres (fun t => TL [t_token t; t_nres t_token (token_read (token_write t))]) (token_read bytes))
  | TL [TN 118; TN k; TN now; TB bytes] =>
      match token_read bytes with
      | Ok t =>
          match nclient_new now t with
          | Ok c => ({| nw_server := nw_server w; nw_clients := aput k c (nw_clients w); nw_tokens := nw_tokens w; nw_replays := nw_replays w |}, TL [TN 0])
          | Err e => (w, TL [TN 1; t_nerr e])
          | Panic _ => (w, T_PANIC)
          end
      | Err e => (w, TL [TN 1; t_nerr e])
      | Panic _ => (w, T_PANIC)
      end
  (* codec suite *)
  | TL [TN 120; TB buf; TN protocol; key] =>
      match d_optb key with
      | Some k => (w, t_nres (fun sp => TL [TN (fst sp); t_npacket (snd sp)]) (snd (decode buf protocol k None)))
      | None => (w, T_BAD_OP)
      end
  | TL [TN 121; TN r] =>
      ({| nw_server := nw_server w; nw_clients := nw_clients w; nw_tokens := nw_tokens w; nw_replays := aput r replay_new (nw_replays w) |}, TL [])
  | TL [TN 122; TN r; TN s] =>
      match afind r (nw_replays w) with Some rp => (w, tbool (already_received rp s)) | None => (w, T_UNRESOLVED) end
  | TL [TN 123; TN r; TN s] =>
      match afind r (nw_replays w) with
      | Some rp => ({| nw_server := nw_server w; nw_clients := nw_clients w; nw_tokens := nw_tokens w;
                       nw_replays := aput r (advance_sequence rp s) (nw_replays w) |}, TL [])
      | None => (w, T_UNRESOLVED)
      end
  | TL [TN 124; p; TN protocol; TN s; key; TN cap] =>
      match d_npacket p, d_optb key with
      | Some p, Some k => (w, t_nres TB (encode cap p protocol (option_map (fun kk => (s, kk)) k)))
      | _, _ => (w, T_BAD_OP)
      end
  | TL [TN 125; TB data; TN protocol; TN expire; TB xnonce; TB key] =>
      (w, t_nres t_private (private_decode data protocol expire xnonce key))
  | TL [TN 126; TB tdata; TN tseq; TB key] =>
      (w, t_nres (fun iu => TL [TN (fst iu); TB (snd iu)]) (challenge_decode tdata tseq key))
  (* decode through a stored replay window, as the endpoints do *)
  | TL [TN 127; TN r; TB buf; TN protocol; TB key] =>
      match afind r (nw_replays w) with
      | Some rp =>
          let (rp', res) := decode buf protocol (Some key) (Some rp) in
          ({| nw_server := nw_server w; nw_clients := nw_clients w; nw_tokens := nw_tokens w;
              nw_replays := aput r (match rp' with Some x => x | None => rp end) (nw_replays w) |},
           t_nres (fun sp => TL [TN (fst sp); t_npacket (snd sp)]) res)
      | None => (w, T_UNRESOLVED)
      end
  | _ => (w, T_BAD_OP)
  end.
