(* RDriver.v - executable world for the renet correspondence suites: decodes an
   operation tree, runs the model, returns the observation tree. *)
From RenetV Require Import Base Consts Tree Varint Packet Channels Conn Server.
Open Scope N_scope.

Record rworld := { rw_conns : list (N * conn); rw_server : option server }.
Definition rworld0 : rworld := {| rw_conns := []; rw_server := None |}.

(* ---------- encoders of observations ---------- *)
Definition t_ser_err (e : ser_err) : tree :=
  TN (match e with BufferTooShort => 0 | InvalidNumSlices => 1 | SliceSizeAboveLimit => 2
                 | EmptySlice => 3 | InvalidAckRange => 4 | InvalidPacketType => 5 end).
Definition t_chan_err (e : chan_err) : tree :=
  TN (match e with ReliableChannelMaxMemoryReached => 0 | InvalidSliceMessage => 1 end).

Definition t_reason (r : reason) : tree :=
  match r with
  | RTransport => TL [TN 0]
  | RDisconnectedByClient => TL [TN 1]
  | RDisconnectedByServer => TL [TN 2]
  | RPacketSerialization e => TL [TN 3; t_ser_err e]
  | RPacketDeserialization e => TL [TN 4; t_ser_err e]
  | RReceivedInvalidChannelId ch => TL [TN 5; TN ch]
  | RSendChannelError ch e => TL [TN 6; TN ch; t_chan_err e]
  | RReceiveChannelError ch e => TL [TN 7; TN ch; t_chan_err e]
  end.

Definition t_status (s : status) : tree :=
  match s with
  | Connected => TL [TN 0]
  | Connecting => TL [TN 1]
  | Disconnected r => TL [TN 2; t_reason r]
  end.

Definition t_slice (s : slice) : tree :=
  TL [TN (sl_id s); TN (sl_index s); TN (sl_num s); TB (sl_payload s)].

Definition t_packet (p : packet) : tree :=
  match p with
  | SmallReliable seq ch ms => TL [TN 0; TN seq; TN ch; TL (map (fun im => TL [TN (fst im); TB (snd im)]) ms)]
  | SmallUnreliable seq ch ms => TL [TN 1; TN seq; TN ch; TL (map TB ms)]
  | ReliableSlice seq ch s => TL [TN 2; TN seq; TN ch; t_slice s]
  | UnreliableSlice seq ch s => TL [TN 3; TN seq; TN ch; t_slice s]
  | Ack seq rs => TL [TN 4; TN seq; TL (map (fun ab => TL [TN (fst ab); TN (snd ab)]) rs)]
  end.

Definition t_unacked (u : N * unacked) : tree :=
  match snd u with
  | USmall _ _ => TL [TN (fst u); TL []]
  | USliced _ _ _ _ acked _ => TL [TN (fst u); TL (map tbool acked)]
  end.

Definition t_conn_state (c : conn) : tree :=
  let live := negb (is_disconnected c) in
  TL [ t_status (c_status c);
       TN (c_seq c);
       TL (map (fun x => TL [TN (fst x); TN (sr_mem (snd x))]) (c_sr c));
       TL (map (fun x => TL [TN (fst x); TN (su_mem (snd x))]) (c_su c));
       TL (map (fun x => TL [TN (fst x); TL (map t_unacked (sr_unacked (snd x)))]) (c_sr c));
       TL (map (fun ab => TL [TN (fst ab); TN (snd ab)]) (c_acks c));
       tn_list (map fst (c_sent c));
       (* receive side: not observable through the public API once disconnected *)
       if live then
         TL [ TL (map (fun x => TL [TN (fst x); TN (rr_mem (snd x))]) (c_rr c));
              TL (map (fun x => TL [TN (fst x); TN (ru_mem (snd x))]) (c_ru c));
              TL (map (fun x => TL [TN (fst x); TN (rr_oldest (snd x)); tn_list (map fst (rr_messages (snd x)));
                                    tn_list (map fst (rr_slices (snd x)))]) (c_rr c));
              TL (map (fun x => TL [TN (fst x); tn_list (map fst (ru_slices (snd x)))]) (c_ru c)) ]
       else TL [] ].

Definition t_event (e : event) : tree :=
  match e with
  | EvConnected id => TL [TN 0; TN id]
  | EvDisconnected id r => TL [TN 1; TN id; t_reason r]
  end.

(* ---------- decoders of operations ---------- *)
Definition d_type (ty resend : N) : option send_type :=
  match ty with 0 => Some TUnreliable | 1 => Some (TReliableOrdered resend) | 2 => Some (TReliableUnordered resend) | _ => None end.

Fixpoint d_cfgs (l : list tree) : option (list chan_config) :=
  match l with
  | [] => Some []
  | TL [TN id; TN max; TN ty; TN resend] :: t =>
      match d_type ty resend, d_cfgs t with
      | Some st, Some r => Some ({| cc_id := id; cc_max := max; cc_type := st |} :: r)
      | _, _ => None
      end
  | _ => None
  end.

Definition d_slice (t : tree) : option slice :=
  match t with
  | TL [TN id; TN idx; TN n; TB p] => Some {| sl_id := id; sl_index := idx; sl_num := n; sl_payload := p |}
  | _ => None
  end.

Fixpoint d_rel_msgs (l : list tree) : option (list (N * list N)) :=
  match l with
  | [] => Some []
  | TL [TN id; TB m] :: t => match d_rel_msgs t with Some r => Some ((id, m) :: r) | None => None end
  | _ => None
  end.
Fixpoint d_unrel_msgs (l : list tree) : option (list (list N)) :=
  match l with
  | [] => Some []
  | TB m :: t => match d_unrel_msgs t with Some r => Some (m :: r) | None => None end
  | _ => None
  end.
Fixpoint d_ranges (l : list tree) : option (list (N * N)) :=
  match l with
  | [] => Some []
  | TL [TN a; TN b] :: t => match d_ranges t with Some r => Some ((a, b) :: r) | None => None end
  | _ => None
  end.

Definition d_packet (t : tree) : option packet :=
  match t with
  | TL [TN 0; TN seq; TN ch; TL ms] => option_map (SmallReliable seq ch) (d_rel_msgs ms)
  | TL [TN 1; TN seq; TN ch; TL ms] => option_map (SmallUnreliable seq ch) (d_unrel_msgs ms)
  | TL [TN 2; TN seq; TN ch; s] => option_map (ReliableSlice seq ch) (d_slice s)
  | TL [TN 3; TN seq; TN ch; s] => option_map (UnreliableSlice seq ch) (d_slice s)
  | TL [TN 4; TN seq; TL rs] => option_map (Ack seq) (d_ranges rs)
  | _ => None
  end.

(* ---------- endpoint access ---------- *)
Inductive ep := EConn (k : N) | ESrv (id : N).
Definition d_ep (t : tree) : option ep :=
  match t with TL [TN 0; TN k] => Some (EConn k) | TL [TN 1; TN id] => Some (ESrv id) | _ => None end.

Definition get_conn (w : rworld) (e : ep) : option conn :=
  match e with
  | EConn k => sm_find k (rw_conns w)
  | ESrv id => match rw_server w with Some s => sm_find id (s_conns s) | None => None end
  end.

Definition put_conn (w : rworld) (e : ep) (c : conn) : rworld :=
  match e with
  | EConn k => {| rw_conns := sm_insert k c (rw_conns w); rw_server := rw_server w |}
  | ESrv id => match rw_server w with
               | Some s => {| rw_conns := rw_conns w; rw_server := Some (with_conns s (sm_insert id c (s_conns s))) |}
               | None => w
               end
  end.

Definition put_server (w : rworld) (s : server) : rworld := {| rw_conns := rw_conns w; rw_server := Some s |}.

(* run a connection-level call on an endpoint *)
Definition on_conn (w : rworld) (e : ep) (f : conn -> pres (conn * tree)) : rworld * tree :=
  match get_conn w e with
  | None => (w, T_UNRESOLVED)
  | Some c =>
      match f c with
      | Ok (c', t) => (put_conn w e c', t)
      | Err _ => (w, T_PANIC)
      | Panic _ => (w, T_PANIC)
      end
  end.

Definition on_server (w : rworld) (f : server -> pres (server * tree)) : rworld * tree :=
  match rw_server w with
  | None => (w, T_UNRESOLVED)
  | Some s =>
      match f s with
      | Ok (s', t) => (put_server w s', t)
      | Err _ => (w, T_PANIC)
      | Panic _ => (w, T_PANIC)
      end
  end.

Definition st (c : conn) : tree := t_status (c_status c).

(* verification hook RenetClient::verif_warp: the counters of a connection that has exchanged nothing yet are
   moved forward (packet sequence, message ids of every channel) *)
Definition warp_sr (id : N) (s : send_rel) : send_rel :=
  match sr_unacked s with
  | [] => {| sr_ch := sr_ch s; sr_unacked := []; sr_next_id := id; sr_resend := sr_resend s; sr_max := sr_max s; sr_mem := sr_mem s |}
  | _ => s
  end.
Definition warp_su (id : N) (s : send_unrel) : send_unrel :=
  {| su_ch := su_ch s; su_queue := su_queue s; su_sliced_id := id; su_max := su_max s; su_mem := su_mem s |}.
Definition warp_rr (id : N) (r : recv_rel) : recv_rel :=
  match rr_messages r, rr_slices r with
  | [], [] => {| rr_slices := []; rr_messages := []; rr_oldest := id;
                 rr_order := match rr_order r with Unordered _ [] => Unordered id [] | o => o end;
                 rr_mem := rr_mem r; rr_max := rr_max r |}
  | _, _ => r
  end.
Definition warp (c : conn) (seq id : N) : conn :=
  match c_sent c, c_acks c with
  | [], [] =>
      {| c_seq := seq; c_now := c_now c; c_sent := []; c_acks := []; c_order := c_order c;
         c_su := map (fun e => (fst e, warp_su id (snd e))) (c_su c); c_ru := c_ru c;
         c_sr := map (fun e => (fst e, warp_sr id (snd e))) (c_sr c);
         c_rr := map (fun e => (fst e, warp_rr id (snd e))) (c_rr c);
         c_budget := c_budget c; c_status := c_status c |}
  | _, _ => c
  end.

(* ---------- one step ---------- *)
Definition rstep (w : rworld) (op : tree) : rworld * tree :=
  match op with
  (* --- construction --- *)
  | TL [TN 1; TN k; TN budget; TL scfg; TL rcfg] =>
      match d_cfgs scfg, d_cfgs rcfg with
      | Some sc, Some rc =>
          match conn_new budget sc rc with
          | Ok c => ({| rw_conns := sm_insert k c (rw_conns w); rw_server := rw_server w |}, st c)
          | _ => (w, T_PANIC)
          end
      | _, _ => (w, T_BAD_OP)
      end
  | TL [TN 2; TN budget; TL scfg; TL ccfg] =>
      match d_cfgs scfg, d_cfgs ccfg with
      | Some sc, Some cc => (put_server w (server_new budget sc cc), TL [])
      | _, _ => (w, T_BAD_OP)
      end
  (* --- connection-level API on any endpoint --- *)
  | TL [TN 3; e; TN ch; TB m] =>
      match d_ep e with
      | Some e => on_conn w e (fun c => do c' <- send_message c ch m; Ok (c', st c'))
      | None => (w, T_BAD_OP) end
  | TL [TN 4; e; TN ch] =>
      match d_ep e with
      | Some e => on_conn w e (fun c => do r <- receive_message c ch; let (c', m) := r in Ok (c', topt TB m))
      | None => (w, T_BAD_OP) end
  | TL [TN 5; e; TN dt] =>
      match d_ep e with
      | Some e => on_conn w e (fun c => do c' <- update c dt; Ok (c', st c'))
      | None => (w, T_BAD_OP) end
  | TL [TN 6; TN dt] => on_server w (fun s => do s' <- srv_update s dt; Ok (s', TL []))
  | TL [TN 7; e] =>
      match d_ep e with
      | Some e => on_conn w e (fun c => do r <- get_packets_to_send c; let (c', pk) := r in
                                         Ok (c', TL [TL (map TB pk); st c']))
      | None => (w, T_BAD_OP) end
  | TL [TN 8; e; TB bytes] =>
      match d_ep e with
      | Some e => on_conn w e (fun c => do c' <- process_packet c bytes; Ok (c', st c'))
      | None => (w, T_BAD_OP) end
  | TL [TN 9; e] =>
      match d_ep e with
      | Some e => on_conn w e (fun c => Ok (c, t_conn_state c))
      | None => (w, T_BAD_OP) end
  | TL [TN 10; e] =>
      match d_ep e with Some e => on_conn w e (fun c => let c' := set_connected c in Ok (c', st c')) | None => (w, T_BAD_OP) end
  | TL [TN 11; e] =>
      match d_ep e with Some e => on_conn w e (fun c => let c' := set_connecting c in Ok (c', st c')) | None => (w, T_BAD_OP) end
  | TL [TN 12; e] =>
      match d_ep e with Some e => on_conn w e (fun c => let c' := disconnect c in Ok (c', st c')) | None => (w, T_BAD_OP) end
  | TL [TN 13; e] =>
      match d_ep e with Some e => on_conn w e (fun c => let c' := disconnect_transport c in Ok (c', st c')) | None => (w, T_BAD_OP) end
  | TL [TN 14; e; TN seq; TN id] =>
      match d_ep e with
      | Some (EConn k) => on_conn w (EConn k) (fun c => Ok (warp c seq id, TL []))
      | Some (ESrv _) => (w, T_UNRESOLVED)
      | None => (w, T_BAD_OP)
      end
  | TL [TN 30; e; TN ch] =>
      match d_ep e with
      | Some e => on_conn w e (fun c => do n <- channel_available_memory c ch; Ok (c, TN n))
      | None => (w, T_BAD_OP) end
  | TL [TN 31; e; TN ch; TN size] =>
      match d_ep e with
      | Some e => on_conn w e (fun c => do b <- can_send_message c ch size; Ok (c, tbool b))
      | None => (w, T_BAD_OP) end
  (* --- server API --- *)
  | TL [TN 20; TN id] => on_server w (fun s => do s' <- add_connection s id; Ok (s', TL []))
  | TL [TN 21; TN id] => on_server w (fun s => Ok (remove_connection s id, TL []))
  | TL [TN 22; TN id] => on_server w (fun s => Ok (srv_disconnect s id, TL []))
  | TL [TN 23] => on_server w (fun s => Ok (disconnect_all s, TL []))
  | TL [TN 24; TN ch; TB m] => on_server w (fun s => do s' <- broadcast_message s ch m; Ok (s', TL []))
  | TL [TN 25; TN id; TN ch; TB m] => on_server w (fun s => do s' <- broadcast_message_except s id ch m; Ok (s', TL []))
  | TL [TN 26] => on_server w (fun s => let (s', e) := get_event s in Ok (s', topt t_event e))
  | TL [TN 27] => on_server w (fun s => Ok (s, TL [tn_list (clients_id s); tn_list (disconnections_id s); tn_list (map fst (s_conns s))]))
  | TL [TN 28; TN id; TN k] =>
      match rw_server w with
      | None => (w, T_UNRESOLVED)
      | Some s =>
          match new_local_client s id with
          | Ok (s', c) => ({| rw_conns := sm_insert k c (rw_conns w); rw_server := Some s' |}, st c)
          | _ => (w, T_PANIC)
          end
      end
  | TL [TN 29; TN id; TN k] =>
      match rw_server w, sm_find k (rw_conns w) with
      | Some s, Some c =>
          let (s', c') := disconnect_local_client s id c in
          ({| rw_conns := sm_insert k c' (rw_conns w); rw_server := Some s' |}, st c')
      | _, _ => (w, T_UNRESOLVED)
      end
  | TL [TN 39; TN id; TN k] =>
      match rw_server w, sm_find k (rw_conns w) with
      | Some s, Some c =>
          match process_local_client s id c with
          | Ok (s', c', ok) => ({| rw_conns := sm_insert k c' (rw_conns w); rw_server := Some s' |}, TL [tbool ok; st c'])
          | _ => (w, T_PANIC)
          end
      | _, _ => (w, T_UNRESOLVED)
      end
  | TL [TN 42] => on_server w (fun s => Ok (s, TL [TN (connected_clients s); tbool (has_connections s)]))
  (* server-level wrappers, to exercise their own lookups *)
  | TL [TN 32; TN id; TN ch; TB m] => on_server w (fun s => do s' <- srv_send_message s id ch m; Ok (s', TL []))
  | TL [TN 33; TN id; TN ch] => on_server w (fun s => do r <- srv_receive_message s id ch; let (s', m) := r in Ok (s', topt TB m))
  | TL [TN 34; TN id] => on_server w (fun s => do r <- srv_get_packets_to_send s id; let (s', pk) := r in
                                               Ok (s', topt (fun l => TL (map TB l)) pk))
  | TL [TN 35; TN id; TB bytes] => on_server w (fun s => do r <- process_packet_from s bytes id; let (s', ok) := r in Ok (s', tbool ok))
  | TL [TN 36; TN id] => on_server w (fun s => Ok (s, TL [tbool (srv_is_connected s id); topt t_reason (srv_disconnect_reason s id)]))
  | TL [TN 37; TN id; TN ch] => on_server w (fun s => do n <- srv_channel_available_memory s id ch; Ok (s, TN n))
  | TL [TN 38; TN id; TN ch; TN size] => on_server w (fun s => do b <- srv_can_send_message s id ch size; Ok (s, tbool b))
  (* --- codec suite --- *)
  | TL [TN 40; TB bytes] =>
      (w, match from_bytes bytes with
          | Ok p => TL [TN 0; t_packet p]
          | Err e => TL [TN 1; t_ser_err e]
          | Panic _ => T_PANIC end)
  | TL [TN 41; TN cap; p] =>
      match d_packet p with
      | None => (w, T_BAD_OP)
      | Some p => (w, match to_bytes cap p with
                      | Ok b => TL [TN 0; TB b]
                      | Err e => TL [TN 1; t_ser_err e]
                      | Panic _ => T_PANIC end)
      end
  | _ => (w, T_BAD_OP)
  end.

Fixpoint rrun (w : rworld) (ops : list tree) : list tree :=
  match ops with
  | [] => []
  | op :: t => let (w', o) := rstep w op in o :: rrun w' t
  end.
