(* Server.v - renet/src/server.rs (RenetServer) *)
From RenetV Require Import Base Consts Varint Packet Channels Conn.
Open Scope N_scope.

Inductive event :=
| EvConnected (id : N)
| EvDisconnected (id : N) (r : reason).

Record server := {
  s_conns : list (N * conn);       (* HashMap<ClientId, RenetClient>, kept sorted by id *)
  s_budget : N;
  s_send_cfg : list chan_config;   (* server_channels_config *)
  s_recv_cfg : list chan_config;   (* client_channels_config *)
  s_events : list event;           (* VecDeque, front first *)
}.

Definition server_new (budget : N) (server_cfg client_cfg : list chan_config) : server :=
  {| s_conns := []; s_budget := budget; s_send_cfg := server_cfg; s_recv_cfg := client_cfg; s_events := [] |}.

Definition with_conns (s : server) cs : server :=
  {| s_conns := cs; s_budget := s_budget s; s_send_cfg := s_send_cfg s; s_recv_cfg := s_recv_cfg s; s_events := s_events s |}.
Definition with_events (s : server) ev : server :=
  {| s_conns := s_conns s; s_budget := s_budget s; s_send_cfg := s_send_cfg s; s_recv_cfg := s_recv_cfg s; s_events := ev |}.

Definition new_from_server (s : server) : pres conn := conn_new (s_budget s) (s_send_cfg s) (s_recv_cfg s).

Definition add_connection (s : server) (id : N) : pres server :=
  if sm_mem id (s_conns s) then Ok s else
  do c <- new_from_server s;
  Ok (with_events (with_conns s (sm_insert id (set_connected c) (s_conns s))) (s_events s ++ [EvConnected id])).

Definition get_event (s : server) : server * option event :=
  match s_events s with [] => (s, None) | e :: t => (with_events s t, Some e) end.

Definition remove_connection (s : server) (id : N) : server :=
  match sm_find id (s_conns s) with
  | None => s
  | Some c =>
      let r := match disconnect_reason c with Some r => r | None => RTransport end in
      with_events (with_conns s (sm_remove id (s_conns s))) (s_events s ++ [EvDisconnected id r])
  end.

Definition srv_disconnect (s : server) (id : N) : server :=
  match sm_find id (s_conns s) with
  | None => s
  | Some c => with_conns s (sm_insert id (disconnect_with c RDisconnectedByServer) (s_conns s))
  end.

Definition disconnect_all (s : server) : server :=
  with_conns s (map (fun ic => (fst ic, disconnect_with (snd ic) RDisconnectedByServer)) (s_conns s)).

Fixpoint send_each (cs : list (N * conn)) (except : option N) (ch : N) (m : list N) : pres (list (N * conn)) :=
  match cs with
  | [] => Ok []
  | (id, c) :: t =>
      do c' <- (match except with
                | Some x => if x =? id then Ok c else send_message c ch m
                | None => send_message c ch m
                end);
      do t' <- send_each t except ch m;
      Ok ((id, c') :: t')
  end.

Definition broadcast_message (s : server) (ch : N) (m : list N) : pres server :=
  do cs <- send_each (s_conns s) None ch m; Ok (with_conns s cs).
Definition broadcast_message_except (s : server) (except ch : N) (m : list N) : pres server :=
  do cs <- send_each (s_conns s) (Some except) ch m; Ok (with_conns s cs).

Definition srv_send_message (s : server) (id ch : N) (m : list N) : pres server :=
  match sm_find id (s_conns s) with
  | None => Ok s
  | Some c => do c' <- send_message c ch m; Ok (with_conns s (sm_insert id c' (s_conns s)))
  end.

Definition srv_receive_message (s : server) (id ch : N) : pres (server * option (list N)) :=
  match sm_find id (s_conns s) with
  | None => Ok (s, None)
  | Some c => do r <- receive_message c ch; let (c', m) := r in Ok (with_conns s (sm_insert id c' (s_conns s)), m)
  end.

Definition srv_channel_available_memory (s : server) (id ch : N) : pres N :=
  match sm_find id (s_conns s) with None => Ok 0 | Some c => channel_available_memory c ch end.
Definition srv_can_send_message (s : server) (id ch size : N) : pres bool :=
  match sm_find id (s_conns s) with None => Ok false | Some c => can_send_message c ch size end.

Definition is_connected_st (c : conn) : bool := match c_status c with Connected => true | _ => false end.
Definition clients_id (s : server) : list N := map fst (filter (fun ic => is_connected_st (snd ic)) (s_conns s)).
Definition disconnections_id (s : server) : list N := map fst (filter (fun ic => is_disconnected (snd ic)) (s_conns s)).
Definition srv_is_connected (s : server) (id : N) : bool :=
  match sm_find id (s_conns s) with Some c => is_connected_st c | None => false end.
Definition srv_disconnect_reason (s : server) (id : N) : option reason :=
  match sm_find id (s_conns s) with Some c => disconnect_reason c | None => None end.

Fixpoint update_each (cs : list (N * conn)) (dt : N) : pres (list (N * conn)) :=
  match cs with
  | [] => Ok []
  | (id, c) :: t => do c' <- update c dt; do t' <- update_each t dt; Ok ((id, c') :: t')
  end.
Definition srv_update (s : server) (dt : N) : pres server :=
  do cs <- update_each (s_conns s) dt; Ok (with_conns s cs).

(* None = Err(ClientNotFound) *)
Definition srv_get_packets_to_send (s : server) (id : N) : pres (server * option (list (list N))) :=
  match sm_find id (s_conns s) with
  | None => Ok (s, None)
  | Some c => do r <- get_packets_to_send c; let (c', pk) := r in
              Ok (with_conns s (sm_insert id c' (s_conns s)), Some pk)
  end.

Definition process_packet_from (s : server) (bytes : list N) (id : N) : pres (server * bool) :=
  match sm_find id (s_conns s) with
  | None => Ok (s, false)
  | Some c => do c' <- process_packet c bytes; Ok (with_conns s (sm_insert id c' (s_conns s)), true)
  end.

(* local clients: the client half is an ordinary conn owned by the caller *)
Definition new_local_client (s : server) (id : N) : pres (server * conn) :=
  do c <- new_from_server s;
  do s' <- add_connection s id;
  Ok (s', set_connected c).

Definition disconnect_local_client (s : server) (id : N) (client : conn) : server * conn :=
  if is_disconnected client then (s, client) else
  let client' := disconnect client in
  match sm_find id (s_conns s) with
  | None => (s, client')
  | Some c =>
      let r := match disconnect_reason c with Some r => r | None => RDisconnectedByClient end in
      (with_events (with_conns s (sm_remove id (s_conns s))) (s_events s ++ [EvDisconnected id r]), client')
  end.

(* RenetServer::process_local_client: the server's packets for id go to the client, then the client's packets
   go to the server; the `?` of the library stops at the first ClientNotFound (false) *)
Fixpoint conn_process_all (c : conn) (pk : list (list N)) : pres conn :=
  match pk with
  | [] => Ok c
  | p :: t => do c' <- process_packet c p; conn_process_all c' t
  end.

Fixpoint srv_process_all (s : server) (id : N) (pk : list (list N)) : pres (server * bool) :=
  match pk with
  | [] => Ok (s, true)
  | p :: t => do r <- process_packet_from s p id;
              let (s', ok) := r in if ok then srv_process_all s' id t else Ok (s', false)
  end.

Definition process_local_client (s : server) (id : N) (client : conn) : pres (server * conn * bool) :=
  do r <- srv_get_packets_to_send s id;
  let (s1, opk) := r in
  match opk with
  | None => Ok (s1, client, false)
  | Some pk =>
      do c1 <- conn_process_all client pk;
      do r2 <- get_packets_to_send c1;
      let (c2, pk2) := r2 in
      do r3 <- srv_process_all s1 id pk2;
      let (s2, ok) := r3 in Ok (s2, c2, ok)
  end.

Definition connected_clients (s : server) : N := len (clients_id s).
Definition has_connections (s : server) : bool := match s_conns s with [] => false | _ => true end.

