(* Conn.v - renet/src/remote_connection.rs (RenetClient) *)
From RenetV Require Import Base Consts Varint Packet Channels.
Open Scope N_scope.

Inductive never : Type := .
Definition pres := res never.      (* connection-level calls never return Err *)

Inductive reason :=
| RTransport | RDisconnectedByClient | RDisconnectedByServer
| RPacketSerialization (e : ser_err) | RPacketDeserialization (e : ser_err)
| RReceivedInvalidChannelId (ch : N)
| RSendChannelError (ch : N) (e : chan_err)
| RReceiveChannelError (ch : N) (e : chan_err).

Inductive status := Connected | Connecting | Disconnected (r : reason).

Inductive sent_info :=
| SINone
| SIReliableMessages (ch : N) (ids : list N)
| SIReliableSlice (ch id idx : N)
| SIAck (largest : N).

Inductive send_type := TUnreliable | TReliableOrdered (resend : N) | TReliableUnordered (resend : N).
Record chan_config := { cc_id : N; cc_max : N; cc_type : send_type }.

Record conn := {
  c_seq : N;
  c_now : N;                                   (* ns *)
  c_sent : list (N * (N * sent_info));         (* BTreeMap seq -> (sent_at, info) *)
  c_acks : list (N * N);                       (* pending_acks *)
  c_order : list (bool * N);                   (* channel_send_order; true = Reliable *)
  c_su : list (N * send_unrel);
  c_ru : list (N * recv_unrel);
  c_sr : list (N * send_rel);
  c_rr : list (N * recv_rel);
  c_budget : N;
  c_status : status;
}.

Definition SITE_DUP_CHANNEL : N := 20.        (* assert!(old.is_none()) in from_channels *)
Definition SITE_INVALID_CHANNEL : N := 21.    (* panic!("Called ... with invalid channel") *)
Definition SITE_ORDER_UNWRAP : N := 22.       (* channel lookup .unwrap() *)
Definition SITE_SENT_UNWRAP : N := 23.        (* sent_packets.remove(..).unwrap() *)
Definition SITE_RANGE_START_GT_END : N := 24. (* BTreeMap::range with start > end *)
Definition SITE_IMPOSSIBLE_ERR : N := 25.     (* an Err from a function that has no Err path *)
Definition SITE_ACK_ADD_OVERFLOW : N := 26.   (* sequence + 1 *)

Definition is_disconnected (c : conn) : bool :=
  match c_status c with Disconnected _ => true | _ => false end.

Definition set_status (c : conn) (s : status) : conn :=
  {| c_seq := c_seq c; c_now := c_now c; c_sent := c_sent c; c_acks := c_acks c; c_order := c_order c;
     c_su := c_su c; c_ru := c_ru c; c_sr := c_sr c; c_rr := c_rr c; c_budget := c_budget c; c_status := s |}.

Definition disconnect_with (c : conn) (r : reason) : conn :=
  if is_disconnected c then c else set_status c (Disconnected r).

Definition set_connected (c : conn) : conn := if is_disconnected c then c else set_status c Connected.
Definition set_connecting (c : conn) : conn := if is_disconnected c then c else set_status c Connecting.
Definition disconnect (c : conn) : conn := disconnect_with c RDisconnectedByClient.
Definition disconnect_transport (c : conn) : conn := disconnect_with c RTransport.

Definition disconnect_reason (c : conn) : option reason :=
  match c_status c with Disconnected r => Some r | _ => None end.

(* ---------------- construction ---------------- *)
Fixpoint build_send (cfgs : list chan_config) (su : list (N * send_unrel)) (sr : list (N * send_rel))
         (ord : list (bool * N)) : pres (list (N * send_unrel) * list (N * send_rel) * list (bool * N)) :=
  match cfgs with
  | [] => Ok (su, sr, ord)
  | c :: t =>
      match cc_type c with
      | TUnreliable =>
          if sm_mem (cc_id c) su then Panic SITE_DUP_CHANNEL
          else build_send t (sm_insert (cc_id c) (send_unrel_new (cc_id c) (cc_max c)) su) sr (ord ++ [(false, cc_id c)])
      | TReliableOrdered rt | TReliableUnordered rt =>
          if sm_mem (cc_id c) sr then Panic SITE_DUP_CHANNEL
          else build_send t su (sm_insert (cc_id c) (send_rel_new (cc_id c) rt (cc_max c)) sr) (ord ++ [(true, cc_id c)])
      end
  end.

Fixpoint build_recv (cfgs : list chan_config) (ru : list (N * recv_unrel)) (rr : list (N * recv_rel))
  : pres (list (N * recv_unrel) * list (N * recv_rel)) :=
  match cfgs with
  | [] => Ok (ru, rr)
  | c :: t =>
      match cc_type c with
      | TUnreliable =>
          if sm_mem (cc_id c) ru then Panic SITE_DUP_CHANNEL
          else build_recv t (sm_insert (cc_id c) (recv_unrel_new (cc_max c)) ru) rr
      | TReliableOrdered _ =>
          if sm_mem (cc_id c) rr then Panic SITE_DUP_CHANNEL
          else build_recv t ru (sm_insert (cc_id c) (recv_rel_new (cc_max c) true) rr)
      | TReliableUnordered _ =>
          if sm_mem (cc_id c) rr then Panic SITE_DUP_CHANNEL
          else build_recv t ru (sm_insert (cc_id c) (recv_rel_new (cc_max c) false) rr)
      end
  end.

Definition conn_new (budget : N) (send_cfg recv_cfg : list chan_config) : pres conn :=
  do r <- build_send send_cfg [] [] [];
  let '(su, sr, ord) := r in
  do r2 <- build_recv recv_cfg [] [];
  let (ru, rr) := r2 in
  Ok {| c_seq := 0; c_now := 0; c_sent := []; c_acks := []; c_order := ord;
        c_su := su; c_ru := ru; c_sr := sr; c_rr := rr; c_budget := budget; c_status := Connecting |}.

(* ---------------- pending acks ---------------- *)
(* the `for index in 0..len` loop of add_pending_ack; returns None when no range
   absorbed the sequence (fall through to the push at the end) *)
Fixpoint ack_loop (s : N) (l : list (N * N)) : option (list (N * N)) :=
  match l with
  | [] => None
  | (a, b) :: t =>
      if (a <=? s) && (s <? b) then Some l
      else if a =? s + 1 then Some ((s, b) :: t)
      else if b =? s then
        match t with
        | (a2, b2) :: t2 => if s + 1 =? a2 then Some ((a, b2) :: t2) else Some ((a, s + 1) :: t)
        | [] => Some [(a, s + 1)]
        end
      else if s + 1 <? a then Some ((s, s + 1) :: l)
      else match ack_loop s t with Some t' => Some ((a, b) :: t') | None => None end
  end.

(* which branch absorbed the sequence: the limit is applied after an insertion
   (middle or end), not after an extension *)
Fixpoint ack_inserts (s : N) (l : list (N * N)) : bool :=
  match l with
  | [] => true
  | (a, b) :: t =>
      if (a <=? s) && (s <? b) then false
      else if a =? s + 1 then false
      else if b =? s then false
      else if s + 1 <? a then true
      else ack_inserts s t
  end.

Definition limit_ranges (l : list (N * N)) : list (N * N) :=
  if MAX_ACK_RANGES <? len l then tl l else l.

Definition add_pending_ack (l : list (N * N)) (s : N) : list (N * N) :=
  match l with
  | [] => [(s, s + 1)]
  | _ =>
      match ack_loop s l with
      | Some l' => if ack_inserts s l then limit_ranges l' else l'
      | None => limit_ranges (l ++ [(s, s + 1)])
      end
  end.

(* acked_largest: fuel = number of ranges *)
Fixpoint acked_largest (l : list (N * N)) (largest : N) : list (N * N) :=
  match l with
  | [] => []
  | (a, b) :: t =>
      if largest <? a then l
      else if b <=? largest then acked_largest t largest
      else if b <=? largest + 1 then t else (largest + 1, b) :: t
  end.

(* ---------------- simple queries ---------------- *)
Definition channel_available_memory (c : conn) (ch : N) : pres N :=
  match sm_find ch (c_sr c), sm_find ch (c_su c) with
  | Some s, _ => match sr_available s with Ok n => Ok n | Err _ => Panic SITE_IMPOSSIBLE_ERR | Panic p => Panic p end
  | None, Some s => match su_available s with Ok n => Ok n | Err _ => Panic SITE_IMPOSSIBLE_ERR | Panic p => Panic p end
  | None, None => Panic SITE_INVALID_CHANNEL
  end.

Definition can_send_message (c : conn) (ch size : N) : pres bool :=
  match sm_find ch (c_sr c), sm_find ch (c_su c) with
  | Some s, _ => Ok (sr_can_send s size)
  | None, Some s => Ok (su_can_send s size)
  | None, None => Panic SITE_INVALID_CHANNEL
  end.

Definition with_sr (c : conn) sr := {| c_seq := c_seq c; c_now := c_now c; c_sent := c_sent c; c_acks := c_acks c;
  c_order := c_order c; c_su := c_su c; c_ru := c_ru c; c_sr := sr; c_rr := c_rr c; c_budget := c_budget c; c_status := c_status c |}.
Definition with_su (c : conn) su := {| c_seq := c_seq c; c_now := c_now c; c_sent := c_sent c; c_acks := c_acks c;
  c_order := c_order c; c_su := su; c_ru := c_ru c; c_sr := c_sr c; c_rr := c_rr c; c_budget := c_budget c; c_status := c_status c |}.
Definition with_rr (c : conn) rr := {| c_seq := c_seq c; c_now := c_now c; c_sent := c_sent c; c_acks := c_acks c;
  c_order := c_order c; c_su := c_su c; c_ru := c_ru c; c_sr := c_sr c; c_rr := rr; c_budget := c_budget c; c_status := c_status c |}.
Definition with_ru (c : conn) ru := {| c_seq := c_seq c; c_now := c_now c; c_sent := c_sent c; c_acks := c_acks c;
  c_order := c_order c; c_su := c_su c; c_ru := ru; c_sr := c_sr c; c_rr := c_rr c; c_budget := c_budget c; c_status := c_status c |}.
Definition with_acks (c : conn) acks := {| c_seq := c_seq c; c_now := c_now c; c_sent := c_sent c; c_acks := acks;
  c_order := c_order c; c_su := c_su c; c_ru := c_ru c; c_sr := c_sr c; c_rr := c_rr c; c_budget := c_budget c; c_status := c_status c |}.
Definition with_sent (c : conn) sent := {| c_seq := c_seq c; c_now := c_now c; c_sent := sent; c_acks := c_acks c;
  c_order := c_order c; c_su := c_su c; c_ru := c_ru c; c_sr := c_sr c; c_rr := c_rr c; c_budget := c_budget c; c_status := c_status c |}.
Definition with_seq (c : conn) seq := {| c_seq := seq; c_now := c_now c; c_sent := c_sent c; c_acks := c_acks c;
  c_order := c_order c; c_su := c_su c; c_ru := c_ru c; c_sr := c_sr c; c_rr := c_rr c; c_budget := c_budget c; c_status := c_status c |}.
Definition with_now (c : conn) now := {| c_seq := c_seq c; c_now := now; c_sent := c_sent c; c_acks := c_acks c;
  c_order := c_order c; c_su := c_su c; c_ru := c_ru c; c_sr := c_sr c; c_rr := c_rr c; c_budget := c_budget c; c_status := c_status c |}.

(* ---------------- send / receive ---------------- *)
Definition send_message (c : conn) (ch : N) (m : list N) : pres conn :=
  if is_disconnected c then Ok c else
  match sm_find ch (c_sr c), sm_find ch (c_su c) with
  | Some s, _ =>
      match sr_send s m with
      | Ok s' => Ok (with_sr c (sm_insert ch s' (c_sr c)))
      | Err e => Ok (disconnect_with c (RSendChannelError ch e))
      | Panic p => Panic p
      end
  | None, Some s => Ok (with_su c (sm_insert ch (su_send s m) (c_su c)))
  | None, None => Panic SITE_INVALID_CHANNEL
  end.

Definition receive_message (c : conn) (ch : N) : pres (conn * option (list N)) :=
  if is_disconnected c then Ok (c, None) else
  match sm_find ch (c_rr c), sm_find ch (c_ru c) with
  | Some r, _ =>
      match rr_receive r with
      | Ok (r', m) => Ok (with_rr c (sm_insert ch r' (c_rr c)), m)
      | Err _ => Panic SITE_IMPOSSIBLE_ERR
      | Panic p => Panic p
      end
  | None, Some r =>
      match ru_receive r with
      | Ok (r', m) => Ok (with_ru c (sm_insert ch r' (c_ru c)), m)
      | Err _ => Panic SITE_IMPOSSIBLE_ERR
      | Panic p => Panic p
      end
  | None, None => Panic SITE_INVALID_CHANNEL
  end.

(* ---------------- update ---------------- *)
Fixpoint discard_all (now : N) (l : list (N * recv_unrel)) : pres (list (N * recv_unrel)) :=
  match l with
  | [] => Ok []
  | (ch, r) :: t =>
      match ru_discard_old r now with
      | Ok r' => do t' <- discard_all now t; Ok ((ch, r') :: t')
      | Err _ => Panic SITE_IMPOSSIBLE_ERR
      | Panic p => Panic p
      end
  end.

(* drop the prefix of sent packets older than DISCARD_AFTER; stops at the first young one *)
Fixpoint drop_lost (now : N) (l : list (N * (N * sent_info))) : pres (list (N * (N * sent_info))) :=
  match l with
  | [] => Ok []
  | (s, (at_, i)) :: t =>
      do d <- sub_chk SITE_DURATION_SUB now at_;
      if DISCARD_PACKET_SECS * 1000000000 <=? d then drop_lost now t else Ok l
  end.

Definition update (c : conn) (dt : N) : pres conn :=
  let now := c_now c + dt in
  do ru <- discard_all now (c_ru c);
  do sent <- drop_lost now (c_sent c);
  Ok (with_sent (with_ru (with_now c now) ru) sent).

(* ---------------- process_packet ---------------- *)
Fixpoint process_rel_msgs (r : recv_rel) (ms : list (N * list N)) : cres recv_rel :=
  match ms with
  | [] => Ok r
  | (id, m) :: t => do r' <- rr_process_message r m id; process_rel_msgs r' t
  end.

Fixpoint process_unrel_msgs (r : recv_unrel) (ms : list (list N)) : recv_unrel :=
  match ms with [] => r | m :: t => process_unrel_msgs (ru_process_message r m) t end.

(* keys of sent_packets within [a, b) *)
Fixpoint keys_in_range (a b : N) (l : list (N * (N * sent_info))) : list N :=
  match l with
  | [] => []
  | (s, _) :: t => if (a <=? s) && (s <? b) then s :: keys_in_range a b t else keys_in_range a b t
  end.

Fixpoint collect_new_acks (ranges : list (N * N)) (sent : list (N * (N * sent_info))) : pres (list N) :=
  match ranges with
  | [] => Ok []
  | (a, b) :: t =>
      if b <? a then Panic SITE_RANGE_START_GT_END else
      do rest <- collect_new_acks t sent; Ok (keys_in_range a b sent ++ rest)
  end.

Fixpoint ack_ids (s : send_rel) (ids : list N) : cres send_rel :=
  match ids with [] => Ok s | id :: t => do s' <- sr_ack_message s id; ack_ids s' t end.

Definition lift {A} (r : cres A) : pres A :=
  match r with Ok a => Ok a | Err _ => Panic SITE_IMPOSSIBLE_ERR | Panic p => Panic p end.

Definition apply_ack (c : conn) (seq : N) : pres conn :=
  match sm_find seq (c_sent c) with
  | None => Panic SITE_SENT_UNWRAP
  | Some (_, info) =>
      let c1 := with_sent c (sm_remove seq (c_sent c)) in
      match info with
      | SINone => Ok c1
      | SIReliableMessages ch ids =>
          match sm_find ch (c_sr c1) with
          | None => Panic SITE_ORDER_UNWRAP
          | Some s => do s' <- lift (ack_ids s ids); Ok (with_sr c1 (sm_insert ch s' (c_sr c1)))
          end
      | SIReliableSlice ch id idx =>
          match sm_find ch (c_sr c1) with
          | None => Panic SITE_ORDER_UNWRAP
          | Some s => do s' <- lift (sr_ack_slice s id idx); Ok (with_sr c1 (sm_insert ch s' (c_sr c1)))
          end
      | SIAck largest => Ok (with_acks c1 (acked_largest (c_acks c1) largest))
      end
  end.

Fixpoint apply_acks (c : conn) (seqs : list N) : pres conn :=
  match seqs with [] => Ok c | s :: t => do c' <- apply_ack c s; apply_acks c' t end.

Definition process_parsed (c1 : conn) (p : packet) : pres conn :=
  match p with
  | SmallReliable _ ch ms =>
      match sm_find ch (c_rr c1) with
      | None => Ok (disconnect_with c1 (RReceivedInvalidChannelId ch))
      | Some r =>
          match process_rel_msgs r ms with
          | Ok r' => Ok (with_rr c1 (sm_insert ch r' (c_rr c1)))
          | Err e => Ok (disconnect_with c1 (RReceiveChannelError ch e))
          | Panic s => Panic s
          end
      end
  | SmallUnreliable _ ch ms =>
      match sm_find ch (c_ru c1) with
      | None => Ok (disconnect_with c1 (RReceivedInvalidChannelId ch))
      | Some r => Ok (with_ru c1 (sm_insert ch (process_unrel_msgs r ms) (c_ru c1)))
      end
  | ReliableSlice _ ch s =>
      match sm_find ch (c_rr c1) with
      | None => Ok (disconnect_with c1 (RReceivedInvalidChannelId ch))
      | Some r =>
          match rr_process_slice r s with
          | Ok r' => Ok (with_rr c1 (sm_insert ch r' (c_rr c1)))
          | Err e => Ok (disconnect_with c1 (RReceiveChannelError ch e))
          | Panic s => Panic s
          end
      end
  | UnreliableSlice _ ch s =>
      match sm_find ch (c_ru c1) with
      | None => Ok (disconnect_with c1 (RReceivedInvalidChannelId ch))
      | Some r =>
          match ru_process_slice r s (c_now c1) with
          | Ok r' => Ok (with_ru c1 (sm_insert ch r' (c_ru c1)))
          | Err e => Ok (disconnect_with c1 (RReceiveChannelError ch e))
          | Panic s => Panic s
          end
      end
  | Ack _ ranges =>
      do new_acks <- collect_new_acks ranges (c_sent c1);
      apply_acks c1 new_acks
  end.

Definition process_packet (c : conn) (bytes : list N) : pres conn :=
  if is_disconnected c then Ok c else
  match from_bytes bytes with
  | Err e => Ok (disconnect_with c (RPacketDeserialization e))
  | Panic s => Panic s
  | Ok p => process_parsed (with_acks c (add_pending_ack (c_acks c) (packet_seq p))) p
  end.

(* ---------------- get_packets_to_send ---------------- *)
Fixpoint gather (ord : list (bool * N)) (c : conn) (avail : N) (acc : list packet) : pres (conn * N * list packet) :=
  match ord with
  | [] => Ok (c, avail, acc)
  | (true, ch) :: t =>
      match sm_find ch (c_sr c) with
      | None => Panic SITE_ORDER_UNWRAP
      | Some s =>
          do r <- lift (sr_get_packets s (c_seq c) avail (c_now c));
          let '(s', pk, seq', avail') := r in
          gather t (with_seq (with_sr c (sm_insert ch s' (c_sr c))) seq') avail' (acc ++ pk)
      end
  | (false, ch) :: t =>
      match sm_find ch (c_su c) with
      | None => Panic SITE_ORDER_UNWRAP
      | Some s =>
          do r <- lift (su_get_packets s (c_seq c) avail);
          let '(s', pk, seq', avail') := r in
          gather t (with_seq (with_su c (sm_insert ch s' (c_su c))) seq') avail' (acc ++ pk)
      end
  end.

Definition info_of (p : packet) : pres sent_info :=
  match p with
  | SmallReliable _ ch ms => Ok (SIReliableMessages ch (map fst ms))
  | ReliableSlice _ ch s => Ok (SIReliableSlice ch (sl_id s) (sl_index s))
  | SmallUnreliable _ _ _ | UnreliableSlice _ _ _ => Ok SINone
  | Ack _ ranges =>
      match rev ranges with
      | [] => Panic SITE_ACK_EMPTY_RANGES
      | (_, b) :: _ => do l <- sub_chk SITE_ACK_ENCODE_SUB b 1; Ok (SIAck l)
      end
  end.

Fixpoint record_sent (now : N) (pk : list packet) (sent : list (N * (N * sent_info))) : pres (list (N * (N * sent_info))) :=
  match pk with
  | [] => Ok sent
  | p :: t => do i <- info_of p; record_sent now t (sm_insert (packet_seq p) (now, i) sent)
  end.

(* serialise in order; the first failure aborts the whole call *)
Fixpoint serialize_all (pk : list packet) : res ser_err (list (list N)) :=
  match pk with
  | [] => Ok []
  | p :: t => do b <- to_bytes SER_BUFFER p; do bs <- serialize_all t; Ok (b :: bs)
  end.

Definition get_packets_to_send (c : conn) : pres (conn * list (list N)) :=
  if is_disconnected c then Ok (c, []) else
  do r <- gather (c_order c) c (c_budget c) [];
  let '(c1, _, pk) := r in
  let '(c2, pk2) := match c_acks c1 with
                    | [] => (c1, pk)
                    | acks => (with_seq c1 (c_seq c1 + 1), pk ++ [Ack (c_seq c1) acks])
                    end in
  do sent <- record_sent (c_now c2) pk2 (c_sent c2);
  let c3 := with_sent c2 sent in
  match serialize_all pk2 with
  | Ok bs => Ok (c3, bs)
  | Err e => Ok (disconnect_with c3 (RPacketSerialization e), [])
  | Panic s => Panic s
  end.
