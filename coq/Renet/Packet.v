(* Packet.v - renet/src/packet.rs: the five packet kinds, to_bytes / from_bytes. *)
From RenetV Require Import Base Consts Varint.
Open Scope N_scope.

Record slice := { sl_id : N; sl_index : N; sl_num : N; sl_payload : list N }.

Inductive packet :=
| SmallReliable (seq ch : N) (msgs : list (N * list N))
| SmallUnreliable (seq ch : N) (msgs : list (list N))
| ReliableSlice (seq ch : N) (s : slice)
| UnreliableSlice (seq ch : N) (s : slice)
| Ack (seq : N) (ranges : list (N * N)).   (* start, end (exclusive), ascending *)

Definition packet_seq (p : packet) : N :=
  match p with
  | SmallReliable s _ _ | SmallUnreliable s _ _ | ReliableSlice s _ _
  | UnreliableSlice s _ _ | Ack s _ => s
  end.

Definition SITE_ACK_EMPTY_RANGES : N := 2.
Definition SITE_ACK_ENCODE_SUB : N := 3.

(* ---------------- to_bytes ---------------- *)
Fixpoint put_rel_msgs (w : writer) (ms : list (N * list N)) : sres writer :=
  match ms with
  | [] => Ok w
  | (id, m) :: t =>
      do w1 <- put_varint w id;
      do w2 <- put_varint w1 (len m);
      do w3 <- put_bytes w2 m;
      put_rel_msgs w3 t
  end.

Fixpoint put_unrel_msgs (w : writer) (ms : list (list N)) : sres writer :=
  match ms with
  | [] => Ok w
  | m :: t =>
      do w1 <- put_varint w (len m);
      do w2 <- put_bytes w1 m;
      put_unrel_msgs w2 t
  end.

Definition put_slice (w : writer) (s : slice) : sres writer :=
  do w1 <- put_varint w (sl_id s);
  do w2 <- put_varint w1 (sl_index s);
  do w3 <- put_varint w2 (sl_num s);
  do w4 <- put_varint w3 (len (sl_payload s));
  put_bytes w4 (sl_payload s).

(* ranges are visited from the last to the first; [rest] is the reversed tail *)
Fixpoint put_ranges (w : writer) (prev_start : N) (rest : list (N * N)) : sres writer :=
  match rest with
  | [] => Ok w
  | (a, b) :: t =>
      do g0 <- sub_chk SITE_ACK_ENCODE_SUB prev_start b;
      do gap <- sub_chk SITE_ACK_ENCODE_SUB g0 1;
      do e1 <- sub_chk SITE_ACK_ENCODE_SUB b 1;
      do size <- sub_chk SITE_ACK_ENCODE_SUB e1 a;
      do w1 <- put_varint w gap;
      do w2 <- put_varint w1 size;
      put_ranges w2 a t
  end.

Definition to_bytes_w (w : writer) (p : packet) : sres writer :=
  match p with
  | SmallReliable seq ch ms =>
      do w1 <- put_u8 w 0; do w2 <- put_varint w1 seq; do w3 <- put_u8 w2 ch;
      do w4 <- put_u16 w3 (len ms); put_rel_msgs w4 ms
  | SmallUnreliable seq ch ms =>
      do w1 <- put_u8 w 1; do w2 <- put_varint w1 seq; do w3 <- put_u8 w2 ch;
      do w4 <- put_u16 w3 (len ms); put_unrel_msgs w4 ms
  | ReliableSlice seq ch s =>
      do w1 <- put_u8 w 2; do w2 <- put_varint w1 seq; do w3 <- put_u8 w2 ch; put_slice w3 s
  | UnreliableSlice seq ch s =>
      do w1 <- put_u8 w 3; do w2 <- put_varint w1 seq; do w3 <- put_u8 w2 ch; put_slice w3 s
  | Ack seq ranges =>
      do w1 <- put_u8 w 4; do w2 <- put_varint w1 seq;
      match rev ranges with
      | [] => Panic SITE_ACK_EMPTY_RANGES
      | (a, b) :: rest =>
          do e1 <- sub_chk SITE_ACK_ENCODE_SUB b 1;
          do size <- sub_chk SITE_ACK_ENCODE_SUB e1 a;
          do w3 <- put_varint w2 e1;
          do w4 <- put_varint w3 size;
          do w5 <- put_varint w4 (len rest);
          put_ranges w5 a rest
      end
  end.

Definition to_bytes (cap : N) (p : packet) : sres (list N) :=
  do w <- to_bytes_w {| w_out := []; w_cap := cap |} p; Ok (w_out w).

(* ---------------- from_bytes ---------------- *)
(* loops run on fuel = length of the remaining input: every iteration consumes at
   least one byte, so an exhausted fuel coincides with an exhausted input *)
Fixpoint get_rel_msgs (fuel : nat) (count : N) (l : list N) (acc : list (N * list N))
  : sres (list (N * list N) * list N) :=
  if count =? 0 then Ok (rev acc, l) else
  match fuel with
  | O => Err BufferTooShort
  | S f =>
      do (id, l1) <- get_varint l;
      do (m, l2) <- get_bytes_with_varint_length l1;
      get_rel_msgs f (count - 1) l2 ((id, m) :: acc)
  end.

Fixpoint get_unrel_msgs (fuel : nat) (count : N) (l : list N) (acc : list (list N))
  : sres (list (list N) * list N) :=
  if count =? 0 then Ok (rev acc, l) else
  match fuel with
  | O => Err BufferTooShort
  | S f =>
      do (m, l1) <- get_bytes_with_varint_length l;
      get_unrel_msgs f (count - 1) l1 (m :: acc)
  end.

(* acc is built in decode order (descending), which is the reverse of the final vector *)
Fixpoint get_ranges (fuel : nat) (count : N) (prev_start : N) (l : list N) (acc : list (N * N))
  : sres (list (N * N) * list N) :=
  if count =? 0 then Ok (acc, l) else
  match fuel with
  | O => Err BufferTooShort
  | S f =>
      do (gap, l1) <- get_varint l;
      if prev_start <? 2 + gap then Err InvalidAckRange else
      let range_end := prev_start - gap - 2 in
      do (size, l2) <- get_varint l1;
      if range_end <? size then Err InvalidAckRange else
      let range_start := range_end - size in
      get_ranges f (count - 1) range_start l2 ((range_start, range_end + 1) :: acc)
  end.

Definition get_slice (reliable : bool) (l : list N) : sres (slice * list N) :=
  do (id, l1) <- get_varint l;
  do (idx, l2) <- get_varint l1;
  do (n, l3) <- get_varint l2;
  if (n =? 0) || (MAX_NUM_SLICES <? n) then Err InvalidNumSlices else
  do (payload, l4) <- get_bytes_with_varint_length l3;
  if reliable && (len payload =? 0) then Err EmptySlice else
  if reliable && (SLICE_SIZE <? len payload) then Err SliceSizeAboveLimit else
  Ok ({| sl_id := id; sl_index := idx; sl_num := n; sl_payload := payload |}, l4).

Definition from_bytes_rest (b : list N) : sres (packet * list N) :=
  do (ty, l0) <- get_u8 b;
  match ty with
  | 0 =>
      do (seq, l1) <- get_varint l0; do (ch, l2) <- get_u8 l1; do (n, l3) <- get_u16 l2;
      do (ms, l4) <- get_rel_msgs (length l3) n l3 [];
      Ok (SmallReliable seq ch ms, l4)
  | 1 =>
      do (seq, l1) <- get_varint l0; do (ch, l2) <- get_u8 l1; do (n, l3) <- get_u16 l2;
      do (ms, l4) <- get_unrel_msgs (length l3) n l3 [];
      Ok (SmallUnreliable seq ch ms, l4)
  | 2 =>
      do (seq, l1) <- get_varint l0; do (ch, l2) <- get_u8 l1;
      do (s, l3) <- get_slice true l2;
      Ok (ReliableSlice seq ch s, l3)
  | 3 =>
      do (seq, l1) <- get_varint l0; do (ch, l2) <- get_u8 l1;
      do (s, l3) <- get_slice false l2;
      Ok (UnreliableSlice seq ch s, l3)
  | 4 =>
      do (seq, l1) <- get_varint l0;
      do (first_end, l2) <- get_varint l1;
      do (first_size, l3) <- get_varint l2;
      do (nrem, l4) <- get_varint l3;
      if first_end <? first_size then Err InvalidAckRange else
      let first_start := first_end - first_size in
      do (rs, l5) <- get_ranges (length l4) nrem first_start l4 [(first_start, first_end + 1)];
      Ok (Ack seq rs, l5)
  | _ => Err InvalidPacketType
  end.

Definition from_bytes (b : list N) : sres packet :=
  do (p, _) <- from_bytes_rest b; Ok p.
