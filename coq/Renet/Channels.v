(* Channels.v - renet/src/channel/{slice_constructor,reliable,unreliable}.rs *)
From RenetV Require Import Base Consts Varint Packet.
Open Scope N_scope.

Inductive chan_err := ReliableChannelMaxMemoryReached | InvalidSliceMessage.
Definition cres := res chan_err.

(* panic sites *)
Definition SITE_RECV_MEM_SUB : N := 10.      (* memory_usage_bytes -= ... on a receive channel *)
Definition SITE_SEND_MEM_SUB : N := 11.      (* memory_usage_bytes -= ... on a send channel *)
Definition SITE_DURATION_SUB : N := 12.      (* Duration - Duration *)
Definition SITE_ACKED_INDEX : N := 13.       (* acked[slice_index] *)
Definition SITE_UNREACHABLE_ACK : N := 14.   (* unreachable!() in the ack handlers *)
Definition SITE_DISCARD_EXPECT : N := 15.    (* expect("discarded slice should exist") *)
Definition SITE_SLICE_RANGE : N := 16.       (* message.slice(start..end) *)
Definition SITE_AVAIL_SUB : N := 17.         (* *available_bytes -= ... *)
Definition SITE_CTOR_INDEX : N := 18.        (* received[slice_index] / sliced_data[start..end] *)

(* ------------------------------------------------------------------ *)
(* sorted association lists standing for BTreeMap<u64, V> / BTreeSet<u64> *)
Section SMap.
  Context {V : Type}.
  Fixpoint sm_find (k : N) (m : list (N * V)) : option V :=
    match m with
    | [] => None
    | (k', v) :: t => if k =? k' then Some v else sm_find k t
    end.
  Fixpoint sm_insert (k : N) (v : V) (m : list (N * V)) : list (N * V) :=
    match m with
    | [] => [(k, v)]
    | (k', v') :: t =>
        if k <? k' then (k, v) :: m
        else if k =? k' then (k, v) :: t
        else (k', v') :: sm_insert k v t
    end.
  Fixpoint sm_remove (k : N) (m : list (N * V)) : list (N * V) :=
    match m with
    | [] => []
    | (k', v') :: t => if k =? k' then t else (k', v') :: sm_remove k t
    end.
  Definition sm_mem (k : N) (m : list (N * V)) : bool :=
    match sm_find k m with Some _ => true | None => false end.
End SMap.

Fixpoint ss_mem (k : N) (s : list N) : bool :=
  match s with [] => false | k' :: t => (k =? k') || ss_mem k t end.
Fixpoint ss_insert (k : N) (s : list N) : list N :=
  match s with
  | [] => [k]
  | k' :: t => if k <? k' then k :: s else if k =? k' then s else k' :: ss_insert k t
  end.
Fixpoint ss_remove (k : N) (s : list N) : list N :=
  match s with [] => [] | k' :: t => if k =? k' then t else k' :: ss_remove k t end.

(* ------------------------------------------------------------------ *)
(* SliceConstructor.  The byte buffer (vec![0; n*SLICE_SIZE], resized when the
   last slice arrives) is represented by the per-index chunks; the assembled
   message is their concatenation in index order. *)
Record sctor := {
  sc_num : N;
  sc_nrecv : N;
  sc_chunks : list (option (list N));   (* length = sc_num; Some = received[i] *)
}.

Definition sctor_new (n : N) : sctor :=
  {| sc_num := n; sc_nrecv := 0; sc_chunks := repeatN None (N.to_nat n) |}.

Fixpoint concat_chunks (l : list (option (list N))) : list N :=
  match l with
  | [] => []
  | Some c :: t => c ++ concat_chunks t
  | None :: t => concat_chunks t
  end.

(* returns the updated constructor and, on completion, the message *)
Definition sctor_process (c : sctor) (idx : N) (bytes : list N) : cres (sctor * option (list N)) :=
  if sc_num c <=? idx then Err InvalidSliceMessage else
  let is_last := idx =? sc_num c - 1 in
  if (if is_last then SLICE_SIZE <? len bytes else negb (len bytes =? SLICE_SIZE))
  then Err InvalidSliceMessage else
  match nth_opt (sc_chunks c) (N.to_nat idx) with
  | None => Panic SITE_CTOR_INDEX
  | Some cur =>
      let c1 := match cur with
                | Some _ => c
                | None => {| sc_num := sc_num c; sc_nrecv := sc_nrecv c + 1;
                             sc_chunks := upd (sc_chunks c) (N.to_nat idx) (Some bytes) |}
                end in
      if sc_nrecv c1 =? sc_num c1
      then Ok (c1, Some (concat_chunks (sc_chunks c1)))
      else Ok (c1, None)
  end.

(* ------------------------------------------------------------------ *)
(* SendChannelReliable *)
Inductive unacked :=
| USmall (m : list N) (last_sent : option N)
| USliced (m : list N) (num : N) (nacked : N) (next : N) (acked : list bool) (last_sent : list (option N)).

Record send_rel := {
  sr_ch : N;
  sr_unacked : list (N * unacked);     (* BTreeMap, ascending ids *)
  sr_next_id : N;
  sr_resend : N;                       (* ns *)
  sr_max : N;
  sr_mem : N;
}.

Definition send_rel_new (ch resend max : N) : send_rel :=
  {| sr_ch := ch; sr_unacked := []; sr_next_id := 0; sr_resend := resend; sr_max := max; sr_mem := 0 |}.

Definition div_ceil (a b : N) : N := (a + b - 1) / b.

Definition sr_available (s : send_rel) : cres N := sub_chk SITE_SEND_MEM_SUB (sr_max s) (sr_mem s).
Definition sr_can_send (s : send_rel) (size : N) : bool := size + sr_mem s <=? sr_max s.

Definition sr_send (s : send_rel) (m : list N) : cres send_rel :=
  if sr_max s <? sr_mem s + len m then Err ReliableChannelMaxMemoryReached else
  let u := if SLICE_SIZE <? len m
           then let n := div_ceil (len m) SLICE_SIZE in
                USliced m n 0 0 (repeatN false (N.to_nat n)) (repeatN None (N.to_nat n))
           else USmall m None in
  Ok {| sr_ch := sr_ch s; sr_unacked := sm_insert (sr_next_id s) u (sr_unacked s);
        sr_next_id := sr_next_id s + 1; sr_resend := sr_resend s; sr_max := sr_max s;
        sr_mem := sr_mem s + len m |}.

(* due: never sent, or resend_time elapsed; Duration subtraction panics on underflow *)
Definition due (now resend : N) (last : option N) : cres bool :=
  match last with
  | None => Ok true
  | Some t => do d <- sub_chk SITE_DURATION_SUB now t; Ok (negb (d <? resend))
  end.

(* accumulator threaded through the loop over unacked messages *)
Record sacc := {
  a_pkts : list packet;               (* in emission order *)
  a_small : list (N * list N);        (* in order *)
  a_small_bytes : N;
  a_seq : N;
  a_avail : N;
}.

(* the inner `for i in 0..num_slices` loop; k counts iterations *)
Fixpoint slices_loop (fuel : nat) (k : N) (ch id now resend : N) (m : list N) (num start : N)
         (acked : list bool) (ls : list (option N)) (next : N) (a : sacc)
  : cres (list (option N) * N * sacc) :=
  match fuel with
  | O => Ok (ls, next, a)
  | S f =>
      if a_avail a <? SLICE_SIZE then Ok (ls, next, a)          (* continue 'messages *)
      else
        let i := (start + k) mod num in
        match nth_opt acked (N.to_nat i), nth_opt ls (N.to_nat i) with
        | Some ak, Some last =>
            if ak then slices_loop f (k + 1) ch id now resend m num start acked ls next a else
            do d <- due now resend last;
            if negb d then slices_loop f (k + 1) ch id now resend m num start acked ls next a else
            let s := i * SLICE_SIZE in
            let e := if i =? num - 1 then len m else (i + 1) * SLICE_SIZE in
            if (e <? s) || (len m <? e) then Panic SITE_SLICE_RANGE else
            let payload := takeN (e - s) (dropN s m) in
            do av <- sub_chk SITE_AVAIL_SUB (a_avail a) (len payload);
            let p := ReliableSlice (a_seq a) ch
                       {| sl_id := id; sl_index := i; sl_num := num; sl_payload := payload |} in
            let a' := {| a_pkts := a_pkts a ++ [p]; a_small := a_small a; a_small_bytes := a_small_bytes a;
                         a_seq := a_seq a + 1; a_avail := av |} in
            (* `i + 1 % *num_slices` parses as i + (1 % n) *)
            slices_loop f (k + 1) ch id now resend m num start acked
                        (upd ls (N.to_nat i) (Some now)) (i + 1 mod num) a'
        | _, _ => Panic SITE_ACKED_INDEX
        end
  end.

Definition visit (ch now resend : N) (idu : N * unacked) (a : sacc) : cres (N * unacked * sacc) :=
  let (id, u) := idu in
  match u with
  | USmall m last =>
      if a_avail a <? len m then Ok (id, u, a) else
      do d <- due now resend last;
      if negb d then Ok (id, u, a) else
      do av <- sub_chk SITE_AVAIL_SUB (a_avail a) (len m);
      let ssize := len m + varint_len (len m) + varint_len id in
      let a1 := if SLICE_SIZE <? a_small_bytes a + ssize
                then {| a_pkts := a_pkts a ++ [SmallReliable (a_seq a) ch (a_small a)];
                        a_small := []; a_small_bytes := 0; a_seq := a_seq a + 1; a_avail := av |}
                else {| a_pkts := a_pkts a; a_small := a_small a; a_small_bytes := a_small_bytes a;
                        a_seq := a_seq a; a_avail := av |} in
      Ok (id, USmall m (Some now),
          {| a_pkts := a_pkts a1; a_small := a_small a1 ++ [(id, m)];
             a_small_bytes := a_small_bytes a1 + ssize; a_seq := a_seq a1; a_avail := a_avail a1 |})
  | USliced m num nacked next acked ls =>
      do r <- slices_loop (N.to_nat num) 0 ch id now resend m num next acked ls next a;
      let '(ls', next', a') := r in
      Ok (id, USliced m num nacked next' acked ls', a')
  end.

Fixpoint visit_all (ch now resend : N) (us : list (N * unacked)) (a : sacc)
  : cres (list (N * unacked) * sacc) :=
  match us with
  | [] => Ok ([], a)
  | x :: t =>
      do r <- visit ch now resend x a;
      let '(id, u', a') := r in
      do r2 <- visit_all ch now resend t a';
      let '(t', a'') := r2 in
      Ok ((id, u') :: t', a'')
  end.

(* returns (channel', packets, packet_sequence', available_bytes') *)
Definition sr_get_packets (s : send_rel) (seq avail now : N) : cres (send_rel * list packet * N * N) :=
  match sr_unacked s with
  | [] => Ok (s, [], seq, avail)
  | _ =>
      let a0 := {| a_pkts := []; a_small := []; a_small_bytes := 0; a_seq := seq; a_avail := avail |} in
      do r <- visit_all (sr_ch s) now (sr_resend s) (sr_unacked s) a0;
      let '(us, a) := r in
      let '(pkts, seq') := match a_small a with
                          | [] => (a_pkts a, a_seq a)
                          | sm => (a_pkts a ++ [SmallReliable (a_seq a) (sr_ch s) sm], a_seq a + 1)
                          end in
      Ok ({| sr_ch := sr_ch s; sr_unacked := us; sr_next_id := sr_next_id s; sr_resend := sr_resend s;
             sr_max := sr_max s; sr_mem := sr_mem s |}, pkts, seq', a_avail a)
  end.

Definition sr_set (s : send_rel) (us : list (N * unacked)) (mem : N) : send_rel :=
  {| sr_ch := sr_ch s; sr_unacked := us; sr_next_id := sr_next_id s; sr_resend := sr_resend s;
     sr_max := sr_max s; sr_mem := mem |}.

Definition sr_ack_message (s : send_rel) (id : N) : cres send_rel :=
  match sm_find id (sr_unacked s) with
  | None => Ok s
  | Some (USmall m _) =>
      do mem <- sub_chk SITE_SEND_MEM_SUB (sr_mem s) (len m);
      Ok (sr_set s (sm_remove id (sr_unacked s)) mem)
  | Some (USliced _ _ _ _ _ _) => Panic SITE_UNREACHABLE_ACK
  end.

Definition sr_ack_slice (s : send_rel) (id idx : N) : cres send_rel :=
  match sm_find id (sr_unacked s) with
  | None => Ok s
  | Some (USmall _ _) => Panic SITE_UNREACHABLE_ACK
  | Some (USliced m num nacked next acked ls) =>
      match nth_opt acked (N.to_nat idx) with
      | None => Panic SITE_ACKED_INDEX
      | Some true => Ok s
      | Some false =>
          let acked' := upd acked (N.to_nat idx) true in
          let nacked' := nacked + 1 in
          if nacked' =? num then
            do mem <- sub_chk SITE_SEND_MEM_SUB (sr_mem s) (len m);
            Ok (sr_set s (sm_remove id (sr_unacked s)) mem)
          else
            Ok (sr_set s (sm_insert id (USliced m num nacked' next acked' ls) (sr_unacked s)) (sr_mem s))
      end
  end.

(* ------------------------------------------------------------------ *)
(* ReceiveChannelReliable *)
Inductive rorder := Ordered | Unordered (most_recent : N) (received : list N).

Record recv_rel := {
  rr_slices : list (N * sctor);        (* HashMap: kept sorted, order unobservable *)
  rr_messages : list (N * list N);     (* BTreeMap *)
  rr_oldest : N;
  rr_order : rorder;
  rr_mem : N;
  rr_max : N;
}.

Definition recv_rel_new (max : N) (ordered : bool) : recv_rel :=
  {| rr_slices := []; rr_messages := []; rr_oldest := 0;
     rr_order := if ordered then Ordered else Unordered 0 [];
     rr_mem := 0; rr_max := max |}.

Definition rr_with (r : recv_rel) sl ms old ord mem : recv_rel :=
  {| rr_slices := sl; rr_messages := ms; rr_oldest := old; rr_order := ord; rr_mem := mem; rr_max := rr_max r |}.

Definition rr_process_message (r : recv_rel) (m : list N) (id : N) : cres recv_rel :=
  if id <? rr_oldest r then Ok r else
  match rr_order r with
  | Ordered =>
      if sm_mem id (rr_messages r) then Ok r
      else if rr_max r <? rr_mem r + len m then Err ReliableChannelMaxMemoryReached
      else Ok (rr_with r (rr_slices r) (sm_insert id m (rr_messages r)) (rr_oldest r) Ordered (rr_mem r + len m))
  | Unordered mr rcv =>
      let mr' := if mr <? id then id else mr in
      if ss_mem id rcv then Ok (rr_with r (rr_slices r) (rr_messages r) (rr_oldest r) (Unordered mr' rcv) (rr_mem r))
      else if rr_max r <? rr_mem r + len m then Err ReliableChannelMaxMemoryReached
      else Ok (rr_with r (rr_slices r) (sm_insert id m (rr_messages r)) (rr_oldest r)
                       (Unordered mr' (ss_insert id rcv)) (rr_mem r + len m))
  end.

Definition rr_already_delivered (r : recv_rel) (id : N) : bool :=
  match rr_order r with Ordered => false | Unordered _ rcv => ss_mem id rcv end.

Definition rr_process_slice (r : recv_rel) (s : slice) : cres recv_rel :=
  let id := sl_id s in
  if sm_mem id (rr_messages r) || (id <? rr_oldest r) then Ok r else
  if rr_already_delivered r id then Ok r else
  do r1 <- (match sm_find id (rr_slices r) with
            | Some _ => Ok r
            | None =>
                let mlen := sl_num s * SLICE_SIZE in
                if rr_max r <? rr_mem r + mlen then Err ReliableChannelMaxMemoryReached
                else Ok (rr_with r (sm_insert id (sctor_new (sl_num s)) (rr_slices r)) (rr_messages r)
                                 (rr_oldest r) (rr_order r) (rr_mem r + mlen))
            end);
  match sm_find id (rr_slices r1) with
  | None => Panic SITE_CTOR_INDEX   (* unreachable: just inserted *)
  | Some c =>
      let reserved := sc_num c * SLICE_SIZE in
      do cr <- sctor_process c (sl_index s) (sl_payload s);
      let (c', done) := cr in
      match done with
      | None => Ok (rr_with r1 (sm_insert id c' (rr_slices r1)) (rr_messages r1) (rr_oldest r1) (rr_order r1) (rr_mem r1))
      | Some m =>
          do mem <- sub_chk SITE_RECV_MEM_SUB (rr_mem r1) reserved;
          let r2 := rr_with r1 (sm_insert id c' (rr_slices r1)) (rr_messages r1) (rr_oldest r1) (rr_order r1) mem in
          do r3 <- rr_process_message r2 m id;
          Ok (rr_with r3 (sm_remove id (rr_slices r3)) (rr_messages r3) (rr_oldest r3) (rr_order r3) (rr_mem r3))
      end
  end.

(* `while received.contains(oldest) { remove; oldest += 1 }` - fuel = |received| *)
Fixpoint advance_oldest (fuel : nat) (oldest : N) (rcv : list N) : N * list N :=
  match fuel with
  | O => (oldest, rcv)
  | S f => if ss_mem oldest rcv then advance_oldest f (oldest + 1) (ss_remove oldest rcv) else (oldest, rcv)
  end.

Definition rr_receive (r : recv_rel) : cres (recv_rel * option (list N)) :=
  match rr_order r with
  | Ordered =>
      match sm_find (rr_oldest r) (rr_messages r) with
      | None => Ok (r, None)
      | Some m =>
          do mem <- sub_chk SITE_RECV_MEM_SUB (rr_mem r) (len m);
          Ok (rr_with r (rr_slices r) (sm_remove (rr_oldest r) (rr_messages r)) (rr_oldest r + 1) Ordered mem, Some m)
      end
  | Unordered mr rcv =>
      match rr_messages r with
      | [] => Ok (r, None)
      | (id, m) :: rest =>
          let (old', rcv') := if rr_oldest r =? id then advance_oldest (length rcv) (rr_oldest r) rcv
                              else (rr_oldest r, rcv) in
          do mem <- sub_chk SITE_RECV_MEM_SUB (rr_mem r) (len m);
          Ok (rr_with r (rr_slices r) rest old' (Unordered mr rcv') mem, Some m)
      end
  end.

(* ------------------------------------------------------------------ *)
(* SendChannelUnreliable *)
Record send_unrel := {
  su_ch : N;
  su_queue : list (list N);
  su_sliced_id : N;
  su_max : N;
  su_mem : N;
}.

Definition send_unrel_new (ch max : N) : send_unrel :=
  {| su_ch := ch; su_queue := []; su_sliced_id := 0; su_max := max; su_mem := 0 |}.

Definition su_available (s : send_unrel) : cres N := sub_chk SITE_SEND_MEM_SUB (su_max s) (su_mem s).
Definition su_can_send (s : send_unrel) (size : N) : bool := size + su_mem s <=? su_max s.

Definition su_send (s : send_unrel) (m : list N) : send_unrel :=
  if su_max s <? su_mem s + len m then s
  else {| su_ch := su_ch s; su_queue := su_queue s ++ [m]; su_sliced_id := su_sliced_id s;
          su_max := su_max s; su_mem := su_mem s + len m |}.

Fixpoint unrel_slices (fuel : nat) (i : N) (ch id num : N) (m : list N) (seq : N) (acc : list packet)
  : cres (list packet * N) :=
  match fuel with
  | O => Ok (acc, seq)
  | S f =>
      let s := i * SLICE_SIZE in
      let e := if i =? num - 1 then len m else (i + 1) * SLICE_SIZE in
      if (e <? s) || (len m <? e) then Panic SITE_SLICE_RANGE else
      let p := UnreliableSlice seq ch {| sl_id := id; sl_index := i; sl_num := num;
                                         sl_payload := takeN (e - s) (dropN s m) |} in
      unrel_slices f (i + 1) ch id num m (seq + 1) (acc ++ [p])
  end.

Record uacc := {
  u_pkts : list packet;
  u_small : list (list N);
  u_small_bytes : N;
  u_seq : N;
  u_avail : N;
  u_sliced_id : N;
  u_mem : N;
}.

Fixpoint su_loop (ch : N) (q : list (list N)) (a : uacc) : cres uacc :=
  match q with
  | [] => Ok a
  | m :: t =>
      do mem <- sub_chk SITE_SEND_MEM_SUB (u_mem a) (len m);
      if u_avail a <? len m then
        su_loop ch t {| u_pkts := u_pkts a; u_small := u_small a; u_small_bytes := u_small_bytes a;
                        u_seq := u_seq a; u_avail := u_avail a; u_sliced_id := u_sliced_id a; u_mem := mem |}
      else
        let av := u_avail a - len m in
        if SLICE_SIZE <? len m then
          let num := div_ceil (len m) SLICE_SIZE in
          do r <- unrel_slices (N.to_nat num) 0 ch (u_sliced_id a) num m (u_seq a) (u_pkts a);
          let (pk, seq') := r in
          su_loop ch t {| u_pkts := pk; u_small := u_small a; u_small_bytes := u_small_bytes a;
                          u_seq := seq'; u_avail := av; u_sliced_id := u_sliced_id a + 1; u_mem := mem |}
        else
          let ssize := len m + varint_len (len m) in
          let a1 := if SLICE_SIZE <? u_small_bytes a + ssize
                    then {| u_pkts := u_pkts a ++ [SmallUnreliable (u_seq a) ch (u_small a)]; u_small := [];
                            u_small_bytes := 0; u_seq := u_seq a + 1; u_avail := av;
                            u_sliced_id := u_sliced_id a; u_mem := mem |}
                    else {| u_pkts := u_pkts a; u_small := u_small a; u_small_bytes := u_small_bytes a;
                            u_seq := u_seq a; u_avail := av; u_sliced_id := u_sliced_id a; u_mem := mem |} in
          su_loop ch t {| u_pkts := u_pkts a1; u_small := u_small a1 ++ [m];
                          u_small_bytes := u_small_bytes a1 + ssize; u_seq := u_seq a1; u_avail := u_avail a1;
                          u_sliced_id := u_sliced_id a1; u_mem := u_mem a1 |}
  end.

Definition su_get_packets (s : send_unrel) (seq avail : N) : cres (send_unrel * list packet * N * N) :=
  let a0 := {| u_pkts := []; u_small := []; u_small_bytes := 0; u_seq := seq; u_avail := avail;
               u_sliced_id := su_sliced_id s; u_mem := su_mem s |} in
  do a <- su_loop (su_ch s) (su_queue s) a0;
  let '(pkts, seq') := match u_small a with
                      | [] => (u_pkts a, u_seq a)
                      | sm => (u_pkts a ++ [SmallUnreliable (u_seq a) (su_ch s) sm], u_seq a + 1)
                      end in
  Ok ({| su_ch := su_ch s; su_queue := []; su_sliced_id := u_sliced_id a; su_max := su_max s; su_mem := u_mem a |},
      pkts, seq', u_avail a).

(* ------------------------------------------------------------------ *)
(* ReceiveChannelUnreliable *)
Record recv_unrel := {
  ru_messages : list (list N);          (* VecDeque, front first *)
  ru_slices : list (N * sctor);         (* BTreeMap *)
  ru_last : list (N * N);               (* BTreeMap id -> time of last slice *)
  ru_max : N;
  ru_mem : N;
}.

Definition recv_unrel_new (max : N) : recv_unrel :=
  {| ru_messages := []; ru_slices := []; ru_last := []; ru_max := max; ru_mem := 0 |}.

Definition ru_with (r : recv_unrel) ms sl la mem : recv_unrel :=
  {| ru_messages := ms; ru_slices := sl; ru_last := la; ru_max := ru_max r; ru_mem := mem |}.

Definition ru_process_message (r : recv_unrel) (m : list N) : recv_unrel :=
  if ru_max r <? ru_mem r + len m then r
  else ru_with r (ru_messages r ++ [m]) (ru_slices r) (ru_last r) (ru_mem r + len m).

Definition ru_process_slice (r : recv_unrel) (s : slice) (now : N) : cres recv_unrel :=
  let id := sl_id s in
  match (match sm_find id (ru_slices r) with
         | Some _ => Some r
         | None =>
             let mlen := sl_num s * SLICE_SIZE in
             if ru_max r <? ru_mem r + mlen then None
             else Some (ru_with r (ru_messages r) (sm_insert id (sctor_new (sl_num s)) (ru_slices r))
                                (ru_last r) (ru_mem r + mlen))
         end) with
  | None => Ok r      (* dropped: channel is memory limited *)
  | Some r1 =>
      match sm_find id (ru_slices r1) with
      | None => Panic SITE_CTOR_INDEX
      | Some c =>
          let reserved := sc_num c * SLICE_SIZE in
          match sctor_process c (sl_index s) (sl_payload s) with
          | Panic p => Panic p
          | Err e =>
              (* `?` returns after the reservation and the constructor were created *)
              Err e
          | Ok (c', None) =>
              Ok (ru_with r1 (ru_messages r1) (sm_insert id c' (ru_slices r1)) (sm_insert id now (ru_last r1)) (ru_mem r1))
          | Ok (c', Some m) =>
              do mem <- sub_chk SITE_RECV_MEM_SUB (ru_mem r1) reserved;
              Ok (ru_with r1 (ru_messages r1 ++ [m]) (sm_remove id (ru_slices r1)) (sm_remove id (ru_last r1))
                          (mem + len m))
          end
      end
  end.

Fixpoint ru_discard_loop (now : N) (la : list (N * N)) (r : recv_unrel) : cres recv_unrel :=
  match la with
  | [] => Ok r
  | (id, t) :: rest =>
      do d <- sub_chk SITE_DURATION_SUB now t;
      if DISCARD_SLICE_SECS * 1000000000 <=? d then
        match sm_find id (ru_slices r) with
        | None => Panic SITE_DISCARD_EXPECT
        | Some c =>
            do mem <- sub_chk SITE_RECV_MEM_SUB (ru_mem r) (sc_num c * SLICE_SIZE);
            ru_discard_loop now rest (ru_with r (ru_messages r) (sm_remove id (ru_slices r))
                                              (sm_remove id (ru_last r)) mem)
        end
      else ru_discard_loop now rest r
  end.

Definition ru_discard_old (r : recv_unrel) (now : N) : cres recv_unrel :=
  ru_discard_loop now (ru_last r) r.

Definition ru_receive (r : recv_unrel) : cres (recv_unrel * option (list N)) :=
  match ru_messages r with
  | [] => Ok (r, None)
  | m :: t =>
      do mem <- sub_chk SITE_RECV_MEM_SUB (ru_mem r) (len m);
      Ok (ru_with r t (ru_slices r) (ru_last r) mem, Some m)
  end.
