(* Varint.v - QUIC variable-length integers as implemented by the `octets` crate,
   plus the reader/writer primitives packet.rs uses. *)
From RenetV Require Import Base.
Open Scope N_scope.

Inductive ser_err := BufferTooShort | InvalidNumSlices | SliceSizeAboveLimit | EmptySlice
                   | InvalidAckRange | InvalidPacketType.

Definition sres := res ser_err.

Definition VARINT_MAX : N := 4611686018427387903. (* 2^62 - 1 *)
Definition SITE_VARINT_TOO_LARGE : N := 1.

Definition varint_len (v : N) : N :=
  if v <=? 63 then 1 else if v <=? 16383 then 2 else if v <=? 1073741823 then 4 else 8.

(* the bytes octets::put_varint writes for v <= VARINT_MAX *)
Definition varint_bytes (v : N) : list N :=
  if v <=? 63 then [v]
  else if v <=? 16383 then be_bytes 2 (v + 16384)                   (* | 0x40 on the first byte *)
  else if v <=? 1073741823 then be_bytes 4 (v + 2147483648)        (* | 0x80 *)
  else be_bytes 8 (v + 13835058055282163712).                      (* | 0xc0 *)

(* ---- writer: bytes written so far (in order) and the remaining capacity ---- *)
Record writer := { w_out : list N; w_cap : N }.

Definition put_bytes (w : writer) (b : list N) : sres writer :=
  if w_cap w <? len b then Err BufferTooShort
  else Ok {| w_out := w_out w ++ b; w_cap := w_cap w - len b |}.

Definition put_u8 (w : writer) (v : N) : sres writer := put_bytes w [v mod 256].
Definition put_u16 (w : writer) (v : N) : sres writer := put_bytes w (be_bytes 2 (v mod 65536)).

(* varint_len(v) is evaluated first and is unreachable!() above 2^62-1 *)
Definition put_varint (w : writer) (v : N) : sres writer :=
  if VARINT_MAX <? v then Panic SITE_VARINT_TOO_LARGE
  else put_bytes w (varint_bytes v).

(* ---- reader: the remaining input ---- *)
Definition get_u8 (l : list N) : sres (N * list N) :=
  match l with [] => Err BufferTooShort | b :: t => Ok (b, t) end.

Definition get_u16 (l : list N) : sres (N * list N) :=
  if len l <? 2 then Err BufferTooShort else Ok (be_val (takeN 2 l), dropN 2 l).

Definition varint_parse_len (first : N) : N :=
  match first / 64 with 0 => 1 | 1 => 2 | 2 => 4 | _ => 8 end.

Definition get_varint (l : list N) : sres (N * list N) :=
  match l with
  | [] => Err BufferTooShort
  | first :: _ =>
      let n := varint_parse_len first in
      if len l <? n then Err BufferTooShort
      else Ok (be_val (takeN n l) mod 2 ^ (8 * n - 2), dropN n l)
  end.

Definition get_bytes (n : N) (l : list N) : sres (list N * list N) :=
  if len l <? n then Err BufferTooShort else Ok (takeN n l, dropN n l).

Definition get_bytes_with_varint_length (l : list N) : sres (list N * list N) :=
  do (n, l1) <- get_varint l; get_bytes n l1.
