(* Driver.v - the single entry point the extracted correspondence driver calls. *)
From RenetV Require Import Base Tree RDriver NDriver TDriver.
Open Scope N_scope.

Record world := { w_renet : rworld; w_netcode : nworld; w_transport : tworld }.
Definition world0 : world := {| w_renet := rworld0; w_netcode := nworld0; w_transport := tworld0 |}.

(* opcodes below 100 address the renet world, 100..199 the renetcode world, 200.. the transport world *)
Definition step (w : world) (op : tree) : world * tree :=
  match op with
  | TL (TN code :: _) =>
      if code <? 100
      then let (r, o) := rstep (w_renet w) op in ({| w_renet := r; w_netcode := w_netcode w; w_transport := w_transport w |}, o)
      else if code <? 200
      then let (n, o) := nstep (w_netcode w) op in ({| w_renet := w_renet w; w_netcode := n; w_transport := w_transport w |}, o)
      else let (t, o) := tstep (w_transport w) op in ({| w_renet := w_renet w; w_netcode := w_netcode w; w_transport := t |}, o)
  | _ => (w, T_BAD_OP)
  end.

Fixpoint run (w : world) (ops : list tree) : list tree :=
  match ops with
  | [] => []
  | op :: t => let (w', o) := step w op in o :: run w' t
  end.
