(* Driver.v - the single entry point the extracted correspondence driver calls. *)
From RenetV Require Import Base Tree RDriver.
Open Scope N_scope.

Record world := { w_renet : rworld }.
Definition world0 : world := {| w_renet := rworld0 |}.

Definition step (w : world) (op : tree) : world * tree :=
  let (r, o) := rstep (w_renet w) op in ({| w_renet := r |}, o).

Fixpoint run (w : world) (ops : list tree) : list tree :=
  match ops with
  | [] => []
  | op :: t => let (w', o) := step w op in o :: run w' t
  end.
