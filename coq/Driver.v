(* Driver.v - the single entry point the extracted correspondence driver calls. *)
From RenetV Require Import Base Tree RDriver NDriver.
Open Scope N_scope.

Record world := { w_renet : rworld; w_netcode : nworld }.
Definition world0 : world := {| w_renet := rworld0; w_netcode := nworld0 |}.

(* opcodes below 100 address the renet world, the others the renetcode world *)
Definition step (w : world) (op : tree) : world * tree :=
  match op with
  | TL (TN code :: _) =>
      if code <? 100
      then let (r, o) := rstep (w_renet w) op in ({| w_renet := r; w_netcode := w_netcode w |}, o)
      else let (n, o) := nstep (w_netcode w) op in ({| w_renet := w_renet w; w_netcode := n |}, o)
  | _ => (w, T_BAD_OP)
  end.

Fixpoint run (w : world) (ops : list tree) : list tree :=
  match ops with
  | [] => []
  | op :: t => let (w', o) := step w op in o :: run w' t
  end.
