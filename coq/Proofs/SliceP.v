(* SliceP.v - slicing of a message and reassembly by SliceConstructor. *)
From RenetV Require Import Base Consts Varint Packet Channels RecvSpec SMapP.
Require Import Lia ZifyBool ZifyN ZifyNat.
Arguments N.add : simpl never.
Arguments N.sub : simpl never.
Arguments N.mul : simpl never.
Arguments N.div : simpl never.
Arguments N.modulo : simpl never.
Arguments N.eqb : simpl never.
Arguments N.ltb : simpl never.
Arguments N.leb : simpl never.
Open Scope N_scope.

(* the only fact about the constant that the proofs use *)
Lemma SLICE_SIZE_pos : 0 < SLICE_SIZE.
Proof. reflexivity. Qed.
Local Opaque SLICE_SIZE.

(* ------------------------------------------------------------------ *)
(* number of slices *)

Lemma div_ceil_bounds L S : 0 < S -> S < L ->
  (div_ceil L S - 1) * S < L /\ L <= div_ceil L S * S /\ 2 <= div_ceil L S.
Proof.
  intros HS HL. unfold div_ceil.
  pose proof (N.div_mod (L + S - 1) S) as E.
  pose proof (N.mod_lt (L + S - 1) S) as R.
  set (q := (L + S - 1) / S) in *. set (r := (L + S - 1) mod S) in *.
  assert (E' : L + S - 1 = S * q + r) by (apply E; lia).
  assert (R' : r < S) by (apply R; lia).
  clear E R.
  assert (Hq : 2 <= q).
  { destruct (N.lt_ge_cases q 2) as [Hlt|]; [|assumption].
    assert (q = 0 \/ q = 1) as [-> | ->] by lia; lia. }
  rewrite N.mul_sub_distr_r.
  rewrite (N.mul_comm q S). set (p := S * q) in *.
  assert (S * 2 <= p) by (unfold p; apply N.mul_le_mono_l; exact Hq).
  lia.
Qed.

Lemma num_bounds m : SLICE_SIZE < len m ->
  (num_slices_of m - 1) * SLICE_SIZE < len m /\ len m <= num_slices_of m * SLICE_SIZE /\
  2 <= num_slices_of m.
Proof. intros H. apply div_ceil_bounds; [apply SLICE_SIZE_pos|exact H]. Qed.

Lemma mul_SS_le a b : a <= b -> a * SLICE_SIZE <= b * SLICE_SIZE.
Proof. apply N.mul_le_mono_r. Qed.

Lemma succ_mul_SS a : (a + 1) * SLICE_SIZE = a * SLICE_SIZE + SLICE_SIZE.
Proof. lia. Qed.

(* ------------------------------------------------------------------ *)
(* S1 *)

Lemma payload_nonlast m i : i + 1 < num_slices_of m ->
  slice_payload m i = takeN SLICE_SIZE (dropN (i * SLICE_SIZE) m).
Proof.
  intros H. unfold slice_payload.
  destruct (N.eqb_spec i (num_slices_of m - 1)); [lia|].
  rewrite succ_mul_SS. f_equal. lia.
Qed.

Lemma payload_last m : SLICE_SIZE < len m ->
  slice_payload m (num_slices_of m - 1) = dropN ((num_slices_of m - 1) * SLICE_SIZE) m.
Proof.
  intros H. unfold slice_payload. rewrite N.eqb_refl.
  apply takeN_all. rewrite len_dropN. lia.
Qed.

Lemma len_payload_nonlast m i : SLICE_SIZE < len m -> i + 1 < num_slices_of m ->
  len (slice_payload m i) = SLICE_SIZE.
Proof.
  intros H Hi. rewrite payload_nonlast by auto. rewrite len_takeN, len_dropN.
  destruct (num_bounds m H) as (B1 & B2 & B3).
  pose proof (mul_SS_le (i + 1) (num_slices_of m - 1) ltac:(lia)) as M.
  rewrite succ_mul_SS in M. lia.
Qed.

Lemma len_payload_last m : SLICE_SIZE < len m ->
  1 <= len (slice_payload m (num_slices_of m - 1)) <= SLICE_SIZE.
Proof.
  intros H. rewrite payload_last by auto. rewrite len_dropN.
  destruct (num_bounds m H) as (B1 & B2 & B3).
  replace (num_slices_of m * SLICE_SIZE)
    with ((num_slices_of m - 1) * SLICE_SIZE + SLICE_SIZE) in B2.
  2:{ rewrite <- succ_mul_SS. f_equal. lia. }
  lia.
Qed.

Lemma concat_payload_prefix m k : k + 1 <= num_slices_of m ->
  concat (map (slice_payload m) (iota k)) = takeN (k * SLICE_SIZE) m.
Proof.
  induction k as [|k IH] using N.peano_ind; intros H.
  - reflexivity.
  - rewrite <- N.add_1_r in *. rewrite iota_succ, map_app, concat_app. cbn [map concat].
    rewrite app_nil_r, IH by lia. rewrite payload_nonlast by lia.
    rewrite takeN_add. f_equal. lia.
Qed.

Theorem slices_partition : forall m, SLICE_SIZE < len m ->
  concat (map (slice_payload m) (iota (num_slices_of m))) = m /\
  2 <= num_slices_of m /\
  (forall i, i + 1 < num_slices_of m -> len (slice_payload m i) = SLICE_SIZE) /\
  1 <= len (slice_payload m (num_slices_of m - 1)) <= SLICE_SIZE.
Proof.
  intros m H. destruct (num_bounds m H) as (B1 & B2 & B3).
  split; [|split; [exact B3|split]].
  - replace (num_slices_of m) with ((num_slices_of m - 1) + 1) at 1 by lia.
    rewrite iota_succ, map_app, concat_app. cbn [map concat]. rewrite app_nil_r.
    rewrite concat_payload_prefix by lia. rewrite payload_last by auto.
    apply takeN_dropN.
  - intros i Hi. apply len_payload_nonlast; auto.
  - apply len_payload_last; auto.
Qed.

Lemma len_payload_ok m i : SLICE_SIZE < len m -> i < num_slices_of m ->
  if i =? num_slices_of m - 1 then len (slice_payload m i) <= SLICE_SIZE
  else len (slice_payload m i) = SLICE_SIZE.
Proof.
  intros H Hi. destruct (N.eqb_spec i (num_slices_of m - 1)).
  - subst. apply len_payload_last; auto.
  - apply len_payload_nonlast; auto. lia.
Qed.

(* ------------------------------------------------------------------ *)
(* counting the received chunks *)

Notation isS := (fun o : option (list N) => match o with Some _ => true | None => false end).

Lemma filter_length_le' {A} (p : A -> bool) l : (length (filter p l) <= length l)%nat.
Proof.
  induction l as [|x l IH]; cbn [filter length]; [lia|].
  destruct (p x); cbn [length]; lia.
Qed.

Lemma filter_full {A} (p : A -> bool) l :
  length (filter p l) = length l -> forall x, In x l -> p x = true.
Proof.
  induction l as [|y l IH]; cbn [filter length In]; [tauto|].
  intros H x Hx. pose proof (filter_length_le' p l).
  destruct (p y) eqn:E; cbn [length] in H; [|lia].
  destruct Hx as [-> |Hx]; auto.
Qed.

Lemma filter_true_id {A} (p : A -> bool) l : (forall x, In x l -> p x = true) -> filter p l = l.
Proof.
  induction l as [|y l IH]; cbn [filter In]; intros H; [reflexivity|].
  rewrite (H y) by auto. f_equal. auto.
Qed.

Lemma count_upd (l : list (option (list N))) i b :
  nth_error l i = Some None ->
  length (filter isS (upd l i (Some b))) = S (length (filter isS l)).
Proof.
  revert i. induction l as [|y l IH]; intros [|i]; cbn [nth_error upd filter]; try discriminate.
  - intros [= ->]. reflexivity.
  - intros H. destruct y; cbn [length]; rewrite IH; auto.
Qed.

Lemma len_concat_chunks_le (l : list (option (list N))) :
  (forall ch, In (Some ch) l -> len ch <= SLICE_SIZE) ->
  len (concat_chunks l) <= len l * SLICE_SIZE.
Proof.
  induction l as [|[c|] l IH]; cbn [concat_chunks In]; intros H.
  - rewrite !len_nil. lia.
  - rewrite len_app, len_cons, succ_mul_SS. specialize (H c (or_introl eq_refl)) as Hc.
    assert (len (concat_chunks l) <= len l * SLICE_SIZE) by (apply IH; intros; apply H; auto).
    lia.
  - rewrite len_cons, succ_mul_SS.
    assert (len (concat_chunks l) <= len l * SLICE_SIZE) by (apply IH; intros; apply H; auto).
    lia.
Qed.

Lemma concat_chunks_full (f : nat -> list N) (l : list (option (list N))) k :
  (forall i ch, nth_error l i = Some (Some ch) -> ch = f (k + i)%nat) ->
  (forall x, In x l -> isS x = true) ->
  concat_chunks l = concat (map f (seq k (length l))).
Proof.
  revert k. induction l as [|y l IH]; intros k H1 H2; cbn [length seq map concat concat_chunks].
  - reflexivity.
  - destruct y as [c|].
    + f_equal.
      * specialize (H1 0%nat c eq_refl). rewrite Nat.add_0_r in H1. exact H1.
      * apply IH.
        -- intros i ch Hi. specialize (H1 (S i) ch Hi). rewrite H1. f_equal. lia.
        -- intros x Hx. apply H2. right. exact Hx.
    + specialize (H2 None (or_introl eq_refl)). discriminate.
Qed.

(* ------------------------------------------------------------------ *)
(* structure of sctor_process on a well-formed constructor *)

Definition sctor_put (c : sctor) (idx : N) (bytes : list N) : sctor :=
  {| sc_num := sc_num c; sc_nrecv := sc_nrecv c + 1;
     sc_chunks := upd (sc_chunks c) (N.to_nat idx) (Some bytes) |}.

Definition size_ok (c : sctor) (idx : N) (bytes : list N) : Prop :=
  if idx =? sc_num c - 1 then len bytes <= SLICE_SIZE else len bytes = SLICE_SIZE.

Lemma sctor_process_cases c idx bytes : sctor_wf c ->
  (sctor_process c idx bytes = Err InvalidSliceMessage /\ (sc_num c <= idx \/ ~ size_ok c idx bytes))
  \/ (idx < sc_num c /\ size_ok c idx bytes /\
      exists cur, nth_error (sc_chunks c) (N.to_nat idx) = Some cur /\
        match cur with
        | Some _ => sctor_process c idx bytes = Ok (c, None)
        | None =>
            sctor_process c idx bytes =
              if sc_nrecv c + 1 =? sc_num c
              then Ok (sctor_put c idx bytes, Some (concat_chunks (sc_chunks (sctor_put c idx bytes))))
              else Ok (sctor_put c idx bytes, None)
        end).
Proof.
  intros (W1 & W2 & W3 & W4 & W5). unfold sctor_process, size_ok.
  destruct (N.leb_spec (sc_num c) idx) as [Hle|Hlt]; [left; split; auto|].
  destruct (N.eqb_spec idx (sc_num c - 1)) as [El|El].
  - destruct (N.ltb_spec SLICE_SIZE (len bytes)); [left; split; [reflexivity|right; lia]|].
    right. split; [auto|split; [auto|]].
    rewrite nth_opt_eq.
    destruct (nth_error (sc_chunks c) (N.to_nat idx)) as [cur|] eqn:En.
    2:{ apply nth_error_None in En. lia. }
    exists cur. split; [reflexivity|].
    destruct cur.
    + destruct (N.eqb_spec (sc_nrecv c) (sc_num c)); [lia|reflexivity].
    + reflexivity.
  - destruct (N.eqb_spec (len bytes) SLICE_SIZE); cbn [negb];
      [|left; split; [reflexivity|right; lia]].
    right. split; [auto|split; [auto|]].
    rewrite nth_opt_eq.
    destruct (nth_error (sc_chunks c) (N.to_nat idx)) as [cur|] eqn:En.
    2:{ apply nth_error_None in En. lia. }
    exists cur. split; [reflexivity|].
    destruct cur.
    + destruct (N.eqb_spec (sc_nrecv c) (sc_num c)); [lia|reflexivity].
    + reflexivity.
Qed.

Lemma size_ok_le c idx bytes : size_ok c idx bytes -> len bytes <= SLICE_SIZE.
Proof. unfold size_ok. destruct (idx =? sc_num c - 1); lia. Qed.

Lemma wf_chunk_in c ch : sctor_wf c -> In (Some ch) (sc_chunks c) -> len ch <= SLICE_SIZE.
Proof.
  intros (_ & _ & _ & _ & W5) Hin. apply In_nth_error in Hin. destruct Hin as [i Hi]. eauto.
Qed.

Lemma put_nrecv c idx bytes : sctor_wf c ->
  nth_error (sc_chunks c) (N.to_nat idx) = Some None ->
  sc_nrecv (sctor_put c idx bytes) =
    len (filter isS (sc_chunks (sctor_put c idx bytes))).
Proof.
  intros (W1 & W2 & W3 & W4 & W5) Hn. cbn [sctor_put sc_nrecv sc_chunks].
  unfold len. rewrite count_upd by auto. rewrite W3. unfold len. lia.
Qed.

Lemma put_chunk_bound c idx bytes : sctor_wf c -> size_ok c idx bytes ->
  forall i ch, nth_error (sc_chunks (sctor_put c idx bytes)) i = Some (Some ch) -> len ch <= SLICE_SIZE.
Proof.
  intros W Hs i ch. cbn [sctor_put sc_chunks].
  destruct (Nat.eq_dec (N.to_nat idx) i) as [<-|Hne].
  - intros H. assert (Hl : (N.to_nat idx < length (sc_chunks c))%nat).
    { rewrite <- (upd_length _ (N.to_nat idx) (Some bytes)). apply nth_error_Some. congruence. }
    rewrite nth_error_upd_same in H by auto. injection H as <-. eapply size_ok_le; eauto.
  - rewrite nth_error_upd_other by auto. destruct W as (_ & _ & _ & _ & W5). apply W5.
Qed.

Lemma put_wf c idx bytes : sctor_wf c -> size_ok c idx bytes ->
  nth_error (sc_chunks c) (N.to_nat idx) = Some None ->
  sc_nrecv c + 1 <> sc_num c ->
  sctor_wf (sctor_put c idx bytes).
Proof.
  intros W Hs Hn Hne. pose proof W as (W1 & W2 & W3 & W4 & W5).
  split; [exact W1|]. split; [cbn [sctor_put sc_chunks sc_num]; rewrite upd_length; exact W2|].
  split; [apply put_nrecv; auto|]. split; [cbn [sctor_put sc_nrecv sc_num]; lia|].
  apply put_chunk_bound; auto.
Qed.

Theorem sctor_process_safe : forall c idx bytes, sctor_wf c ->
  match sctor_process c idx bytes with
  | Ok (c', None) => sctor_wf c' /\ sc_num c' = sc_num c
  | Ok (c', Some m) => len m <= sc_num c * SLICE_SIZE
  | Err e => e = InvalidSliceMessage
  | Panic _ => False
  end.
Proof.
  intros c idx bytes W.
  destruct (sctor_process_cases c idx bytes W) as [[-> _]|(Hi & Hs & cur & Hn & Hc)]; [reflexivity|].
  destruct cur as [x|].
  - rewrite Hc. auto.
  - rewrite Hc. destruct (N.eqb_spec (sc_nrecv c + 1) (sc_num c)) as [E|E].
    + pose proof (len_concat_chunks_le (sc_chunks (sctor_put c idx bytes))) as L.
      assert (Hlen : len (sc_chunks (sctor_put c idx bytes)) = sc_num c).
      { cbn [sctor_put sc_chunks]. unfold len. rewrite upd_length.
        destruct W as (_ & W2 & _). rewrite W2. lia. }
      rewrite Hlen in L. apply L.
      intros ch Hin. apply In_nth_error in Hin. destruct Hin as [i Hi'].
      eapply put_chunk_bound; eauto.
    + split; [apply put_wf; auto|reflexivity].
Qed.

Theorem sctor_new_wf : forall n, 1 <= n -> sctor_wf (sctor_new n).
Proof.
  intros n Hn. unfold sctor_wf, sctor_new. cbn [sc_num sc_nrecv sc_chunks].
  split; [exact Hn|]. split; [apply repeatN_length|].
  split.
  - replace (filter isS (repeatN None (N.to_nat n))) with (@nil (option (list N))); [reflexivity|].
    induction (N.to_nat n) as [|k IH]; cbn [repeatN filter]; auto.
  - split; [lia|]. intros i ch H. apply nth_error_repeatN in H. discriminate.
Qed.

(* ------------------------------------------------------------------ *)
(* an honest constructor: it holds chunks of m only *)

Definition ctor_ok (m : list N) (c : sctor) : Prop :=
  sc_num c = num_slices_of m /\
  forall i ch, nth_error (sc_chunks c) i = Some (Some ch) -> ch = slice_payload m (N.of_nat i).

Definition has (c : sctor) (i : N) : Prop :=
  exists ch, nth_error (sc_chunks c) (N.to_nat i) = Some (Some ch).

Lemma ctor_ok_new m : ctor_ok m (sctor_new (num_slices_of m)).
Proof.
  split; [reflexivity|]. intros i ch H. cbn [sctor_new sc_chunks] in H.
  apply nth_error_repeatN in H. discriminate.
Qed.

Lemma has_new n i : ~ has (sctor_new n) i.
Proof.
  intros [ch H]. cbn [sctor_new sc_chunks] in H. apply nth_error_repeatN in H. discriminate.
Qed.

Lemma wf_not_full c : sctor_wf c -> (forall i, i < sc_num c -> has c i) -> False.
Proof.
  intros (W1 & W2 & W3 & W4 & W5) H.
  assert (F : filter isS (sc_chunks c) = sc_chunks c).
  { apply filter_true_id. intros x Hx. apply In_nth_error in Hx. destruct Hx as [i Hi].
    assert (Hl : (i < length (sc_chunks c))%nat) by (apply nth_error_Some; congruence).
    destruct (H (N.of_nat i)) as [ch Hch]; [lia|].
    rewrite Nat2N.id in Hch. rewrite Hi in Hch. injection Hch as ->. reflexivity. }
  rewrite F in W3. unfold len in W3. lia.
Qed.

Lemma has_put c idx bytes i : (N.to_nat idx < length (sc_chunks c))%nat ->
  has (sctor_put c idx bytes) i <-> has c i \/ i = idx.
Proof.
  intros Hl. unfold has. cbn [sctor_put sc_chunks].
  destruct (N.eq_dec i idx) as [-> |Hne].
  - rewrite nth_error_upd_same by auto. split; [auto|]. intros _. eauto.
  - rewrite nth_error_upd_other by lia. split; [auto|]. intros [?|?]; [auto|congruence].
Qed.

Lemma ctor_ok_put m c idx : ctor_ok m c -> (N.to_nat idx < length (sc_chunks c))%nat ->
  ctor_ok m (sctor_put c idx (slice_payload m idx)).
Proof.
  intros [O1 O2] Hl. split; [exact O1|]. intros i ch. cbn [sctor_put sc_chunks].
  destruct (Nat.eq_dec (N.to_nat idx) i) as [<-|Hne].
  - rewrite nth_error_upd_same by auto. intros [= <-]. rewrite N2Nat.id. reflexivity.
  - rewrite nth_error_upd_other by auto. apply O2.
Qed.

Lemma ctor_ok_size m c idx : SLICE_SIZE < len m -> ctor_ok m c -> idx < num_slices_of m ->
  size_ok c idx (slice_payload m idx).
Proof.
  intros H [O1 _] Hi. unfold size_ok. rewrite O1. apply len_payload_ok; auto.
Qed.

Lemma ctor_full_concat m c : SLICE_SIZE < len m -> ctor_ok m c ->
  length (sc_chunks c) = N.to_nat (sc_num c) ->
  length (filter isS (sc_chunks c)) = length (sc_chunks c) ->
  concat_chunks (sc_chunks c) = m.
Proof.
  intros H [O1 O2] Hl Hf.
  rewrite (concat_chunks_full (fun i => slice_payload m (N.of_nat i)) _ 0%nat).
  - rewrite Hl, O1. destruct (slices_partition m H) as [E _].
    unfold iota in E. rewrite map_map in E. exact E.
  - intros i ch Hi. cbn [Nat.add]. apply O2. exact Hi.
  - apply filter_full. exact Hf.
Qed.

Lemma sctor_process_honest m c idx :
  SLICE_SIZE < len m -> sctor_wf c -> ctor_ok m c -> idx < num_slices_of m ->
  match sctor_process c idx (slice_payload m idx) with
  | Ok (c', None) =>
      sctor_wf c' /\ ctor_ok m c' /\ sc_num c' = sc_num c /\ (forall i, has c' i <-> has c i \/ i = idx)
  | Ok (c', Some m') => m' = m /\ (forall i, i < num_slices_of m -> has c i \/ i = idx)
  | _ => False
  end.
Proof.
  intros H W O Hi. pose proof O as [O1 O2]. pose proof W as (W1 & W2 & W3 & W4 & W5).
  pose proof (ctor_ok_size m c idx H O Hi) as Hs.
  destruct (sctor_process_cases c idx (slice_payload m idx) W)
    as [[_ [Hbad|Hbad]]|(_ & _ & cur & Hn & Hc)]; [lia|tauto|].
  assert (Hl : (N.to_nat idx < length (sc_chunks c))%nat) by lia.
  destruct cur as [x|].
  - rewrite Hc. split; [auto|split; [auto|split; [auto|]]].
    intros i. split; [auto|]. intros [?| ->]; [auto|]. exists x. exact Hn.
  - rewrite Hc. destruct (N.eqb_spec (sc_nrecv c + 1) (sc_num c)) as [E|E].
    + assert (Hfull : length (filter isS (sc_chunks (sctor_put c idx (slice_payload m idx))))
                      = length (sc_chunks (sctor_put c idx (slice_payload m idx)))).
      { cbn [sctor_put sc_chunks]. rewrite count_upd by auto. rewrite upd_length.
        unfold len in W3. lia. }
      split.
      * apply ctor_full_concat; auto.
        -- apply ctor_ok_put; auto.
        -- cbn [sctor_put sc_chunks sc_num]. rewrite upd_length. exact W2.
      * intros i Hi'. apply (proj1 (has_put c idx (slice_payload m idx) i Hl)).
        pose proof (filter_full _ _ Hfull) as Hall.
        assert (Hli : (N.to_nat i < length (sc_chunks (sctor_put c idx (slice_payload m idx))))%nat).
        { cbn [sctor_put sc_chunks]. rewrite upd_length. lia. }
        apply nth_error_Some in Hli.
        destruct (nth_error (sc_chunks (sctor_put c idx (slice_payload m idx))) (N.to_nat i))
          as [o|] eqn:Eo; [|congruence].
        specialize (Hall o (nth_error_In _ _ Eo)). destruct o; [|discriminate].
        eexists. exact Eo.
    + split; [apply put_wf; auto|]. split; [apply ctor_ok_put; auto|].
      split; [reflexivity|]. intros i. apply has_put. exact Hl.
Qed.

(* ------------------------------------------------------------------ *)
(* S2 *)

Lemma ctor_feed_gen m : SLICE_SIZE < len m ->
  forall idxs c, sctor_wf c -> ctor_ok m c -> Forall (fun i => i < num_slices_of m) idxs ->
  ((forall i, i < num_slices_of m -> has c i \/ In i idxs) -> ctor_feed m c idxs = Ok (Some m)) /\
  (~ (forall i, i < num_slices_of m -> has c i \/ In i idxs) -> ctor_feed m c idxs = Ok None).
Proof.
  intros H. induction idxs as [|idx t IH]; intros c W O F.
  - split; [|reflexivity]. intros Hall. exfalso. apply (wf_not_full c W).
    destruct O as [O1 _]. rewrite O1. intros i Hi. destruct (Hall i Hi) as [?|[]]; auto.
  - inversion F as [|? ? Hidx F']; subst. cbn [ctor_feed].
    pose proof (sctor_process_honest m c idx H W O Hidx) as P.
    destruct (sctor_process c idx (slice_payload m idx)) as [[c' [m'|]]|e|s]; try contradiction.
    + destruct P as [-> Hall]. cbn [bind]. split; [reflexivity|].
      intros Hn. exfalso. apply Hn. intros i Hi. destruct (Hall i Hi) as [?| ->]; [auto|].
      right. left. reflexivity.
    + destruct P as (W' & O' & _ & Hhas). cbn [bind].
      destruct (IH c' W' O' F') as [I1 I2]. split.
      * intros Hall. apply I1. intros i Hi. rewrite Hhas.
        destruct (Hall i Hi) as [?|[-> |?]]; auto.
      * intros Hn. apply I2. intros Hall. apply Hn. intros i Hi.
        destruct (Hall i Hi) as [Hh|?]; [|right; right; auto].
        apply Hhas in Hh. destruct Hh as [?| ->]; [auto|right; left; reflexivity].
Qed.

Theorem ctor_reassembles : forall m idxs, SLICE_SIZE < len m ->
  Forall (fun i => i < num_slices_of m) idxs ->
  (covers (num_slices_of m) idxs -> ctor_feed m (sctor_new (num_slices_of m)) idxs = Ok (Some m)) /\
  (~ covers (num_slices_of m) idxs -> ctor_feed m (sctor_new (num_slices_of m)) idxs = Ok None).
Proof.
  intros m idxs H F.
  destruct (num_bounds m H) as (_ & _ & B3).
  destruct (ctor_feed_gen m H idxs (sctor_new (num_slices_of m))
              (sctor_new_wf (num_slices_of m) ltac:(lia)) (ctor_ok_new m) F) as [G1 G2].
  split.
  - intros C. apply G1. intros i Hi. right. apply C. exact Hi.
  - intros C. apply G2. intros Hall. apply C. intros i Hi.
    destruct (Hall i Hi) as [Hh|?]; [|auto]. exfalso. eapply has_new. exact Hh.
Qed.

Print Assumptions slices_partition.
Print Assumptions ctor_reassembles.
Print Assumptions sctor_process_safe.
Print Assumptions sctor_new_wf.
