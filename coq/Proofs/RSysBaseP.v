(* RSysBaseP.v - helpers for the system-level proofs (RSysP.v): the application logs, stability
   of the honest-event executions under growth of the log, the symmetry A <-> B, monotonicity
   of the "was delivered" predicates. *)
From RenetV Require Import Base Consts Varint Packet Channels Conn Server.
From RenetV Require Import CodecSpec RecvSpec SendSpec ConnSpec ConnInvSpec RSysSpec RSysInvSpec.
From RenetV Require Import SMapP ConnBaseP ConnProcP ConnFlushP ConnP.
From RenetV Require AcksP VarintP PacketP RecvRelP RecvUnrelP SMapSendP SendRelP SendUnrelP DisconnectP ConnEncP SliceP.
Require Import Lia ZifyBool ZifyN ZifyNat.
Open Scope N_scope.

Arguments N.add : simpl never.
Arguments N.sub : simpl never.
Arguments N.mul : simpl never.
Arguments N.div : simpl never.
Arguments N.modulo : simpl never.
Arguments N.eqb : simpl never.
Arguments N.ltb : simpl never.
Arguments N.leb : simpl never.
Local Opaque SLICE_SIZE MAX_ACK_RANGES SER_BUFFER NC_MAX_PAYLOAD_BYTES DISCARD_PACKET_SECS VARINT_MAX MAX_NUM_SLICES.

(* ================================================================== *)
(* the application logs *)

Lemma log_get_add l ch m ch' :
  log_get (log_add l ch m) ch' = if ch' =? ch then log_get l ch' ++ [m] else log_get l ch'.
Proof.
  induction l as [|[c ms] t IH]; cbn [log_add log_get].
  - destruct (N.eqb_spec ch ch') as [->|Hne].
    + rewrite N.eqb_refl. reflexivity.
    + destruct (N.eqb_spec ch' ch); [congruence|reflexivity].
  - destruct (N.eqb_spec c ch) as [->|Hne]; cbn [log_get].
    + destruct (N.eqb_spec ch ch') as [->|Hne'].
      * rewrite N.eqb_refl. reflexivity.
      * destruct (N.eqb_spec ch' ch); [congruence|reflexivity].
    + destruct (N.eqb_spec c ch') as [->|Hne'].
      * destruct (N.eqb_spec ch' ch); [congruence|reflexivity].
      * exact IH.
Qed.

Lemma log_get_add_same l ch m : log_get (log_add l ch m) ch = log_get l ch ++ [m].
Proof. rewrite log_get_add, N.eqb_refl. reflexivity. Qed.

Lemma log_get_add_other l ch m ch' : ch' <> ch -> log_get (log_add l ch m) ch' = log_get l ch'.
Proof. intros H. rewrite log_get_add. destruct (N.eqb_spec ch' ch); [congruence|reflexivity]. Qed.

(* the log of a channel only grows, by appending *)
Definition log_ext (l l' : chan_log) : Prop := forall ch, exists more, log_get l' ch = log_get l ch ++ more.

Lemma log_ext_refl l : log_ext l l.
Proof. intros ch. exists []. now rewrite app_nil_r. Qed.

Lemma log_ext_add l ch m : log_ext l (log_add l ch m).
Proof.
  intros ch'. rewrite log_get_add. destruct (ch' =? ch); [exists [m]|exists []; rewrite app_nil_r]; reflexivity.
Qed.

Lemma msg_at_app l l' id m : msg_at l id = Some m -> msg_at (l ++ l') id = Some m.
Proof.
  unfold msg_at. intros H. rewrite nth_error_app1; [exact H|]. apply nth_error_Some. congruence.
Qed.

Lemma msg_at_snoc l m : msg_at (l ++ [m]) (len l) = Some m.
Proof.
  unfold msg_at, len. rewrite Nat2N.id, nth_error_app2 by lia. rewrite Nat.sub_diag. reflexivity.
Qed.

Lemma msg_at_lt l id m : msg_at l id = Some m -> id < len l.
Proof.
  unfold msg_at, len. intros H. assert (N.to_nat id < length l)%nat by (apply nth_error_Some; congruence). lia.
Qed.

Lemma msg_at_snoc_inv l m id x : msg_at (l ++ [m]) id = Some x -> msg_at l id = Some x \/ (id = len l /\ x = m).
Proof.
  unfold msg_at, len. intros H.
  destruct (Nat.lt_ge_cases (N.to_nat id) (length l)) as [Hlt|Hge].
  - left. now rewrite nth_error_app1 in H by exact Hlt.
  - right. rewrite nth_error_app2 in H by exact Hge.
    destruct (N.to_nat id - length l)%nat as [|k] eqn:E; cbn [nth_error] in H.
    + injection H as <-. split; [lia|reflexivity].
    + destruct k; discriminate.
Qed.

Lemma msg_at_in l id m : msg_at l id = Some m -> In m l.
Proof. unfold msg_at. apply nth_error_In. Qed.

(* ================================================================== *)
(* honest packets are stable under growth of the log *)

Lemma small_ok_app l l' im : small_ok l im -> small_ok (l ++ l') im.
Proof. intros [A B]. split; [now apply msg_at_app|exact B]. Qed.

Lemma slice_ok_app l l' sl : slice_ok l sl -> slice_ok (l ++ l') sl.
Proof. intros (m & A & B). exists m. split; [now apply msg_at_app|exact B]. Qed.

Lemma uslice_ok_app l l' sl : uslice_ok l sl -> uslice_ok (l ++ l') sl.
Proof. intros (m & A & B). exists m. split; [apply in_or_app; now left|exact B]. Qed.

Lemma pkt_honest_ext sent sent' p : log_ext sent sent' -> pkt_honest sent p -> pkt_honest sent' p.
Proof.
  intros He. destruct p as [sq ch ms|sq ch ms|sq ch sl|sq ch sl|sq rs]; cbn [pkt_honest]; auto;
    destruct (He ch) as (more & ->).
  - intros H. eapply Forall_impl; [|exact H]. intros im. apply small_ok_app.
  - intros H. eapply Forall_impl; [|exact H]. intros m Hm. apply in_or_app. now left.
  - apply slice_ok_app.
  - apply uslice_ok_app.
Qed.

Lemma out_ok_ext out sent sent' : log_ext sent sent' -> out_ok out sent -> out_ok out sent'.
Proof. intros He H bytes p Hin Hp. eapply pkt_honest_ext; eauto. Qed.

(* ================================================================== *)
(* honest-event executions *)

Lemma rev_ok_app sent more e : rev_ok sent e -> rev_ok (sent ++ more) e.
Proof.
  destruct e as [id|id idx|]; cbn [rev_ok]; auto.
  - intros (m & A & B). exists m. split; [now apply msg_at_app|exact B].
  - intros (m & A & B). exists m. split; [now apply msg_at_app|exact B].
Qed.

Lemma rr_step_sent_app sent more r e : rev_ok sent e -> rr_step (sent ++ more) r e = rr_step sent r e.
Proof.
  destruct e as [id|id idx|]; cbn [rev_ok rr_step]; auto.
  - intros (m & A & _). now rewrite (msg_at_app _ more _ _ A), A.
  - intros (m & A & _). now rewrite (msg_at_app _ more _ _ A), A.
Qed.

Lemma rr_exec_sent_app sent more evs : Forall (rev_ok sent) evs ->
  forall r outs, rr_exec (sent ++ more) r evs outs = rr_exec sent r evs outs.
Proof.
  induction 1 as [|e t He _ IH]; intros r outs; cbn [rr_exec]; [reflexivity|].
  rewrite (rr_step_sent_app sent more r e He).
  destruct (rr_step sent r e) as [[r' o]| |]; [apply IH|reflexivity|reflexivity].
Qed.

Lemma rr_exec_app sent evs1 evs2 : forall r outs r1 outs1,
  rr_exec sent r evs1 outs = (r1, outs1, false) ->
  rr_exec sent r (evs1 ++ evs2) outs = rr_exec sent r1 evs2 outs1.
Proof.
  induction evs1 as [|e t IH]; intros r outs r1 outs1 E; cbn [rr_exec app] in *.
  - injection E as <- <-. reflexivity.
  - destruct (rr_step sent r e) as [[r' o]| |]; [eauto|discriminate|discriminate].
Qed.

Lemma rr_refines_app sent more got o r : rr_refines sent got o r -> rr_refines (sent ++ more) got o r.
Proof.
  intros (max & evs & outs & F & E & G). exists max, evs, outs.
  split; [eapply Forall_impl; [|exact F]; intros e; apply rev_ok_app|].
  split; [rewrite rr_exec_sent_app by exact F; exact E|exact G].
Qed.

(* extending an execution by more honest events *)
Lemma rr_refines_ext sent got o r evs2 r' outs2 :
  rr_refines sent got o r -> Forall (rev_ok sent) evs2 ->
  (forall outs, rr_exec sent r evs2 outs = (r', outs ++ outs2, false)) ->
  rr_refines sent (got ++ map snd outs2) o r'.
Proof.
  intros (max & evs & outs & F & E & G) F2 E2. exists max, (evs ++ evs2), (outs ++ outs2).
  split; [apply Forall_app; auto|].
  split; [rewrite (rr_exec_app _ _ _ _ _ _ _ E); apply E2|].
  rewrite map_app, G. reflexivity.
Qed.

(* a SmallReliable packet is one RSmall event per entry *)
Lemma process_rel_msgs_exec sent ms : forall r r' outs,
  Forall (small_ok sent) ms -> process_rel_msgs r ms = Ok r' ->
  rr_exec sent r (map (fun im => RSmall (fst im)) ms) outs = (r', outs, false).
Proof.
  induction ms as [|[id m] t IH]; intros r r' outs F E; cbn [process_rel_msgs map rr_exec] in *.
  - injection E as <-. reflexivity.
  - inversion F as [|? ? [Hat _] Ft]; subst. cbn [fst snd] in *.
    cbn [rr_step]. rewrite Hat.
    destruct (rr_process_message r m id) as [r1| |]; cbn [bind] in *; try discriminate.
    now apply IH.
Qed.

Lemma small_events_ok sent ms : Forall (small_ok sent) ms -> Forall (rev_ok sent) (map (fun im => RSmall (fst im)) ms).
Proof.
  intros F. apply Forall_map. eapply Forall_impl; [|exact F].
  intros [id m] [A B]. cbn [fst snd rev_ok] in *. eauto.
Qed.

(* a ReliableSlice packet is one RSlice event *)
Lemma process_slice_exec sent sl r r' outs :
  slice_ok sent sl -> rr_process_slice r sl = Ok r' ->
  rr_exec sent r [RSlice (sl_id sl) (sl_index sl)] outs = (r', outs, false) /\
  rev_ok sent (RSlice (sl_id sl) (sl_index sl)).
Proof.
  intros (m & Hat & Hlen & Hsl & Hidx) E. split.
  - cbn [rr_exec rr_step]. rewrite Hat, <- Hsl, E. reflexivity.
  - cbn [rev_ok]. eauto.
Qed.

(* a receive_message call is one RRecv event *)
Lemma rr_receive_next r r' m : rr_receive r = Ok (r', Some m) -> exists id, next_id r = Some id.
Proof.
  unfold rr_receive, next_id. destruct (rr_order r) as [|mr rcv].
  - unfold sm_mem. destruct (sm_find (rr_oldest r) (rr_messages r)) as [m0|]; [eauto|discriminate].
  - destruct (rr_messages r) as [|[id m0] rest]; [discriminate|eauto].
Qed.

Lemma rr_receive_exec sent r r' mo :
  rr_receive r = Ok (r', mo) ->
  exists outs2, (forall outs, rr_exec sent r [RRecv] outs = (r', outs ++ outs2, false)) /\
                map snd outs2 = match mo with Some m => [m] | None => [] end.
Proof.
  intros E. cbn [rr_exec rr_step]. rewrite E. cbn [bind].
  destruct mo as [m|].
  - destruct (rr_receive_next _ _ _ E) as (id & ->). exists [(id, m)]. split; reflexivity.
  - exists []. split; [intros outs; now rewrite app_nil_r|reflexivity].
Qed.

(* outputs of an honest execution are submitted messages *)
Lemma rr_refines_outs sent got o r : rr_refines sent got o r -> Forall (fun m => In m sent) got.
Proof.
  intros (max & evs & outs & F & E & <-).
  destruct (RecvRelP.exec_from_init sent max o evs r outs false F E) as (H & _).
  pose proof (RecvRelP.hc_outs_ok _ _ _ H) as Hok. unfold RecvRelP.outs_ok in Hok.
  apply Forall_map. eapply Forall_impl; [|exact Hok]. intros [id m] Hat. cbn [fst snd] in *.
  eapply msg_at_in; eauto.
Qed.

(* ================================================================== *)
(* the symmetry *)

Lemma flip_flip s : flip (flip s) = s.
Proof. destruct s; reflexivity. Qed.

Lemma flip_op_flip o : flip_op (flip_op o) = o.
Proof. destruct o as [[] ?|[] ?]; reflexivity. Qed.

Definition map_res {E A B} (f : A -> B) (r : res E A) : res E B :=
  match r with Ok a => Ok (f a) | Err e => Err e | Panic p => Panic p end.

Lemma sys_step_flip s o : sys_step (flip s) (flip_op o) = map_res flip (sys_step s o).
Proof.
  destruct o as [x op|x i].
  - cbn [flip_op sys_step]. destruct (is_process op); [reflexivity|].
    destruct x; cbn [flip_side conn_of flip ra rb];
      (destruct (cstep _ op) as [[c' out]| |]; cbn [bind map_res]; reflexivity).
  - destruct x; cbn [flip_op flip_side sys_step flip out_a out_b ra rb].
    + destruct (nth_error (out_b s) i) as [bytes|]; [|reflexivity].
      destruct (process_packet (ra s) bytes) as [c'| |]; reflexivity.
    + destruct (nth_error (out_a s) i) as [bytes|]; [|reflexivity].
      destruct (process_packet (rb s) bytes) as [c'| |]; reflexivity.
Qed.

Lemma sys_step_flip_ok s o s' : sys_step s o = Ok s' -> sys_step (flip s) (flip_op o) = Ok (flip s').
Proof. intros H. rewrite sys_step_flip, H. reflexivity. Qed.

(* ================================================================== *)
(* "was delivered" only grows *)

Lemma nth_error_app_some {A} (l l' : list A) i x : nth_error l i = Some x -> nth_error (l ++ l') i = Some x.
Proof. intros H. rewrite nth_error_app1; [exact H|]. apply nth_error_Some. congruence. Qed.

Lemma delivered_mono oa oa' dlv dlv' x :
  delivered oa dlv x -> delivered (oa ++ oa') (dlv ++ dlv') x.
Proof.
  intros (i & bytes & p & A & B & C & D). exists i, bytes, p.
  split; [apply in_or_app; now left|]. split; [now apply nth_error_app_some|auto].
Qed.

Lemma part_delivered_mono oa oa' dlv dlv' ch id part :
  part_delivered oa dlv ch id part -> part_delivered (oa ++ oa') (dlv ++ dlv') ch id part.
Proof.
  intros (i & bytes & A & B & C). exists i, bytes.
  split; [apply in_or_app; now left|]. split; [now apply nth_error_app_some|exact C].
Qed.

Lemma all_delivered_mono oa oa' dlv dlv' ch id m :
  all_delivered oa dlv ch id m -> all_delivered (oa ++ oa') (dlv ++ dlv') ch id m.
Proof.
  unfold all_delivered. destruct (len m <=? SLICE_SIZE).
  - apply part_delivered_mono.
  - intros H idx Hidx. apply part_delivered_mono. auto.
Qed.

Lemma app_nil_r' {A} (l : list A) : l = l ++ [].
Proof. now rewrite app_nil_r. Qed.
