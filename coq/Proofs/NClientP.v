(* Proofs/NClientP.v - the renetcode client (Netcode/NClient.v): invariant, no panic,
   inauthentic / replayed datagrams change nothing, payloads surface only when connected
   and authentic, sequence discipline, liveness building blocks. *)
From RenetV Require Import Base Consts Aead NPacket Token NClient NetSpec.
From RenetV.Proofs Require Import AeadP.
Require Import Lia ZifyBool ZifyN ZifyNat.
Open Scope N_scope.
Arguments N.add : simpl never.
Arguments N.sub : simpl never.
Arguments N.mul : simpl never.
Arguments N.div : simpl never.
Arguments N.modulo : simpl never.
Arguments N.eqb : simpl never.
Arguments N.ltb : simpl never.
Arguments N.leb : simpl never.

(* ================================================================== *)
(* 0. small facts about lists and lengths                              *)
(* ================================================================== *)

Lemma len_nil : forall A, len (@nil A) = 0.
Proof. reflexivity. Qed.

Lemma len_cons : forall A (x : A) l, len (x :: l) = 1 + len l.
Proof. intros. unfold len. cbn [length]. lia. Qed.

Lemma len_app : forall A (a b : list A), len (a ++ b) = len a + len b.
Proof. intros. unfold len. rewrite app_length. lia. Qed.

Lemma le_bytes_length : forall n v, length (le_bytes n v) = n.
Proof. induction n as [|n IH]; intro v; cbn [le_bytes length]; [reflexivity | rewrite IH; reflexivity]. Qed.

Lemma len_le_bytes : forall n v, len (le_bytes n v) = N.of_nat n.
Proof. intros. unfold len. rewrite le_bytes_length. reflexivity. Qed.

Lemma len_le64 : forall v, len (le64 v) = 8.
Proof. intro v. unfold le64. rewrite len_le_bytes. reflexivity. Qed.

Lemma len_le32 : forall v, len (le32 v) = 4.
Proof. intro v. unfold le32. rewrite len_le_bytes. reflexivity. Qed.

Lemma len_takeN : forall A n (l : list A), n <= len l -> len (takeN n l) = n.
Proof. intros A n l H. unfold len, takeN in *. rewrite firstn_length. lia. Qed.

Lemma len_dropN : forall A n (l : list A), len (dropN n l) = len l - n.
Proof. intros A n l. unfold len, dropN. rewrite skipn_length. lia. Qed.

Lemma repeatN_length : forall A (x : A) n, length (repeatN x n) = n.
Proof. induction n as [|n IH]; cbn [repeatN length]; [reflexivity | rewrite IH; reflexivity]. Qed.

Lemma len_zeros : forall n, len (zeros n) = n.
Proof. intro n. unfold len, zeros. rewrite repeatN_length. lia. Qed.

Lemma upd_length : forall A (l : list A) i x, length (upd l i x) = length l.
Proof.
  induction l as [|y l IH]; intros i x; destruct i as [|i]; cbn [upd length]; try reflexivity.
  rewrite IH. reflexivity.
Qed.

Lemma nth_upd_same : forall A (l : list A) i x d, (i < length l)%nat -> nth i (upd l i x) d = x.
Proof.
  induction l as [|y l IH]; intros i x d H; cbn [length] in H; [lia|].
  destruct i as [|i]; cbn [upd nth]; [reflexivity|]. apply IH. lia.
Qed.

Lemma nth_opt_Some_lt : forall A (l : list A) i x, nth_opt l i = Some x -> (i < length l)%nat.
Proof.
  induction l as [|y l IH]; intros i x H; destruct i as [|i]; cbn [nth_opt length] in *; try discriminate; try lia.
  apply IH in H. lia.
Qed.

Lemma nth_opt_lt_Some : forall A (l : list A) i, (i < length l)%nat -> exists x, nth_opt l i = Some x.
Proof.
  induction l as [|y l IH]; intros i H; cbn [length] in H; [lia|].
  destruct i as [|i]; cbn [nth_opt]; [eexists; reflexivity|]. apply IH. lia.
Qed.

Lemma seq_bytes_fuel_le : forall f s, seq_bytes_fuel f s <= N.of_nat f.
Proof.
  induction f as [|f IH]; intro s; cbn [seq_bytes_fuel]; [lia|].
  destruct (s =? 0) eqn:E; [lia|]. specialize (IH (s / 256)). lia.
Qed.

Lemma seq_bytes_le : forall s, sequence_bytes_required s <= 8.
Proof. intro s. unfold sequence_bytes_required. apply (seq_bytes_fuel_le 8). Qed.

(* ================================================================== *)
(* 1. Packet::decode, characterised                                    *)
(* ================================================================== *)

Definition dgram_prefix (buf : list N) : N := match buf with [] => 0 | p :: _ => p end.
Definition dgram_body (buf : list N) : list N :=
  match buf with [] => [] | p :: rest => dropN (p / 16) rest end.

(* every check of decode on a sealed datagram that precedes the replay test and the cipher *)
Definition hdr_ok (buf : list N) : bool :=
  negb (len buf <? 2 + NC_MAC_BYTES) && negb (6 <? dgram_type buf) && negb (dgram_type buf =? 0) &&
  negb (8 <? dgram_prefix buf / 16) && negb (len (tl buf) <? dgram_prefix buf / 16) &&
  negb (len (dgram_body buf) <? NC_MAC_BYTES).

(* the AEAD level: the header is well formed and the tag verifies under key; Some plaintext *)
Definition dgram_open (key : list N) (protocol : N) (buf : list N) : option (list N) :=
  if hdr_ok buf
  then aead_open key (nonce_of (dgram_seq buf)) (packet_aad (dgram_prefix buf) protocol) (dgram_body buf)
  else None.

Definition aead_authentic (key : list N) (protocol : N) (buf : list N) : Prop :=
  exists plain, dgram_open key protocol buf = Some plain.

Lemma hdr_ok_type : forall buf, hdr_ok buf = true -> 1 <= dgram_type buf <= 6.
Proof. intros buf H. unfold hdr_ok in H. lia. Qed.

Lemma dgram_open_type : forall key protocol buf plain,
  dgram_open key protocol buf = Some plain -> 1 <= dgram_type buf <= 6.
Proof.
  intros key protocol buf plain H. unfold dgram_open in H.
  destruct (hdr_ok buf) eqn:E; [|discriminate]. apply hdr_ok_type. exact E.
Qed.

(* request-typed bytes: no key, no replay window *)
Lemma decode_type0 : forall buf protocol key rp,
  dgram_type buf = 0 ->
  exists r, decode buf protocol key rp = (rp, r) /\
            (forall s p, r = Ok (s, p) -> s = 0 /\ packet_id p = 0).
Proof.
  intros buf protocol key rp H. unfold decode.
  destruct (len buf <? 2 + NC_MAC_BYTES) eqn:E1.
  { eexists. split; [reflexivity|]. intros s p Hr. discriminate. }
  destruct buf as [|prefix rest].
  { eexists. split; [reflexivity|]. intros s p Hr. discriminate. }
  cbn [dgram_type] in H. cbv zeta. rewrite H.
  replace (6 <? 0) with false by reflexivity. replace (0 =? 0) with true by reflexivity.
  eexists. split; [reflexivity|].
  intros s p Hr. unfold read_packet in Hr.
  destruct (len rest <? 13 + 8 + 8 + NC_XNONCE_BYTES + NC_PRIVATE_BYTES) eqn:E2; cbn [bind] in Hr; [discriminate|].
  injection Hr as <- <-. split; reflexivity.
Qed.

(* sealed datagram: header malformed or tag wrong -> an error, the window untouched *)
Lemma decode_closed : forall buf protocol key rp,
  dgram_type buf <> 0 -> dgram_open key protocol buf = None ->
  exists e, decode buf protocol (Some key) rp = (rp, Err e).
Proof.
  intros buf protocol key rp Hty H. unfold decode.
  destruct (len buf <? 2 + NC_MAC_BYTES) eqn:E1; [eexists; reflexivity|].
  destruct buf as [|prefix rest]; [eexists; reflexivity|].
  cbn [dgram_type] in Hty. cbv zeta.
  destruct (6 <? prefix mod 16) eqn:E2; [eexists; reflexivity|].
  destruct (prefix mod 16 =? 0) eqn:E3; [lia|].
  destruct (8 <? prefix / 16) eqn:E4; [eexists; reflexivity|].
  destruct (len rest <? prefix / 16) eqn:E5; [eexists; reflexivity|].
  destruct (len (dropN (prefix / 16) rest) <? NC_MAC_BYTES) eqn:E6; [eexists; reflexivity|].
  match goal with |- context [if ?d then _ else _] => destruct d end; [eexists; reflexivity|].
  unfold dgram_open, hdr_ok in H.
  cbn [dgram_type dgram_prefix dgram_body dgram_seq tl] in H.
  rewrite E1, E2, E3, E4, E5, E6 in H. cbn [negb andb] in H.
  rewrite H. eexists; reflexivity.
Qed.

(* sealed datagram whose tag verifies *)
Lemma decode_open : forall buf protocol key rp plain,
  dgram_open key protocol buf = Some plain ->
  decode buf protocol (Some key) rp =
  match rp with
  | Some r =>
      if applies_replay (dgram_type buf) && already_received r (dgram_seq buf)
      then (Some r, Err EDuplicatedSequence)
      else (Some (if applies_replay (dgram_type buf) then advance_sequence r (dgram_seq buf) else r),
            do p <- read_packet (dgram_type buf) plain; Ok (dgram_seq buf, p))
  | None => (None, do p <- read_packet (dgram_type buf) plain; Ok (dgram_seq buf, p))
  end.
Proof.
  intros buf protocol key rp plain H. unfold dgram_open in H.
  destruct (hdr_ok buf) eqn:Hh; [|discriminate].
  destruct buf as [|prefix rest]; [discriminate Hh|].
  unfold hdr_ok in Hh. cbn [dgram_type dgram_prefix dgram_body dgram_seq tl] in *.
  apply andb_true_iff in Hh. destruct Hh as [Hh H6].
  apply andb_true_iff in Hh. destruct Hh as [Hh H5].
  apply andb_true_iff in Hh. destruct Hh as [Hh H4].
  apply andb_true_iff in Hh. destruct Hh as [Hh H3].
  apply andb_true_iff in Hh. destruct Hh as [H1 H2].
  apply negb_true_iff in H1, H2, H3, H4, H5, H6.
  unfold decode. rewrite H1. cbv zeta. rewrite H2, H3, H4, H5, H6.
  destruct rp as [r|].
  - destruct (applies_replay (prefix mod 16) && already_received r (le_val (takeN (prefix / 16) rest))) eqn:D;
      [reflexivity|].
    rewrite H. destruct (applies_replay (prefix mod 16)); reflexivity.
  - rewrite H. reflexivity.
Qed.

(* ---- Packet::read ---- *)
Lemma read_packet_id : forall ty src p, ty <= 6 -> read_packet ty src = Ok p -> packet_id p = ty.
Proof.
  intros ty src p Hty H.
  assert (C : ty = 0 \/ ty = 1 \/ ty = 2 \/ ty = 3 \/ ty = 4 \/ ty = 5 \/ ty = 6) by lia.
  destruct C as [->|[->|[->|[->|[->|[->| ->]]]]]]; unfold read_packet in H.
  - destruct (len src <? 13 + 8 + 8 + NC_XNONCE_BYTES + NC_PRIVATE_BYTES); [discriminate|].
    injection H as <-. reflexivity.
  - injection H as <-. reflexivity.
  - destruct (len src <? 8 + NC_CHALLENGE_BYTES); [discriminate|]. injection H as <-. reflexivity.
  - destruct (len src <? 8 + NC_CHALLENGE_BYTES); [discriminate|]. injection H as <-. reflexivity.
  - destruct (len src <? 8); [discriminate|]. injection H as <-. reflexivity.
  - injection H as <-. reflexivity.
  - injection H as <-. reflexivity.
Qed.

Lemma read_packet_payload : forall src, read_packet 5 src = Ok (PPayload src).
Proof. reflexivity. Qed.

Lemma read_packet_disconnect : forall src, read_packet 6 src = Ok PDisconnect.
Proof. reflexivity. Qed.

Lemma read_packet_denied : forall src, read_packet 1 src = Ok PDenied.
Proof. reflexivity. Qed.

Lemma read_packet_never_panics : forall ty src s, read_packet ty src <> Panic s.
Proof.
  intros ty src s. unfold read_packet.
  repeat match goal with
         | |- context [match ?x with _ => _ end] => destruct x
         end; discriminate.
Qed.

Lemma read_packet_challenge_len : forall ty src ts td,
  read_packet ty src = Ok (PChallenge ts td) -> len td = NC_CHALLENGE_BYTES.
Proof.
  intros ty src ts td H.
  destruct (N.leb_spec ty 6) as [Hle|Hgt].
  - pose proof (read_packet_id _ _ _ Hle H) as Hid. cbn [packet_id] in Hid. subst ty.
    unfold read_packet in H.
    destruct (len src <? 8 + NC_CHALLENGE_BYTES) eqn:E; [discriminate|].
    injection H as _ <-. apply len_takeN. rewrite len_dropN. lia.
  - exfalso. unfold read_packet in H.
    repeat match type of H with
           | context [match ?x with _ => _ end] => destruct x; try discriminate; try lia
           end.
Qed.

(* ---- opens_sealed in terms of the AEAD level ---- *)
Lemma decode_None_Ok : forall buf protocol key s p,
  dgram_type buf <> 0 ->
  (snd (decode buf protocol (Some key) None) = Ok (s, p) <->
   exists plain, dgram_open key protocol buf = Some plain /\
                 read_packet (dgram_type buf) plain = Ok p /\ s = dgram_seq buf).
Proof.
  intros buf protocol key s p Hty. split.
  - intro H. destruct (dgram_open key protocol buf) as [plain|] eqn:E.
    + rewrite (decode_open _ _ _ None _ E) in H. cbn [snd] in H.
      destruct (read_packet (dgram_type buf) plain) as [q| |] eqn:R; cbn [bind] in H; try discriminate.
      injection H as <- <-. exists plain. repeat split; assumption.
    + destruct (decode_closed _ _ _ None Hty E) as [e He]. rewrite He in H. discriminate.
  - intros (plain & E & R & ->).
    rewrite (decode_open _ _ _ None _ E). cbn [snd]. rewrite R. reflexivity.
Qed.

Lemma opens_sealed_iff : forall key protocol buf,
  opens_sealed key protocol buf <->
  exists plain p, dgram_open key protocol buf = Some plain /\ read_packet (dgram_type buf) plain = Ok p.
Proof.
  intros key protocol buf. unfold opens_sealed. split.
  - intros (Hty & s & p & H). apply decode_None_Ok in H; [|exact Hty].
    destruct H as (plain & E & R & _). exists plain, p. split; assumption.
  - intros (plain & p & E & R).
    assert (Hty : dgram_type buf <> 0) by (apply dgram_open_type in E; lia).
    split; [exact Hty|]. exists (dgram_seq buf), p. apply decode_None_Ok; [exact Hty|].
    exists plain. repeat split; assumption.
Qed.

Lemma opens_sealed_authentic : forall key protocol buf,
  opens_sealed key protocol buf -> aead_authentic key protocol buf.
Proof.
  intros key protocol buf H. apply opens_sealed_iff in H. destruct H as (plain & p & E & _).
  exists plain. exact E.
Qed.

(* an AEAD-authentic datagram fails to be opens_sealed only when Packet::read rejects the plaintext *)
Lemma authentic_not_sealed : forall key protocol buf plain,
  dgram_open key protocol buf = Some plain -> ~ opens_sealed key protocol buf ->
  exists e, read_packet (dgram_type buf) plain = Err e.
Proof.
  intros key protocol buf plain E Hn.
  destruct (read_packet (dgram_type buf) plain) as [p|e|s] eqn:R.
  - exfalso. apply Hn. apply opens_sealed_iff. exists plain, p. split; assumption.
  - exists e. reflexivity.
  - exfalso. exact (read_packet_never_panics _ _ _ R).
Qed.

(* ================================================================== *)
(* 2. the replay window                                                *)
(* ================================================================== *)

Lemma rp_wf_new : rp_wf replay_new.
Proof. unfold rp_wf, replay_new. cbn [rp_slots]. apply repeatN_length. Qed.

Lemma rp_wf_advance : forall r s, rp_wf r -> rp_wf (advance_sequence r s).
Proof. intros r s H. unfold rp_wf, advance_sequence in *. cbn [rp_slots]. rewrite upd_length. exact H. Qed.

(* the one-step fact: what was just accepted is afterwards known (U64MAX excepted, see below) *)
Lemma advance_then_received : forall r s,
  rp_wf r -> s <> U64MAX -> already_received (advance_sequence r s) s = true.
Proof.
  intros r s Hwf Hs. unfold already_received, advance_sequence. cbn [rp_most_recent rp_slots].
  match goal with |- (if ?b then _ else _) = _ => destruct b end; [reflexivity|].
  rewrite nth_upd_same.
  - destruct (s =? U64MAX) eqn:E; [lia|]. lia.
  - unfold rp_wf in Hwf. rewrite Hwf.
    assert (s mod NC_REPLAY_SIZE < NC_REPLAY_SIZE) by (apply N.mod_lt; discriminate). lia.
Qed.

(* the EMPTY marker of the window is a legal sequence number: once accepted it is not remembered *)
Example replay_u64max_forgotten :
  already_received replay_new U64MAX = false /\
  already_received (advance_sequence replay_new U64MAX) U64MAX = false.
Proof. split; vm_compute; reflexivity. Qed.

(* ================================================================== *)
(* 3. the client: invariant                                            *)
(* ================================================================== *)

(* The index bound is stated for live clients only: the failover of update_internal_state stores
   index + 1 = 32 in the (dead) client it leaves behind when the 32 slots are exhausted.  The
   challenge data always has NC_CHALLENGE_BYTES bytes (needed for "the response always encodes"). *)
Definition client_inv (c : nclient) : Prop :=
  cl_connect_start c <= cl_now c /\
  cl_last_recv c <= cl_now c /\
  (match cl_last_send c with Some t => t <= cl_now c | None => True end) /\
  rp_wf (cl_replay c) /\
  (is_disconnected c = true \/ cl_addr_index c < 32) /\
  length (ct_addrs (cl_token c)) = 32%nat /\
  len (cl_chal_data c) = NC_CHALLENGE_BYTES.

(* the literal invariant of the task statement holds for every live client *)
Lemma client_inv_live : forall c, client_inv c -> is_disconnected c = false ->
  cl_connect_start c <= cl_now c /\ cl_last_recv c <= cl_now c /\
  (match cl_last_send c with Some t => t <= cl_now c | None => True end) /\
  rp_wf (cl_replay c) /\ cl_addr_index c < 32 /\ length (ct_addrs (cl_token c)) = 32%nat.
Proof.
  intros c (H1 & H2 & H3 & H4 & H5 & H6 & _) Hd. repeat split; try assumption.
  destruct H5 as [H5|H5]; [congruence | exact H5].
Qed.

(* ---- nclient_new ---- *)
Theorem client_inv_init : forall now t c,
  length (ct_addrs t) = 32%nat -> nclient_new now t = Ok c -> client_inv c.
Proof.
  intros now t c Hlen H. unfold nclient_new in H.
  destruct (ct_addrs t) as [|[a|] l] eqn:E; try discriminate.
  injection H as <-. unfold client_inv, is_disconnected.
  cbn [cl_connect_start cl_now cl_last_recv cl_last_send cl_replay cl_state cl_addr_index cl_token cl_chal_data].
  refine (conj _ (conj _ (conj _ (conj _ (conj _ (conj _ _)))))).
  - lia.
  - lia.
  - exact I.
  - apply rp_wf_new.
  - right. lia.
  - rewrite E. exact Hlen.
  - apply len_zeros.
Qed.

Theorem nclient_new_panics_iff : forall now t,
  (exists s, nclient_new now t = Panic s) <-> ~ exists a, nth_opt (ct_addrs t) 0 = Some (Some a).
Proof.
  intros now t. unfold nclient_new.
  destruct (ct_addrs t) as [|[a|] l]; cbn [nth_opt]; split.
  - intros _ (a & H). discriminate.
  - intros _. eexists; reflexivity.
  - intros (s & H). discriminate.
  - intros H. exfalso. apply H. exists a. reflexivity.
  - intros _ (a & H). discriminate.
  - intros _. eexists; reflexivity.
Qed.

(* with the 32 slots of a real token: exactly when the first slot is empty; never an Err *)
Corollary nclient_new_panics_iff_32 : forall now t,
  length (ct_addrs t) = 32%nat ->
  (nclient_new now t = Panic SITE_N_NO_SERVER_ADDR <-> nth_opt (ct_addrs t) 0 = Some None).
Proof.
  intros now t Hlen. unfold nclient_new.
  destruct (ct_addrs t) as [|[a|] l]; cbn [nth_opt length] in *; split; intro H; try discriminate; reflexivity.
Qed.

Lemma nclient_new_ok_or_panic : forall now t,
  (exists c, nclient_new now t = Ok c) \/ nclient_new now t = Panic SITE_N_NO_SERVER_ADDR.
Proof.
  intros now t. unfold nclient_new.
  destruct (ct_addrs t) as [|[a|] l]; [right; reflexivity | left; eexists; reflexivity | right; reflexivity].
Qed.

(* ================================================================== *)
(* 4. process_packet                                                   *)
(* ================================================================== *)

(* the state machine applied to a decoded packet *)
Definition client_handle (c1 : nclient) (pkt : npacket) : nclient * option (list N) :=
  match pkt, cl_state c1 with
  | PDenied, (CSendingRequest | CSendingResponse) =>
      (cl_set c1 (CDisconnected CRDenied) (cl_last_send c1) (cl_now c1) (cl_seq c1), None)
  | PChallenge tseq tdata, CSendingRequest =>
      ({| cl_state := CSendingResponse; cl_id := cl_id c1; cl_connect_start := cl_connect_start c1; cl_last_send := None;
          cl_last_recv := cl_now c1; cl_now := cl_now c1; cl_seq := cl_seq c1; cl_server_addr := cl_server_addr c1;
          cl_addr_index := cl_addr_index c1; cl_token := cl_token c1; cl_chal_seq := tseq; cl_chal_data := tdata;
          cl_max_clients := cl_max_clients c1; cl_client_index := cl_client_index c1; cl_replay := cl_replay c1 |}, None)
  | PKeepAlive _ _, CConnected =>
      (cl_set c1 CConnected (cl_last_send c1) (cl_now c1) (cl_seq c1), None)
  | PKeepAlive ci mc, CSendingResponse =>
      ({| cl_state := CConnected; cl_id := cl_id c1; cl_connect_start := cl_connect_start c1; cl_last_send := cl_last_send c1;
          cl_last_recv := cl_now c1; cl_now := cl_now c1; cl_seq := cl_seq c1; cl_server_addr := cl_server_addr c1;
          cl_addr_index := cl_addr_index c1; cl_token := cl_token c1; cl_chal_seq := cl_chal_seq c1; cl_chal_data := cl_chal_data c1;
          cl_max_clients := mc; cl_client_index := ci; cl_replay := cl_replay c1 |}, None)
  | PPayload p, CConnected =>
      (cl_set c1 CConnected (cl_last_send c1) (cl_now c1) (cl_seq c1), Some p)
  | PDisconnect, CConnected =>
      (cl_set c1 (CDisconnected CRByServer) (cl_last_send c1) (cl_now c1) (cl_seq c1), None)
  | _, _ => (c1, None)
  end.

Lemma process_packet_unfold : forall c buf,
  nclient_process_packet c buf =
  let d := decode buf (protocol_of c) (Some (s2c_key c)) (Some (cl_replay c)) in
  let c1 := cl_with_replay c (match fst d with Some x => x | None => cl_replay c end) in
  match snd d with
  | Ok (_, pkt) => client_handle c1 pkt
  | _ => (c1, None)
  end.
Proof.
  intros c buf. unfold nclient_process_packet.
  destruct (decode buf (protocol_of c) (Some (s2c_key c)) (Some (cl_replay c))) as [rp r].
  cbn [fst snd]. cbv zeta. destruct r as [[s pkt]|e|s]; reflexivity.
Qed.

Lemma cl_with_replay_same : forall c, cl_with_replay c (cl_replay c) = c.
Proof. intros []. reflexivity. Qed.

(* request-typed bytes *)
Lemma process_type0 : forall c buf, dgram_type buf = 0 -> nclient_process_packet c buf = (c, None).
Proof.
  intros c buf H. rewrite process_packet_unfold.
  destruct (decode_type0 buf (protocol_of c) (Some (s2c_key c)) (Some (cl_replay c)) H) as (r & Hd & Hr).
  rewrite Hd. cbn [fst snd]. cbv zeta. rewrite cl_with_replay_same.
  destruct r as [[s pkt]|e|s]; try reflexivity.
  destruct (Hr s pkt eq_refl) as [_ Hid].
  destruct pkt; cbn [packet_id] in Hid; try discriminate. reflexivity.
Qed.

(* sealed, but the header is malformed or the tag does not verify *)
Lemma process_closed : forall c buf,
  dgram_type buf <> 0 -> dgram_open (s2c_key c) (protocol_of c) buf = None ->
  nclient_process_packet c buf = (c, None).
Proof.
  intros c buf Hty H. rewrite process_packet_unfold.
  destruct (decode_closed buf (protocol_of c) (s2c_key c) (Some (cl_replay c)) Hty H) as [e He].
  rewrite He. cbn [fst snd]. cbv zeta. rewrite cl_with_replay_same. reflexivity.
Qed.

(* sealed and the tag verifies *)
Lemma process_open : forall c buf plain,
  dgram_open (s2c_key c) (protocol_of c) buf = Some plain ->
  nclient_process_packet c buf =
  if applies_replay (dgram_type buf) && already_received (cl_replay c) (dgram_seq buf) then (c, None)
  else
    let c1 := cl_with_replay c (if applies_replay (dgram_type buf)
                                then advance_sequence (cl_replay c) (dgram_seq buf) else cl_replay c) in
    match read_packet (dgram_type buf) plain with
    | Ok pkt => client_handle c1 pkt
    | _ => (c1, None)
    end.
Proof.
  intros c buf plain H. rewrite process_packet_unfold.
  rewrite (decode_open _ _ _ (Some (cl_replay c)) _ H).
  destruct (applies_replay (dgram_type buf) && already_received (cl_replay c) (dgram_seq buf)).
  - cbn [fst snd]. cbv zeta. rewrite cl_with_replay_same. reflexivity.
  - cbn [fst snd]. cbv zeta.
    destruct (read_packet (dgram_type buf) plain) as [pkt|e|s]; reflexivity.
Qed.

(* ---- what the state machine can and cannot touch ---- *)
Lemma client_handle_frame : forall c1 pkt,
  let c' := fst (client_handle c1 pkt) in
  cl_seq c' = cl_seq c1 /\ cl_token c' = cl_token c1 /\ cl_now c' = cl_now c1 /\
  cl_connect_start c' = cl_connect_start c1 /\ cl_addr_index c' = cl_addr_index c1 /\
  cl_replay c' = cl_replay c1 /\ cl_server_addr c' = cl_server_addr c1 /\ cl_id c' = cl_id c1 /\
  (cl_last_recv c' = cl_last_recv c1 \/ cl_last_recv c' = cl_now c1) /\
  (cl_last_send c' = cl_last_send c1 \/ cl_last_send c' = None) /\
  (cl_chal_data c' = cl_chal_data c1 \/ exists ts, pkt = PChallenge ts (cl_chal_data c')) /\
  (is_disconnected c1 = true -> c' = c1).
Proof.
  intros c1 pkt. unfold client_handle, is_disconnected.
  destruct pkt; destruct (cl_state c1) eqn:S; cbn [fst cl_set cl_seq cl_token cl_now cl_connect_start cl_addr_index
    cl_replay cl_server_addr cl_id cl_last_recv cl_last_send cl_chal_data cl_state];
    repeat split; try (left; reflexivity); try (right; reflexivity); try (right; eexists; reflexivity);
    try discriminate; try reflexivity.
Qed.

Lemma client_handle_output : forall c1 pkt c' p,
  client_handle c1 pkt = (c', Some p) ->
  pkt = PPayload p /\ cl_state c1 = CConnected /\
  c' = cl_set c1 CConnected (cl_last_send c1) (cl_now c1) (cl_seq c1).
Proof.
  intros c1 pkt c' p H. unfold client_handle in H.
  destruct pkt; destruct (cl_state c1) eqn:S; try discriminate.
  injection H as <- <-. repeat split.
Qed.

Lemma client_handle_inv : forall c1 pkt,
  client_inv c1 -> (forall ts td, pkt = PChallenge ts td -> len td = NC_CHALLENGE_BYTES) ->
  client_inv (fst (client_handle c1 pkt)).
Proof.
  intros c1 pkt (H1 & H2 & H3 & H4 & H5 & H6 & H7) Hch.
  unfold client_inv, client_handle, is_disconnected in *.
  destruct pkt; destruct (cl_state c1) eqn:S;
    cbn [fst cl_set cl_seq cl_token cl_now cl_connect_start cl_addr_index
         cl_replay cl_server_addr cl_id cl_last_recv cl_last_send cl_chal_data cl_state];
    rewrite ?S;
    refine (conj _ (conj _ (conj _ (conj _ (conj _ (conj _ _)))))); try assumption; try lia; try exact I;
    try (left; reflexivity).
  all: try (destruct H5 as [H5|H5]; [discriminate H5 | right; exact H5]).
  all: try (eapply Hch; reflexivity).
Qed.

Lemma applies_replay_cases : forall ty, applies_replay ty = true <-> ty = 4 \/ ty = 5 \/ ty = 6.
Proof. intro ty. unfold applies_replay. lia. Qed.

(* every call is a no-op, or an AEAD-authentic, non-duplicate datagram was handled *)
Lemma process_cases : forall c buf,
  nclient_process_packet c buf = (c, None) \/
  exists plain,
    dgram_open (s2c_key c) (protocol_of c) buf = Some plain /\
    applies_replay (dgram_type buf) && already_received (cl_replay c) (dgram_seq buf) = false /\
    nclient_process_packet c buf =
    let c1 := cl_with_replay c (if applies_replay (dgram_type buf)
                                then advance_sequence (cl_replay c) (dgram_seq buf) else cl_replay c) in
    match read_packet (dgram_type buf) plain with
    | Ok pkt => client_handle c1 pkt
    | _ => (c1, None)
    end.
Proof.
  intros c buf.
  destruct (N.eq_dec (dgram_type buf) 0) as [H0|H0]; [left; apply process_type0; exact H0|].
  destruct (dgram_open (s2c_key c) (protocol_of c) buf) as [plain|] eqn:E;
    [|left; apply process_closed; assumption].
  rewrite (process_open _ _ _ E).
  destruct (applies_replay (dgram_type buf) && already_received (cl_replay c) (dgram_seq buf)) eqn:D;
    [left; reflexivity|].
  right. exists plain. repeat split.
Qed.

Lemma client_inv_with_replay : forall c rp, client_inv c -> rp_wf rp -> client_inv (cl_with_replay c rp).
Proof.
  intros c rp (H1 & H2 & H3 & H4 & H5 & H6 & H7) Hrp. unfold client_inv, is_disconnected in *.
  cbn [cl_with_replay cl_seq cl_token cl_now cl_connect_start cl_addr_index
       cl_replay cl_server_addr cl_id cl_last_recv cl_last_send cl_chal_data cl_state].
  refine (conj _ (conj _ (conj _ (conj _ (conj _ (conj _ _)))))); assumption.
Qed.

(* 1: the invariant is kept, for ANY datagram bytes *)
Theorem client_inv_step_process : forall c buf,
  client_inv c -> client_inv (fst (nclient_process_packet c buf)).
Proof.
  intros c buf Hinv.
  destruct (process_cases c buf) as [H|(plain & E & D & H)]; rewrite H; [exact Hinv|].
  cbv zeta.
  assert (Hc1 : client_inv (cl_with_replay c (if applies_replay (dgram_type buf)
                  then advance_sequence (cl_replay c) (dgram_seq buf) else cl_replay c))).
  { apply client_inv_with_replay; [exact Hinv|].
    destruct Hinv as (_ & _ & _ & Hwf & _).
    destruct (applies_replay (dgram_type buf)); [apply rp_wf_advance|]; exact Hwf. }
  destruct (read_packet (dgram_type buf) plain) as [pkt|e|s] eqn:R; try exact Hc1.
  apply client_handle_inv; [exact Hc1|].
  intros ts td ->. eapply read_packet_challenge_len. exact R.
Qed.

(* 3a: a sealed datagram that does not authenticate at the AEAD level changes nothing *)
Theorem client_inauthentic_is_noop : forall c buf,
  ~ aead_authentic (s2c_key c) (protocol_of c) buf -> dgram_type buf <> 0 ->
  nclient_process_packet c buf = (c, None).
Proof.
  intros c buf Hn Hty. apply process_closed; [exact Hty|].
  destruct (dgram_open (s2c_key c) (protocol_of c) buf) as [plain|] eqn:E; [|reflexivity].
  exfalso. apply Hn. exists plain. exact E.
Qed.

(* 3a': with the hypothesis of the task statement (~ opens_sealed: decode does not return Ok) the
   statement "process_packet c buf = (c, None)" is FALSE (see client_unsealed_counterexample): decode
   advances the replay window as soon as the tag verifies, BEFORE Packet::read looks at the plaintext.
   The strongest true variant: nothing changes, except that a keep-alive typed datagram sealed under
   the right key with a plaintext shorter than 8 bytes still consumes its sequence number. *)
Theorem client_unsealed_is_noop_or_window : forall c buf,
  ~ opens_sealed (s2c_key c) (protocol_of c) buf -> dgram_type buf <> 0 ->
  nclient_process_packet c buf = (c, None) \/
  (dgram_type buf = 4 /\
   (exists plain, dgram_open (s2c_key c) (protocol_of c) buf = Some plain /\ len plain < 8) /\
   already_received (cl_replay c) (dgram_seq buf) = false /\
   nclient_process_packet c buf =
     (cl_with_replay c (advance_sequence (cl_replay c) (dgram_seq buf)), None)).
Proof.
  intros c buf Hn Hty.
  destruct (process_cases c buf) as [H|(plain & E & D & H)]; [left; exact H|].
  destruct (authentic_not_sealed _ _ _ _ E Hn) as [e R].
  rewrite R in H. cbv zeta in H.
  destruct (applies_replay (dgram_type buf)) eqn:A.
  - right. cbn [andb] in D.
    apply applies_replay_cases in A. destruct A as [A|[A|A]]; rewrite A in R.
    + unfold read_packet in R. destruct (len plain <? 8) eqn:L; [|discriminate].
      repeat split; try assumption. exists plain. split; [exact E | lia].
    + discriminate R.
    + discriminate R.
  - left. rewrite cl_with_replay_same in H. exact H.
Qed.

(* the concrete datagram: type 4, one sequence byte (1), an empty plaintext sealed under the
   server-to-client key.  It is not opens_sealed, and the window moves. *)
Theorem client_unsealed_counterexample : forall c,
  rp_wf (cl_replay c) -> already_received (cl_replay c) 1 = false ->
  let buf := 20 :: 1 :: aead_seal (s2c_key c) (nonce_of 1) (packet_aad 20 (protocol_of c)) [] in
  ~ opens_sealed (s2c_key c) (protocol_of c) buf /\ dgram_type buf <> 0 /\
  nclient_process_packet c buf = (cl_with_replay c (advance_sequence (cl_replay c) 1), None) /\
  already_received (cl_replay (fst (nclient_process_packet c buf))) 1 = true /\
  nclient_process_packet c buf <> (c, None).
Proof.
  intros c Hwf Hfresh buf.
  assert (Hty : dgram_type buf = 4) by reflexivity.
  assert (Hseq : dgram_seq buf = 1) by reflexivity.
  assert (E : dgram_open (s2c_key c) (protocol_of c) buf = Some []).
  { unfold dgram_open.
    assert (Hh : hdr_ok buf = true).
    { unfold hdr_ok. rewrite Hty. unfold buf. cbn [dgram_prefix dgram_body tl].
      change (20 / 16) with 1. unfold dropN. change (N.to_nat 1) with 1%nat. cbn [skipn].
      rewrite !len_cons, aead_seal_len. change (len (@nil N)) with 0. reflexivity. }
    rewrite Hh, Hseq. unfold buf. cbn [dgram_prefix dgram_body].
    change (20 / 16) with 1. unfold dropN. change (N.to_nat 1) with 1%nat. cbn [skipn].
    apply aead_open_seal. }
  assert (Hns : ~ opens_sealed (s2c_key c) (protocol_of c) buf).
  { intro Ho. apply opens_sealed_iff in Ho. destruct Ho as (plain & p & E' & R).
    rewrite E in E'. injection E' as <-. rewrite Hty in R. discriminate R. }
  assert (Hp : nclient_process_packet c buf = (cl_with_replay c (advance_sequence (cl_replay c) 1), None)).
  { rewrite (process_open _ _ _ E), Hty, Hseq, Hfresh. reflexivity. }
  split; [exact Hns|]. split; [rewrite Hty; discriminate|]. split; [exact Hp|].
  assert (Hr : already_received (cl_replay (fst (nclient_process_packet c buf))) 1 = true).
  { rewrite Hp. cbn [fst cl_with_replay cl_replay]. apply advance_then_received; [exact Hwf | discriminate]. }
  split; [exact Hr|].
  intro Heq. rewrite Heq in Hr. cbn [fst] in Hr. congruence.
Qed.

(* 3b: request-typed bytes are returned by decode without any authentication, and match no arm *)
Theorem client_ignores_requests : forall c buf c' o,
  dgram_type buf = 0 -> nclient_process_packet c buf = (c', o) -> c' = c /\ o = None.
Proof.
  intros c buf c' o H0 H. rewrite (process_type0 _ _ H0) in H. injection H as <- <-. split; reflexivity.
Qed.

(* 3c: a replay-protected kind whose clear-text sequence number is already in the window:
   nothing changes, whether or not the datagram is authentic *)
Theorem client_replay_is_noop : forall c buf,
  applies_replay (dgram_type buf) = true ->
  already_received (cl_replay c) (dgram_seq buf) = true ->
  nclient_process_packet c buf = (c, None).
Proof.
  intros c buf A R.
  destruct (process_cases c buf) as [H|(plain & E & D & H)]; [exact H|].
  rewrite A, R in D. discriminate D.
Qed.

Corollary client_replay_is_noop_sealed : forall c buf s p,
  snd (decode buf (protocol_of c) (Some (s2c_key c)) None) = Ok (s, p) ->
  applies_replay (packet_id p) = true -> already_received (cl_replay c) s = true ->
  nclient_process_packet c buf = (c, None).
Proof.
  intros c buf s p H A R.
  assert (Hty : dgram_type buf <> 0).
  { intro H0. destruct (decode_type0 buf (protocol_of c) (Some (s2c_key c)) None H0) as (r & Hd & Hr).
    rewrite Hd in H. cbn [snd] in H. destruct (Hr _ _ H) as [_ Hid]. rewrite Hid in A. discriminate A. }
  apply decode_None_Ok in H; [|exact Hty]. destruct H as (plain & E & Rd & ->).
  assert (Hid : packet_id p = dgram_type buf).
  { eapply read_packet_id; [|exact Rd]. apply dgram_open_type in E. lia. }
  apply client_replay_is_noop; [rewrite <- Hid; exact A | exact R].
Qed.

(* an Ok of decode (no window) pins down the AEAD level *)
Lemma decode_None_kind : forall buf protocol key s p,
  snd (decode buf protocol (Some key) None) = Ok (s, p) -> packet_id p <> 0 ->
  exists plain, dgram_open key protocol buf = Some plain /\
                read_packet (dgram_type buf) plain = Ok p /\ s = dgram_seq buf /\
                dgram_type buf = packet_id p.
Proof.
  intros buf protocol key s p H Hid.
  assert (Hty : dgram_type buf <> 0).
  { intro H0. destruct (decode_type0 buf protocol (Some key) None H0) as (r & Hd & Hr).
    rewrite Hd in H. cbn [snd] in H. destruct (Hr _ _ H) as [_ Hid']. contradiction. }
  apply decode_None_Ok in H; [|exact Hty]. destruct H as (plain & E & Rd & ->).
  exists plain. repeat split; try assumption.
  symmetry. eapply read_packet_id; [|exact Rd]. apply dgram_open_type in E. lia.
Qed.

(* 4: payloads surface only when connected, authentic and fresh; afterwards the window knows them *)
Theorem client_payload_only_connected : forall c buf c' p,
  nclient_process_packet c buf = (c', Some p) ->
  cl_state c = CConnected /\
  opens_sealed (s2c_key c) (protocol_of c) buf /\
  dgram_type buf = 5 /\
  snd (decode buf (protocol_of c) (Some (s2c_key c)) None) = Ok (dgram_seq buf, PPayload p) /\
  already_received (cl_replay c) (dgram_seq buf) = false /\
  cl_replay c' = advance_sequence (cl_replay c) (dgram_seq buf) /\
  cl_state c' = CConnected /\
  (rp_wf (cl_replay c) -> dgram_seq buf <> U64MAX ->
   already_received (cl_replay c') (dgram_seq buf) = true).
Proof.
  intros c buf c' p H.
  destruct (process_cases c buf) as [H'|(plain & E & D & H')]; rewrite H' in H; [discriminate|].
  cbv zeta in H.
  destruct (read_packet (dgram_type buf) plain) as [pkt|e|s] eqn:R; try discriminate.
  apply client_handle_output in H. destruct H as (-> & Hst & ->).
  cbn [cl_with_replay cl_state] in Hst.
  assert (Hty : dgram_type buf = 5).
  { pose proof (dgram_open_type _ _ _ _ E) as Ht.
    assert (Hle : dgram_type buf <= 6) by lia.
    pose proof (read_packet_id _ _ _ Hle R) as Hid. cbn [packet_id] in Hid. symmetry. exact Hid. }
  assert (Hos : opens_sealed (s2c_key c) (protocol_of c) buf).
  { apply opens_sealed_iff. exists plain, (PPayload p). split; assumption. }
  rewrite Hty in D. change (applies_replay 5) with true in D. cbn [andb] in D.
  rewrite Hty. change (applies_replay 5) with true. cbv iota.
  cbn [cl_set cl_with_replay cl_replay cl_state].
  refine (conj Hst (conj Hos (conj eq_refl (conj _ (conj D (conj eq_refl (conj eq_refl _))))))).
  - apply decode_None_Ok; [rewrite Hty; discriminate|]. exists plain.
    split; [exact E|]. split; [exact R | reflexivity].
  - intros Hwf Hs. apply advance_then_received; assumption.
Qed.

(* process_packet never touches the sequence number, the token (hence the keys), the clock,
   the server address; a disconnected client only ever moves its window *)
Theorem client_process_frame : forall c buf,
  let c' := fst (nclient_process_packet c buf) in
  cl_seq c' = cl_seq c /\ cl_token c' = cl_token c /\ cl_now c' = cl_now c /\
  cl_connect_start c' = cl_connect_start c /\ cl_addr_index c' = cl_addr_index c /\
  cl_server_addr c' = cl_server_addr c /\ cl_id c' = cl_id c /\
  (is_disconnected c = true -> cl_state c' = cl_state c).
Proof.
  intros c buf c'. unfold c'.
  destruct (process_cases c buf) as [H|(plain & E & D & H)]; rewrite H; [repeat split|].
  cbv zeta. set (c1 := cl_with_replay c _).
  assert (F : cl_seq c1 = cl_seq c /\ cl_token c1 = cl_token c /\ cl_now c1 = cl_now c /\
              cl_connect_start c1 = cl_connect_start c /\ cl_addr_index c1 = cl_addr_index c /\
              cl_server_addr c1 = cl_server_addr c /\ cl_id c1 = cl_id c /\ cl_state c1 = cl_state c)
    by (repeat split).
  destruct F as (F1 & F2 & F3 & F4 & F5 & F6 & F7 & F8).
  destruct (read_packet (dgram_type buf) plain) as [pkt|e|s].
  - pose proof (client_handle_frame c1 pkt) as G. cbv zeta in G.
    destruct G as (G1 & G2 & G3 & G4 & G5 & _ & G7 & G8 & _ & _ & _ & G12).
    repeat split; try congruence.
    intro Hd. rewrite G12; [exact F8|]. unfold is_disconnected in *. rewrite F8. exact Hd.
  - cbn [fst]. repeat split; assumption.
  - cbn [fst]. repeat split; assumption.
Qed.

(* ---- 6(d): the handshake steps ---- *)

(* an authentic packet of a kind that is not replay protected (denied, challenge) *)
Lemma process_authentic_unprotected : forall c buf s p,
  snd (decode buf (protocol_of c) (Some (s2c_key c)) None) = Ok (s, p) ->
  packet_id p <> 0 -> applies_replay (packet_id p) = false ->
  nclient_process_packet c buf = client_handle c p.
Proof.
  intros c buf s p H Hid A.
  destruct (decode_None_kind _ _ _ _ _ H Hid) as (plain & E & R & -> & Hty).
  rewrite (process_open _ _ _ E). rewrite Hty in *. rewrite A, R. cbn [andb]. cbv zeta.
  rewrite cl_with_replay_same. reflexivity.
Qed.

(* an authentic, fresh packet of a replay-protected kind (keep-alive, payload, disconnect) *)
Lemma process_authentic_protected : forall c buf s p,
  snd (decode buf (protocol_of c) (Some (s2c_key c)) None) = Ok (s, p) ->
  applies_replay (packet_id p) = true -> already_received (cl_replay c) s = false ->
  nclient_process_packet c buf = client_handle (cl_with_replay c (advance_sequence (cl_replay c) s)) p.
Proof.
  intros c buf s p H A Fr.
  assert (Hid : packet_id p <> 0) by (intro Hz; rewrite Hz in A; discriminate A).
  destruct (decode_None_kind _ _ _ _ _ H Hid) as (plain & E & R & -> & Hty).
  rewrite (process_open _ _ _ E). rewrite Hty in *. rewrite A, R, Fr. reflexivity.
Qed.

Theorem client_accepts_challenge : forall c buf s ts td,
  cl_state c = CSendingRequest ->
  snd (decode buf (protocol_of c) (Some (s2c_key c)) None) = Ok (s, PChallenge ts td) ->
  exists c', nclient_process_packet c buf = (c', None) /\
    cl_state c' = CSendingResponse /\ cl_chal_seq c' = ts /\ cl_chal_data c' = td /\
    cl_last_send c' = None /\ cl_last_recv c' = cl_now c /\
    cl_now c' = cl_now c /\ cl_seq c' = cl_seq c /\ cl_token c' = cl_token c /\
    cl_server_addr c' = cl_server_addr c /\ cl_addr_index c' = cl_addr_index c /\
    cl_connect_start c' = cl_connect_start c /\ cl_replay c' = cl_replay c.
Proof.
  intros c buf s ts td Hst H.
  rewrite (process_authentic_unprotected _ _ _ _ H); [|discriminate|reflexivity].
  unfold client_handle. rewrite Hst. eexists. split; [reflexivity|].
  cbn [cl_state cl_chal_seq cl_chal_data cl_last_send cl_last_recv cl_now cl_seq cl_token cl_server_addr
       cl_addr_index cl_connect_start cl_replay].
  repeat split.
Qed.

Theorem client_accepts_keepalive : forall c buf s ci mc,
  cl_state c = CSendingResponse ->
  snd (decode buf (protocol_of c) (Some (s2c_key c)) None) = Ok (s, PKeepAlive ci mc) ->
  already_received (cl_replay c) s = false ->
  exists c', nclient_process_packet c buf = (c', None) /\
    cl_state c' = CConnected /\ cl_client_index c' = ci /\ cl_max_clients c' = mc /\
    cl_last_recv c' = cl_now c /\ cl_last_send c' = cl_last_send c /\
    cl_now c' = cl_now c /\ cl_seq c' = cl_seq c /\ cl_token c' = cl_token c /\
    cl_server_addr c' = cl_server_addr c /\ cl_replay c' = advance_sequence (cl_replay c) s.
Proof.
  intros c buf s ci mc Hst H Fr.
  rewrite (process_authentic_protected _ _ _ _ H); [|reflexivity|exact Fr].
  unfold client_handle. cbn [cl_with_replay cl_state]. rewrite Hst. eexists. split; [reflexivity|].
  cbn [cl_state cl_client_index cl_max_clients cl_last_send cl_last_recv cl_now cl_seq cl_token cl_server_addr
       cl_replay].
  repeat split.
Qed.

Theorem client_denied : forall c buf s,
  is_connecting c = true ->
  snd (decode buf (protocol_of c) (Some (s2c_key c)) None) = Ok (s, PDenied) ->
  exists c', nclient_process_packet c buf = (c', None) /\
    cl_state c' = CDisconnected CRDenied /\ cl_last_recv c' = cl_now c /\
    cl_seq c' = cl_seq c /\ cl_token c' = cl_token c /\ cl_replay c' = cl_replay c.
Proof.
  intros c buf s Hst H.
  rewrite (process_authentic_unprotected _ _ _ _ H); [|discriminate|reflexivity].
  unfold client_handle, is_connecting in *.
  destruct (cl_state c); try discriminate; (eexists; split; [reflexivity|]);
    cbn [cl_set cl_state cl_last_recv cl_seq cl_token cl_replay]; repeat split.
Qed.

Theorem client_server_disconnect : forall c buf s,
  cl_state c = CConnected ->
  snd (decode buf (protocol_of c) (Some (s2c_key c)) None) = Ok (s, PDisconnect) ->
  already_received (cl_replay c) s = false ->
  exists c', nclient_process_packet c buf = (c', None) /\
    cl_state c' = CDisconnected CRByServer /\ cl_last_recv c' = cl_now c /\
    cl_seq c' = cl_seq c /\ cl_token c' = cl_token c /\
    cl_replay c' = advance_sequence (cl_replay c) s.
Proof.
  intros c buf s Hst H Fr.
  rewrite (process_authentic_protected _ _ _ _ H); [|reflexivity|exact Fr].
  unfold client_handle. cbn [cl_with_replay cl_state]. rewrite Hst. eexists. split; [reflexivity|].
  cbn [cl_set cl_state cl_last_recv cl_seq cl_token cl_replay cl_with_replay]. repeat split.
Qed.

(* completeness of 4: an authentic fresh payload does surface when connected *)
Theorem client_payload_surfaces : forall c buf s p,
  cl_state c = CConnected ->
  snd (decode buf (protocol_of c) (Some (s2c_key c)) None) = Ok (s, PPayload p) ->
  already_received (cl_replay c) s = false ->
  exists c', nclient_process_packet c buf = (c', Some p) /\
    cl_state c' = CConnected /\ cl_last_recv c' = cl_now c /\
    cl_replay c' = advance_sequence (cl_replay c) s.
Proof.
  intros c buf s p Hst H Fr.
  rewrite (process_authentic_protected _ _ _ _ H); [|reflexivity|exact Fr].
  unfold client_handle. cbn [cl_with_replay cl_state]. rewrite Hst. eexists. split; [reflexivity|].
  cbn [cl_set cl_state cl_last_recv cl_replay cl_with_replay]. repeat split.
Qed.

(* a connected client that hears a keep-alive only refreshes last_recv *)
Theorem client_connected_keepalive : forall c buf s ci mc,
  cl_state c = CConnected ->
  snd (decode buf (protocol_of c) (Some (s2c_key c)) None) = Ok (s, PKeepAlive ci mc) ->
  already_received (cl_replay c) s = false ->
  exists c', nclient_process_packet c buf = (c', None) /\
    cl_state c' = CConnected /\ cl_last_recv c' = cl_now c /\
    cl_client_index c' = cl_client_index c /\ cl_max_clients c' = cl_max_clients c.
Proof.
  intros c buf s ci mc Hst H Fr.
  rewrite (process_authentic_protected _ _ _ _ H); [|reflexivity|exact Fr].
  unfold client_handle. cbn [cl_with_replay cl_state]. rewrite Hst. eexists. split; [reflexivity|].
  cbn [cl_set cl_state cl_last_recv cl_client_index cl_max_clients cl_with_replay]. repeat split.
Qed.

(* ================================================================== *)
(* 5. Packet::encode on the client's buffer                            *)
(* ================================================================== *)

(* the bytes of a sealed datagram *)
Definition sealed_dgram (p : npacket) (protocol s : N) (key : list N) : list N :=
  ([encode_prefix (packet_id p) s] ++ le_bytes (N.to_nat (sequence_bytes_required s)) s) ++
  aead_seal key (nonce_of s) (packet_aad (encode_prefix (packet_id p) s) protocol) (packet_body p).

Definition is_request (p : npacket) : bool := match p with PRequest _ _ _ _ _ => true | _ => false end.

Lemma encode_never_panics : forall cap p protocol crypto s, encode cap p protocol crypto <> Panic s.
Proof.
  intros cap p protocol crypto s. unfold encode.
  destruct p; try (destruct crypto as [[sq key]|]); cbv zeta;
    match goal with |- context [if ?b then _ else _] => destruct b | _ => idtac end; discriminate.
Qed.

Lemma len_head : forall prefix s, len ([prefix] ++ le_bytes (N.to_nat (sequence_bytes_required s)) s) <= 9.
Proof.
  intros prefix s. rewrite len_app, len_cons, len_nil, len_le_bytes, N2Nat.id.
  pose proof (seq_bytes_le s). lia.
Qed.

Lemma encode_sealed_ok : forall p protocol s key,
  is_request p = false -> len (packet_body p) <= 1375 ->
  encode CL_CAP p protocol (Some (s, key)) = Ok (sealed_dgram p protocol s key).
Proof.
  intros p protocol s key Hr Hb. pose proof (len_head (encode_prefix (packet_id p) s) s) as Hh.
  unfold CL_CAP, NC_MAX_PACKET_BYTES.
  destruct p; try discriminate Hr; unfold encode, sealed_dgram; cbv zeta;
    match goal with |- context [if ?b then _ else _] => destruct b eqn:E end;
    try reflexivity; exfalso; unfold NC_MAC_BYTES in E; lia.
Qed.

(* whatever encode returns Ok for a sealed kind is the sealed datagram *)
Lemma encode_sealed_inv : forall cap p protocol s key d,
  is_request p = false -> encode cap p protocol (Some (s, key)) = Ok d ->
  d = sealed_dgram p protocol s key.
Proof.
  intros cap p protocol s key d Hr H.
  destruct p; try discriminate Hr; unfold encode, sealed_dgram in *; cbv zeta in H;
    match type of H with context [if ?b then _ else _] => destruct b end;
    try discriminate; injection H as <-; reflexivity.
Qed.

Definition token_request (t : connect_token) : npacket :=
  PRequest NC_VERSION_INFO (ct_protocol t) (ct_expire t) (ct_xnonce t) (ct_private t).

(* the two public fields of the token that travel in the request have their wire sizes *)
Definition token_sizes_ok (t : connect_token) : Prop :=
  len (ct_xnonce t) = NC_XNONCE_BYTES /\ len (ct_private t) = NC_PRIVATE_BYTES.

Lemma token_wf_sizes : forall t, token_wf t -> token_sizes_ok t.
Proof. intros t H. unfold token_wf in H. unfold token_sizes_ok. tauto. Qed.

Lemma encode_prefix_request : encode_prefix 0 0 = 0.
Proof. reflexivity. Qed.

Lemma len_request_body : forall t, token_sizes_ok t -> len (packet_body (token_request t)) = 1077.
Proof.
  intros t [H1 H2]. unfold token_request. cbn [packet_body].
  rewrite !len_app, !len_le64, H1, H2. reflexivity.
Qed.

(* the request ignores the sequence number and the key: it is sent in the clear *)
Lemma encode_request_ok : forall t protocol crypto,
  token_sizes_ok t ->
  encode CL_CAP (token_request t) protocol crypto = Ok ([0] ++ packet_body (token_request t)).
Proof.
  intros t protocol crypto H. pose proof (len_request_body t H) as L.
  unfold token_request in *. unfold encode. cbv zeta. rewrite encode_prefix_request.
  destruct (CL_CAP <? len ([0] ++ packet_body (PRequest NC_VERSION_INFO (ct_protocol t) (ct_expire t) (ct_xnonce t) (ct_private t)))) eqn:E;
    [|reflexivity].
  exfalso. rewrite len_app, len_cons, len_nil, L in E. unfold CL_CAP, NC_MAX_PACKET_BYTES in E. lia.
Qed.

(* ================================================================== *)
(* 6. generate_payload and disconnect                                  *)
(* ================================================================== *)

Lemma generate_payload_ok : forall c p,
  is_connected c = true -> len p <= NC_MAX_PAYLOAD_BYTES ->
  nclient_generate_payload c p =
  (cl_set c (cl_state c) (Some (cl_now c)) (cl_last_recv c) (cl_seq c + 1),
   Ok (cl_server_addr c, sealed_dgram (PPayload p) (protocol_of c) (cl_seq c) (c2s_key c))).
Proof.
  intros c p Hc Hl. unfold nclient_generate_payload.
  destruct (NC_MAX_PAYLOAD_BYTES <? len p) eqn:E; [lia|]. rewrite Hc. cbn [negb].
  rewrite encode_sealed_ok; [reflexivity | reflexivity |].
  cbn [packet_body]. unfold NC_MAX_PAYLOAD_BYTES in Hl. lia.
Qed.

Lemma generate_payload_err : forall c p,
  is_connected c = false \/ NC_MAX_PAYLOAD_BYTES < len p ->
  exists e, nclient_generate_payload c p = (c, Err e).
Proof.
  intros c p H. unfold nclient_generate_payload.
  destruct (NC_MAX_PAYLOAD_BYTES <? len p) eqn:E; [eexists; reflexivity|].
  destruct H as [H|H]; [|lia]. rewrite H. eexists; reflexivity.
Qed.

(* disconnect always succeeds: the empty body always fits *)
Lemma disconnect_eq : forall c,
  nclient_disconnect c =
  (cl_set c (CDisconnected CRByClient) (cl_last_send c) (cl_last_recv c) (cl_seq c),
   Ok (cl_server_addr c, sealed_dgram PDisconnect (protocol_of c) (cl_seq c) (c2s_key c))).
Proof.
  intro c. unfold nclient_disconnect. cbv zeta.
  rewrite encode_sealed_ok; [reflexivity | reflexivity |]. cbn [packet_body]. rewrite len_nil. lia.
Qed.

Theorem client_inv_step_payload : forall c p, client_inv c -> client_inv (fst (nclient_generate_payload c p)).
Proof.
  intros c p Hinv.
  destruct (is_connected c) eqn:Hc; [destruct (N.leb_spec (len p) NC_MAX_PAYLOAD_BYTES) as [Hl|Hl]|].
  - rewrite (generate_payload_ok _ _ Hc Hl).
    destruct Hinv as (H1 & H2 & H3 & H4 & H5 & H6 & H7). unfold client_inv, is_disconnected in *.
    cbn [fst cl_set cl_seq cl_token cl_now cl_connect_start cl_addr_index
         cl_replay cl_server_addr cl_id cl_last_recv cl_last_send cl_chal_data cl_state].
    refine (conj _ (conj _ (conj _ (conj _ (conj _ (conj _ _)))))); try assumption. lia.
  - destruct (generate_payload_err c p (or_intror Hl)) as [e ->]. exact Hinv.
  - destruct (generate_payload_err c p (or_introl Hc)) as [e ->]. exact Hinv.
Qed.

Theorem client_inv_step_disconnect : forall c, client_inv c -> client_inv (fst (nclient_disconnect c)).
Proof.
  intros c (H1 & H2 & H3 & H4 & H5 & H6 & H7). rewrite disconnect_eq.
  unfold client_inv, is_disconnected in *.
  cbn [fst cl_set cl_seq cl_token cl_now cl_connect_start cl_addr_index
       cl_replay cl_server_addr cl_id cl_last_recv cl_last_send cl_chal_data cl_state].
  refine (conj _ (conj _ (conj _ (conj _ (conj _ (conj _ _)))))); try assumption. left. reflexivity.
Qed.

(* ================================================================== *)
(* 7. update: update_internal_state, generate_packet, characterised    *)
(* ================================================================== *)

(* the clock advanced by dt, nothing else *)
Definition cl_tick (c0 : nclient) (dt : N) : nclient :=
  {| cl_state := cl_state c0; cl_id := cl_id c0; cl_connect_start := cl_connect_start c0; cl_last_send := cl_last_send c0;
     cl_last_recv := cl_last_recv c0; cl_now := cl_now c0 + dt; cl_seq := cl_seq c0; cl_server_addr := cl_server_addr c0;
     cl_addr_index := cl_addr_index c0; cl_token := cl_token c0; cl_chal_seq := cl_chal_seq c0; cl_chal_data := cl_chal_data c0;
     cl_max_clients := cl_max_clients c0; cl_client_index := cl_client_index c0; cl_replay := cl_replay c0 |}.

(* the two side conditions of update_internal_state, evaluated at now + dt *)
Definition timed_out (c : nclient) (dt : N) : bool :=
  (0 <? ct_timeout (cl_token c))%Z &&
  (cl_last_recv c + Z.to_N (ct_timeout (cl_token c)) * NS_PER_SEC <? cl_now c + dt).

Definition token_expired (c : nclient) (dt : N) : bool :=
  ct_expire (cl_token c) - ct_create (cl_token c) <=? as_secs (cl_now c + dt - cl_connect_start c).

Definition timeout_reason (c : nclient) : creason :=
  match cl_state c with CSendingResponse => CRResponseTimedOut | _ => CRRequestTimedOut end.

(* no further server: the client left behind by the failover *)
Definition cl_dead (c : nclient) (dt : N) : nclient :=
  {| cl_state := CDisconnected (timeout_reason c); cl_id := cl_id c; cl_connect_start := cl_connect_start c;
     cl_last_send := cl_last_send c; cl_last_recv := cl_last_recv c; cl_now := cl_now c + dt; cl_seq := cl_seq c;
     cl_server_addr := cl_server_addr c; cl_addr_index := cl_addr_index c + 1; cl_token := cl_token c;
     cl_chal_seq := cl_chal_seq c; cl_chal_data := cl_chal_data c; cl_max_clients := cl_max_clients c;
     cl_client_index := cl_client_index c; cl_replay := cl_replay c |}.

(* the client restarted on the next server a *)
Definition cl_next (c : nclient) (dt : N) (a : addr) : nclient :=
  {| cl_state := CSendingRequest; cl_id := cl_id c; cl_connect_start := cl_now c + dt; cl_last_send := None;
     cl_last_recv := cl_now c + dt; cl_now := cl_now c + dt; cl_seq := cl_seq c; cl_server_addr := a;
     cl_addr_index := cl_addr_index c + 1;
     cl_token := cl_token c; cl_chal_seq := 0; cl_chal_data := cl_chal_data c; cl_max_clients := cl_max_clients c;
     cl_client_index := cl_client_index c; cl_replay := cl_replay c |}.

Definition failover (c : nclient) (dt : N) : nres (nclient * bool) :=
  if 32 <=? cl_addr_index c + 1 then Ok (cl_dead c dt, false) else
  match nth_opt (ct_addrs (cl_token c)) (N.to_nat (cl_addr_index c + 1)) with
  | Some (Some a) => Ok (cl_next c dt a, true)
  | Some None => Ok (cl_dead c dt, false)
  | None => Panic SITE_N_SLOT_INDEX
  end.

Lemma uis_disconnected : forall c dt r,
  cl_state c = CDisconnected r -> update_internal_state c dt = Ok (cl_tick c dt, false).
Proof.
  intros c dt r H. unfold update_internal_state, cl_tick. cbv zeta. cbn [cl_state]. rewrite H. reflexivity.
Qed.

Lemma uis_connected : forall c dt,
  cl_state c = CConnected ->
  update_internal_state c dt =
  if timed_out c dt
  then Ok (cl_set (cl_tick c dt) (CDisconnected CRTimedOut) (cl_last_send c) (cl_last_recv c) (cl_seq c), false)
  else Ok (cl_tick c dt, true).
Proof.
  intros c dt H. unfold update_internal_state, cl_tick, timed_out. cbv zeta. cbn [cl_state]. rewrite H. reflexivity.
Qed.

Lemma uis_connecting : forall c dt,
  is_connecting c = true -> cl_connect_start c <= cl_now c + dt ->
  update_internal_state c dt =
  if token_expired c dt
  then Ok (cl_set (cl_tick c dt) (CDisconnected CRTokenExpired) (cl_last_send c) (cl_last_recv c) (cl_seq c), false)
  else if timed_out c dt then failover c dt
  else Ok (cl_tick c dt, true).
Proof.
  intros c dt H Hle. unfold is_connecting in H. unfold update_internal_state. cbv zeta.
  cbn [cl_state cl_now cl_connect_start]. unfold sub_chk.
  destruct (cl_connect_start c <=? cl_now c + dt) eqn:E; [|lia].
  unfold failover, cl_dead, cl_next, cl_tick, timeout_reason, token_expired, timed_out.
  destruct (cl_state c) eqn:S; try discriminate H; cbn [bind]; reflexivity.
Qed.

(* the panic site of update_internal_state, exactly *)
Lemma uis_connecting_panics : forall c dt,
  is_connecting c = true -> cl_now c + dt < cl_connect_start c ->
  update_internal_state c dt = Panic SITE_N_DURATION_SUB.
Proof.
  intros c dt H Hlt. unfold is_connecting in H. unfold update_internal_state. cbv zeta.
  cbn [cl_state cl_now cl_connect_start]. unfold sub_chk.
  destruct (cl_connect_start c <=? cl_now c + dt) eqn:E; [lia|].
  destruct (cl_state c) eqn:S; try discriminate H; reflexivity.
Qed.

(* ---- generate_packet ---- *)
Definition client_packet (c : nclient) : option npacket :=
  match cl_state c with
  | CSendingRequest => Some (token_request (cl_token c))
  | CSendingResponse => Some (PResponse (cl_chal_seq c) (cl_chal_data c))
  | CConnected => Some (PKeepAlive 0 0)
  | CDisconnected _ => None
  end.

(* never sent, or at least the send rate (250 ms) ago *)
Definition send_due (c : nclient) : bool :=
  match cl_last_send c with
  | None => true
  | Some t => NC_SEND_RATE_MS * 1000000 <=? cl_now c - t
  end.

Definition last_send_ok (c : nclient) : Prop :=
  match cl_last_send c with Some t => t <= cl_now c | None => True end.

Lemma generate_packet_eq : forall c,
  last_send_ok c ->
  generate_packet c =
  if send_due c then
    match client_packet c with
    | None => Ok (c, None)
    | Some p =>
        match encode CL_CAP p (protocol_of c) (Some (cl_seq c, c2s_key c)) with
        | Ok out => Ok (cl_set c (cl_state c) (Some (cl_now c)) (cl_last_recv c) (cl_seq c + 1),
                        Some (out, cl_server_addr c))
        | Err _ => Ok (cl_set c (cl_state c) (Some (cl_now c)) (cl_last_recv c) (cl_seq c), None)
        | Panic s => Panic s
        end
    end
  else Ok (c, None).
Proof.
  intros c Hls. unfold last_send_ok in Hls. unfold generate_packet, send_due, client_packet, token_request.
  destruct (cl_last_send c) as [t|] eqn:L.
  - unfold sub_chk. destruct (t <=? cl_now c) eqn:E; [|lia]. cbn [bind].
    destruct (cl_now c - t <? NC_SEND_RATE_MS * 1000000) eqn:D;
      destruct (NC_SEND_RATE_MS * 1000000 <=? cl_now c - t) eqn:D'; try lia; try reflexivity.
  - cbn [bind]. destruct (cl_state c); reflexivity.
Qed.

Lemma generate_packet_panics : forall c t,
  cl_last_send c = Some t -> cl_now c < t -> generate_packet c = Panic SITE_N_DURATION_SUB.
Proof.
  intros c t L H. unfold generate_packet. rewrite L. unfold sub_chk.
  destruct (t <=? cl_now c) eqn:E; [lia|]. reflexivity.
Qed.

(* every client packet fits the buffer *)
Lemma client_packet_encodes : forall c p,
  len (cl_chal_data c) = NC_CHALLENGE_BYTES ->
  (cl_state c = CSendingRequest -> token_sizes_ok (cl_token c)) ->
  client_packet c = Some p ->
  exists d, encode CL_CAP p (protocol_of c) (Some (cl_seq c, c2s_key c)) = Ok d /\
    match cl_state c with
    | CSendingRequest => d = [0] ++ packet_body (token_request (cl_token c))
    | _ => d = sealed_dgram p (protocol_of c) (cl_seq c) (c2s_key c)
    end.
Proof.
  intros c p Hch Htok Hp. unfold client_packet in Hp.
  destruct (cl_state c) eqn:S; try discriminate Hp; injection Hp as <-.
  - eexists. split; [apply encode_request_ok; apply Htok; reflexivity | reflexivity].
  - eexists. split; [apply encode_sealed_ok; [reflexivity|] | reflexivity].
    cbn [packet_body]. rewrite len_app, len_le64, Hch. unfold NC_CHALLENGE_BYTES. lia.
  - eexists. split; [apply encode_sealed_ok; [reflexivity|] | reflexivity].
    cbn [packet_body]. rewrite len_app, !len_le32. lia.
Qed.

(* ---- the invariant along the pieces of update ---- *)
Ltac proj_cbn :=
  cbn [fst cl_set cl_tick cl_dead cl_next cl_with_replay cl_seq cl_token cl_now cl_connect_start cl_addr_index
       cl_replay cl_server_addr cl_id cl_last_recv cl_last_send cl_chal_data cl_chal_seq cl_state
       cl_max_clients cl_client_index].

Lemma client_inv_tick : forall c dt, client_inv c -> client_inv (cl_tick c dt).
Proof.
  intros c dt (H1 & H2 & H3 & H4 & H5 & H6 & H7). unfold client_inv, is_disconnected in *. proj_cbn.
  refine (conj _ (conj _ (conj _ (conj _ (conj _ (conj _ _)))))); try assumption; try lia.
  destruct (cl_last_send c); [lia | exact I].
Qed.

Lemma client_inv_kill : forall c r ls,
  client_inv c -> (match ls with Some t => t <= cl_now c | None => True end) ->
  client_inv (cl_set c (CDisconnected r) ls (cl_last_recv c) (cl_seq c)).
Proof.
  intros c r ls (H1 & H2 & H3 & H4 & H5 & H6 & H7) Hls. unfold client_inv, is_disconnected in *. proj_cbn.
  refine (conj _ (conj _ (conj _ (conj _ (conj _ (conj _ _)))))); try assumption. left. reflexivity.
Qed.

Lemma client_inv_dead : forall c dt, client_inv c -> client_inv (cl_dead c dt).
Proof.
  intros c dt (H1 & H2 & H3 & H4 & H5 & H6 & H7). unfold client_inv, is_disconnected in *. proj_cbn.
  refine (conj _ (conj _ (conj _ (conj _ (conj _ (conj _ _)))))); try assumption; try lia.
  destruct (cl_last_send c); [lia | exact I].
Qed.

Lemma client_inv_next : forall c dt a,
  client_inv c -> cl_addr_index c + 1 < 32 -> client_inv (cl_next c dt a).
Proof.
  intros c dt a (H1 & H2 & H3 & H4 & H5 & H6 & H7) Hi. unfold client_inv, is_disconnected in *. proj_cbn.
  refine (conj _ (conj _ (conj _ (conj _ (conj _ (conj _ _)))))); try assumption; try lia; try exact I.
  all: try (right; exact Hi).
Qed.

Lemma client_inv_sent : forall c ls sq,
  client_inv c -> (match ls with Some t => t <= cl_now c | None => True end) ->
  client_inv (cl_set c (cl_state c) ls (cl_last_recv c) sq).
Proof.
  intros c ls sq (H1 & H2 & H3 & H4 & H5 & H6 & H7) Hls. unfold client_inv, is_disconnected in *. proj_cbn.
  refine (conj _ (conj _ (conj _ (conj _ (conj _ (conj _ _)))))); assumption.
Qed.

Lemma cl_set_same : forall c, cl_set c (cl_state c) (cl_last_send c) (cl_last_recv c) (cl_seq c) = c.
Proof. intros []. reflexivity. Qed.

(* the next server, if the failover finds one *)
Definition failover_target (c : nclient) : option addr :=
  if 32 <=? cl_addr_index c + 1 then None else
  match nth_opt (ct_addrs (cl_token c)) (N.to_nat (cl_addr_index c + 1)) with
  | Some (Some a) => Some a
  | _ => None
  end.

Lemma failover_eq : forall c dt,
  client_inv c ->
  failover c dt =
  match failover_target c with
  | Some a => Ok (cl_next c dt a, true)
  | None => Ok (cl_dead c dt, false)
  end.
Proof.
  intros c dt (_ & _ & _ & _ & _ & H6 & _). unfold failover, failover_target.
  destruct (32 <=? cl_addr_index c + 1) eqn:E; [reflexivity|].
  destruct (nth_opt_lt_Some _ (ct_addrs (cl_token c)) (N.to_nat (cl_addr_index c + 1))) as [x Hx]; [lia|].
  rewrite Hx. destruct x; reflexivity.
Qed.

Lemma failover_target_lt : forall c a, failover_target c = Some a -> cl_addr_index c + 1 < 32.
Proof.
  intros c a H. unfold failover_target in H.
  destruct (32 <=? cl_addr_index c + 1) eqn:E; [discriminate | lia].
Qed.

(* ---- generate_packet, as a specification ---- *)
Lemma generate_packet_spec : forall c,
  last_send_ok c ->
  exists ls sq o,
    generate_packet c = Ok (cl_set c (cl_state c) ls (cl_last_recv c) sq, o) /\
    ((o = None /\ sq = cl_seq c /\ (ls = cl_last_send c \/ ls = Some (cl_now c)) /\
      (send_due c = false -> ls = cl_last_send c)) \/
     (exists d p, o = Some (d, cl_server_addr c) /\ sq = cl_seq c + 1 /\ ls = Some (cl_now c) /\
                  send_due c = true /\ client_packet c = Some p /\
                  encode CL_CAP p (protocol_of c) (Some (cl_seq c, c2s_key c)) = Ok d)).
Proof.
  intros c Hls. rewrite (generate_packet_eq c Hls).
  destruct (send_due c) eqn:D.
  - destruct (client_packet c) as [p|] eqn:P.
    + destruct (encode CL_CAP p (protocol_of c) (Some (cl_seq c, c2s_key c))) as [out|e|s] eqn:En.
      * exists (Some (cl_now c)), (cl_seq c + 1), (Some (out, cl_server_addr c)). split; [reflexivity|].
        right. exists out, p. repeat split; assumption.
      * exists (Some (cl_now c)), (cl_seq c), None. split; [reflexivity|].
        left. repeat split; try (right; reflexivity). discriminate.
      * exfalso. exact (encode_never_panics _ _ _ _ _ En).
    + exists (cl_last_send c), (cl_seq c), None. rewrite cl_set_same. split; [reflexivity|].
      left. repeat split; left; reflexivity.
  - exists (cl_last_send c), (cl_seq c), None. rewrite cl_set_same. split; [reflexivity|].
    left. repeat split; left; reflexivity.
Qed.

(* ---- update_internal_state, as a specification ---- *)
Lemma uis_spec : forall c dt,
  client_inv c ->
  exists c1 go,
    update_internal_state c dt = Ok (c1, go) /\ client_inv c1 /\
    cl_now c1 = cl_now c + dt /\ cl_seq c1 = cl_seq c /\ cl_token c1 = cl_token c /\
    (is_disconnected c = true -> go = false /\ c1 = cl_tick c dt) /\
    (go = true -> is_disconnected c1 = false) /\
    (go = false -> is_disconnected c1 = true).
Proof.
  intros c dt Hinv.
  destruct (cl_state c) as [r| | |] eqn:S.
  - exists (cl_tick c dt), false. rewrite (uis_disconnected _ _ _ S).
    split; [reflexivity|]. split; [apply client_inv_tick; exact Hinv|].
    unfold is_disconnected in *. proj_cbn. rewrite S. repeat split; try discriminate; try (intros; reflexivity).
  - assert (Hc : is_connecting c = true) by (unfold is_connecting; rewrite S; reflexivity).
    assert (Hle : cl_connect_start c <= cl_now c + dt) by (destruct Hinv as (H1 & _); lia).
    assert (Hlive : is_disconnected c = true -> False) by (unfold is_disconnected; rewrite S; discriminate).
    rewrite (uis_connecting _ _ Hc Hle).
    destruct (token_expired c dt).
    { eexists _, false. split; [reflexivity|].
      split; [apply (client_inv_kill (cl_tick c dt) _ (cl_last_send c)); [apply client_inv_tick; exact Hinv|]|].
      - destruct Hinv as (_ & _ & H3 & _). proj_cbn. destruct (cl_last_send c); [lia | exact I].
      - unfold is_disconnected in *. proj_cbn. repeat split; try discriminate; try (intros; reflexivity); try (intro; exfalso; auto); try (exfalso; auto; fail). }
    destruct (timed_out c dt).
    { rewrite (failover_eq _ _ Hinv). destruct (failover_target c) as [a|] eqn:F.
      - eexists _, true. split; [reflexivity|].
        split; [apply client_inv_next; [exact Hinv | eapply failover_target_lt; exact F]|].
        unfold is_disconnected in *. proj_cbn. repeat split; try discriminate; try (intros; reflexivity); try (intro; exfalso; auto); try (exfalso; auto; fail).
      - eexists _, false. split; [reflexivity|]. split; [apply client_inv_dead; exact Hinv|].
        unfold is_disconnected in *. proj_cbn. repeat split; try discriminate; try (intros; reflexivity); try (intro; exfalso; auto); try (exfalso; auto; fail). }
    eexists _, true. split; [reflexivity|]. split; [apply client_inv_tick; exact Hinv|].
    unfold is_disconnected in *. proj_cbn. rewrite S. repeat split; try discriminate; try (intros; reflexivity); try (intro; exfalso; auto); try (exfalso; auto; fail).
  - assert (Hc : is_connecting c = true) by (unfold is_connecting; rewrite S; reflexivity).
    assert (Hle : cl_connect_start c <= cl_now c + dt) by (destruct Hinv as (H1 & _); lia).
    assert (Hlive : is_disconnected c = true -> False) by (unfold is_disconnected; rewrite S; discriminate).
    rewrite (uis_connecting _ _ Hc Hle).
    destruct (token_expired c dt).
    { eexists _, false. split; [reflexivity|].
      split; [apply (client_inv_kill (cl_tick c dt) _ (cl_last_send c)); [apply client_inv_tick; exact Hinv|]|].
      - destruct Hinv as (_ & _ & H3 & _). proj_cbn. destruct (cl_last_send c); [lia | exact I].
      - unfold is_disconnected in *. proj_cbn. repeat split; try discriminate; try (intros; reflexivity); try (intro; exfalso; auto); try (exfalso; auto; fail). }
    destruct (timed_out c dt).
    { rewrite (failover_eq _ _ Hinv). destruct (failover_target c) as [a|] eqn:F.
      - eexists _, true. split; [reflexivity|].
        split; [apply client_inv_next; [exact Hinv | eapply failover_target_lt; exact F]|].
        unfold is_disconnected in *. proj_cbn. repeat split; try discriminate; try (intros; reflexivity); try (intro; exfalso; auto); try (exfalso; auto; fail).
      - eexists _, false. split; [reflexivity|]. split; [apply client_inv_dead; exact Hinv|].
        unfold is_disconnected in *. proj_cbn. repeat split; try discriminate; try (intros; reflexivity); try (intro; exfalso; auto); try (exfalso; auto; fail). }
    eexists _, true. split; [reflexivity|]. split; [apply client_inv_tick; exact Hinv|].
    unfold is_disconnected in *. proj_cbn. rewrite S. repeat split; try discriminate; try (intros; reflexivity); try (intro; exfalso; auto); try (exfalso; auto; fail).
  - assert (Hlive : is_disconnected c = true -> False) by (unfold is_disconnected; rewrite S; discriminate).
    rewrite (uis_connected _ _ S). destruct (timed_out c dt).
    + eexists _, false. split; [reflexivity|].
      split; [apply (client_inv_kill (cl_tick c dt) _ (cl_last_send c)); [apply client_inv_tick; exact Hinv|]|].
      * destruct Hinv as (_ & _ & H3 & _). proj_cbn. destruct (cl_last_send c); [lia | exact I].
      * unfold is_disconnected in *. proj_cbn. repeat split; try discriminate; try (intros; reflexivity); try (intro; exfalso; auto); try (exfalso; auto; fail).
    + eexists _, true. split; [reflexivity|]. split; [apply client_inv_tick; exact Hinv|].
      unfold is_disconnected in *. proj_cbn. rewrite S. repeat split; try discriminate; try (intros; reflexivity); try (intro; exfalso; auto); try (exfalso; auto; fail).
Qed.

(* ================================================================== *)
(* 8. nclient_update                                                   *)
(* ================================================================== *)

Lemma update_unfold : forall c dt c1 go,
  update_internal_state c dt = Ok (c1, go) ->
  nclient_update c dt = if go then generate_packet c1 else Ok (c1, None).
Proof. intros c dt c1 go H. unfold nclient_update. rewrite H. reflexivity. Qed.

Lemma client_inv_last_send_ok : forall c, client_inv c -> last_send_ok c.
Proof. intros c (_ & _ & H3 & _). exact H3. Qed.

(* everything one call of update can do *)
Lemma update_spec : forall c dt,
  client_inv c ->
  exists c' o,
    nclient_update c dt = Ok (c', o) /\ client_inv c' /\
    cl_now c' = cl_now c + dt /\ cl_token c' = cl_token c /\
    ((o = None /\ cl_seq c' = cl_seq c) \/
     (exists d p, o = Some (d, cl_server_addr c') /\ cl_seq c' = cl_seq c + 1 /\
                  cl_last_send c' = Some (cl_now c + dt) /\ is_disconnected c' = false /\
                  client_packet c' = Some p /\
                  encode CL_CAP p (protocol_of c) (Some (cl_seq c, c2s_key c)) = Ok d)) /\
    (is_disconnected c = true -> o = None /\ c' = cl_tick c dt).
Proof.
  intros c dt Hinv.
  destruct (uis_spec c dt Hinv) as (c1 & go & Hu & Hinv1 & Hnow & Hseq & Htok & Hdis & Hgo & _).
  rewrite (update_unfold _ _ _ _ Hu).
  destruct go.
  - pose proof (client_inv_last_send_ok _ Hinv1) as Hls.
    destruct (generate_packet_spec c1 Hls) as (ls & sq & o & Hg & Hcase).
    exists (cl_set c1 (cl_state c1) ls (cl_last_recv c1) sq), o.
    split; [exact Hg|].
    assert (Hls' : match ls with Some t => t <= cl_now c1 | None => True end).
    { destruct Hcase as [(_ & _ & [->| ->] & _)|(d & p & _ & _ & -> & _)]; [exact Hls | lia | lia]. }
    split; [apply client_inv_sent; assumption|]. proj_cbn.
    split; [exact Hnow|]. split; [exact Htok|]. split.
    + destruct Hcase as [(-> & -> & _)|(d & p & -> & -> & -> & Hdue & Hp & He)].
      * left. split; [reflexivity | exact Hseq].
      * right. exists d, p. split; [reflexivity|]. split; [lia|]. split; [rewrite Hnow; reflexivity|].
        split; [apply Hgo; reflexivity|]. split; [exact Hp|].
        unfold protocol_of, c2s_key in *. rewrite Htok, Hseq in He. exact He.
    + intro Hd. destruct (Hdis Hd) as [Hf _]. discriminate Hf.
  - exists c1, None. split; [reflexivity|]. split; [exact Hinv1|].
    split; [exact Hnow|]. split; [exact Htok|]. split; [left; split; [reflexivity | exact Hseq]|].
    intro Hd. destruct (Hdis Hd) as [_ ->]. split; reflexivity.
Qed.

(* 1: the invariant is kept by update *)
Theorem client_inv_step_update : forall c dt c' o,
  client_inv c -> nclient_update c dt = Ok (c', o) -> client_inv c'.
Proof.
  intros c dt c' o Hinv H.
  destruct (update_spec c dt Hinv) as (c2 & o2 & Hu & Hinv2 & _).
  rewrite Hu in H. injection H as <- <-. exact Hinv2.
Qed.

(* ================================================================== *)
(* 9. no panic (C07)                                                   *)
(* ================================================================== *)

Definition not_panic {E A} (r : res E A) : Prop := forall s, r <> Panic s.

Theorem client_no_panic : forall c,
  client_inv c ->
  (forall buf, exists c' o, nclient_process_packet c buf = (c', o) /\ client_inv c') /\
  (forall dt, exists c' o, nclient_update c dt = Ok (c', o) /\ client_inv c') /\
  (forall p, not_panic (snd (nclient_generate_payload c p)) /\ client_inv (fst (nclient_generate_payload c p))) /\
  (not_panic (snd (nclient_disconnect c)) /\ client_inv (fst (nclient_disconnect c))) /\
  (exists d, time_since_last_received c = Ok d).
Proof.
  intros c Hinv. split; [|split; [|split; [|split]]].
  - intro buf. pose proof (client_inv_step_process c buf Hinv) as H.
    destruct (nclient_process_packet c buf) as [c' o]. exists c', o. split; [reflexivity | exact H].
  - intro dt. destruct (update_spec c dt Hinv) as (c' & o & Hu & Hinv' & _).
    exists c', o. split; assumption.
  - intro p. split; [|apply client_inv_step_payload; exact Hinv].
    intros s H.
    destruct (is_connected c) eqn:Hc; [destruct (N.leb_spec (len p) NC_MAX_PAYLOAD_BYTES) as [Hl|Hl]|].
    + rewrite (generate_payload_ok _ _ Hc Hl) in H. discriminate H.
    + destruct (generate_payload_err c p (or_intror Hl)) as [e He]. rewrite He in H. discriminate H.
    + destruct (generate_payload_err c p (or_introl Hc)) as [e He]. rewrite He in H. discriminate H.
  - split; [|apply client_inv_step_disconnect; exact Hinv].
    intros s H. rewrite disconnect_eq in H. discriminate H.
  - destruct Hinv as (_ & H2 & _). unfold time_since_last_received, sub_chk.
    destruct (cl_last_recv c <=? cl_now c) eqn:E; [eexists; reflexivity | lia].
Qed.

(* the invariant is what makes update safe: outside it, the Duration subtractions do panic *)
Theorem client_update_panics_outside_inv :
  (forall c dt, is_connecting c = true -> cl_now c + dt < cl_connect_start c ->
     nclient_update c dt = Panic SITE_N_DURATION_SUB) /\
  (forall c dt t, cl_state c = CConnected -> timed_out c dt = false ->
     cl_last_send c = Some t -> cl_now c + dt < t ->
     nclient_update c dt = Panic SITE_N_DURATION_SUB).
Proof.
  split.
  - intros c dt Hc Hlt. unfold nclient_update. rewrite (uis_connecting_panics _ _ Hc Hlt). reflexivity.
  - intros c dt t S Hto L Hlt. unfold nclient_update. rewrite (uis_connected _ _ S), Hto. cbn [bind].
    apply (generate_packet_panics _ t); [exact L | exact Hlt].
Qed.

(* ================================================================== *)
(* 10. sequence discipline (C17)                                       *)
(* ================================================================== *)

(* Every datagram the client emits is encoded with (cl_seq c, c2s_key c); update and
   generate_payload then add exactly one; nothing else moves cl_seq; nobody touches the token. *)
Theorem client_sequence_increases : forall c,
  (* update *)
  (forall dt c' o, client_inv c -> nclient_update c dt = Ok (c', o) ->
     cl_token c' = cl_token c /\
     match o with
     | None => cl_seq c' = cl_seq c
     | Some (d, a) =>
         cl_seq c' = cl_seq c + 1 /\ a = cl_server_addr c' /\
         exists p, client_packet c' = Some p /\
                   encode CL_CAP p (protocol_of c) (Some (cl_seq c, c2s_key c)) = Ok d
     end) /\
  (* generate_payload *)
  (forall p c' r, nclient_generate_payload c p = (c', r) ->
     cl_token c' = cl_token c /\
     match r with
     | Ok (a, d) =>
         cl_seq c' = cl_seq c + 1 /\ a = cl_server_addr c /\ cl_state c' = cl_state c /\
         encode CL_CAP (PPayload p) (protocol_of c) (Some (cl_seq c, c2s_key c)) = Ok d
     | _ => c' = c
     end) /\
  (* disconnect: same sequence number, not incremented *)
  (exists d, nclient_disconnect c =
             (cl_set c (CDisconnected CRByClient) (cl_last_send c) (cl_last_recv c) (cl_seq c),
              Ok (cl_server_addr c, d)) /\
             encode CL_CAP PDisconnect (protocol_of c) (Some (cl_seq c, c2s_key c)) = Ok d) /\
  (* process_packet *)
  (forall buf, cl_seq (fst (nclient_process_packet c buf)) = cl_seq c /\
               cl_token (fst (nclient_process_packet c buf)) = cl_token c).
Proof.
  intro c. split; [|split; [|split]].
  - intros dt c' o Hinv H.
    destruct (update_spec c dt Hinv) as (c2 & o2 & Hu & _ & _ & Htok & Hcase & _).
    rewrite Hu in H. injection H as <- <-. split; [exact Htok|].
    destruct Hcase as [(-> & Hs)|(d & p & -> & Hs & _ & _ & Hp & He)]; [exact Hs|].
    split; [exact Hs|]. split; [reflexivity|]. exists p. split; assumption.
  - intros p c' r H.
    destruct (is_connected c) eqn:Hc; [destruct (N.leb_spec (len p) NC_MAX_PAYLOAD_BYTES) as [Hl|Hl]|].
    + rewrite (generate_payload_ok _ _ Hc Hl) in H. injection H as <- <-. proj_cbn.
      split; [reflexivity|]. repeat split.
      apply encode_sealed_ok; [reflexivity|]. cbn [packet_body]. unfold NC_MAX_PAYLOAD_BYTES in Hl. lia.
    + destruct (generate_payload_err c p (or_intror Hl)) as [e He]. rewrite He in H.
      injection H as <- <-. split; reflexivity.
    + destruct (generate_payload_err c p (or_introl Hc)) as [e He]. rewrite He in H.
      injection H as <- <-. split; reflexivity.
  - eexists. split; [apply disconnect_eq|].
    apply encode_sealed_ok; [reflexivity|]. cbn [packet_body]. rewrite len_nil. lia.
  - intro buf. pose proof (client_process_frame c buf) as F. cbv zeta in F.
    destruct F as (F1 & F2 & _). split; assumption.
Qed.

(* once disconnected: update emits nothing and stays disconnected (no invariant needed) *)
Lemma disconnected_update_eq : forall c dt,
  is_disconnected c = true -> nclient_update c dt = Ok (cl_tick c dt, None).
Proof.
  intros c dt Hd. unfold is_disconnected in Hd. destruct (cl_state c) as [r| | |] eqn:S; try discriminate Hd.
  unfold nclient_update. rewrite (uis_disconnected _ _ _ S). reflexivity.
Qed.

Theorem disconnected_emits_nothing : forall c dt c' o,
  is_disconnected c = true -> nclient_update c dt = Ok (c', o) ->
  o = None /\ is_disconnected c' = true /\ c' = cl_tick c dt.
Proof.
  intros c dt c' o Hd H. rewrite (disconnected_update_eq _ _ Hd) in H. injection H as <- <-.
  repeat split. unfold is_disconnected in *. proj_cbn. exact Hd.
Qed.

Theorem disconnected_payload_err : forall c p,
  is_disconnected c = true -> exists e, nclient_generate_payload c p = (c, Err e).
Proof.
  intros c p Hd. apply generate_payload_err. left. unfold is_disconnected, is_connected in *.
  destruct (cl_state c); try discriminate Hd; reflexivity.
Qed.

(* disconnecting again re-encodes the same datagram with the same sequence number *)
Theorem disconnect_idempotent : forall c,
  nclient_disconnect (fst (nclient_disconnect c)) = nclient_disconnect c.
Proof. intro c. rewrite !disconnect_eq. destruct c. reflexivity. Qed.

(* after a disconnect, whatever is called, the only datagram that can ever leave is that same one *)
Theorem disconnected_frame : forall c,
  is_disconnected c = true ->
  (forall buf, let c' := fst (nclient_process_packet c buf) in
     is_disconnected c' = true /\ snd (nclient_process_packet c buf) = None /\
     snd (nclient_disconnect c') = snd (nclient_disconnect c)) /\
  (forall dt, exists c', nclient_update c dt = Ok (c', None) /\ is_disconnected c' = true /\
     snd (nclient_disconnect c') = snd (nclient_disconnect c)) /\
  (forall p, exists e, nclient_generate_payload c p = (c, Err e)) /\
  (let c' := fst (nclient_disconnect c) in
     is_disconnected c' = true /\ snd (nclient_disconnect c') = snd (nclient_disconnect c)).
Proof.
  intros c Hd. split; [|split; [|split]].
  - intros buf c'. unfold c'.
    pose proof (client_process_frame c buf) as F. cbv zeta in F.
    destruct F as (F1 & F2 & _ & _ & _ & F6 & _ & F8).
    split; [unfold is_disconnected in *; rewrite (F8 Hd); exact Hd|]. split.
    + destruct (nclient_process_packet c buf) as [c2 [p|]] eqn:P; [|reflexivity].
      apply client_payload_only_connected in P. destruct P as (P1 & _).
      unfold is_disconnected in Hd. rewrite P1 in Hd. discriminate Hd.
    + rewrite !disconnect_eq. cbn [snd]. unfold protocol_of, c2s_key. rewrite F1, F2, F6. reflexivity.
  - intro dt. exists (cl_tick c dt). split; [apply disconnected_update_eq; exact Hd|].
    split; [unfold is_disconnected in *; proj_cbn; exact Hd|]. rewrite !disconnect_eq. reflexivity.
  - intro p. apply disconnected_payload_err. exact Hd.
  - cbv zeta. split; [rewrite disconnect_eq; reflexivity|]. rewrite disconnect_idempotent. reflexivity.
Qed.

(* ================================================================== *)
(* 11. liveness building blocks (C18)                                  *)
(* ================================================================== *)

(* generate_packet when a packet is due and encodes *)
Lemma generate_packet_due : forall c p d,
  last_send_ok c -> send_due c = true -> client_packet c = Some p ->
  encode CL_CAP p (protocol_of c) (Some (cl_seq c, c2s_key c)) = Ok d ->
  generate_packet c =
  Ok (cl_set c (cl_state c) (Some (cl_now c)) (cl_last_recv c) (cl_seq c + 1), Some (d, cl_server_addr c)).
Proof. intros c p d Hls Hdue Hp He. rewrite (generate_packet_eq c Hls), Hdue, Hp, He. reflexivity. Qed.

Lemma generate_packet_too_soon : forall c,
  last_send_ok c -> send_due c = false -> generate_packet c = Ok (c, None).
Proof. intros c Hls Hdue. rewrite (generate_packet_eq c Hls), Hdue. reflexivity. Qed.

(* the live, not expired, not timed out client: update_internal_state only moves the clock *)
Lemma uis_alive : forall c dt,
  client_inv c -> is_connecting c = true \/ is_connected c = true ->
  (is_connecting c = true -> token_expired c dt = false) -> timed_out c dt = false ->
  update_internal_state c dt = Ok (cl_tick c dt, true).
Proof.
  intros c dt Hinv Hst Hexp Hto.
  destruct (is_connecting c) eqn:Hc.
  - rewrite (uis_connecting _ _ Hc); [|destruct Hinv as (H1 & _); lia].
    rewrite (Hexp eq_refl), Hto. reflexivity.
  - destruct Hst as [Hst|Hst]; [discriminate Hst|].
    unfold is_connected in Hst. destruct (cl_state c) eqn:S; try discriminate Hst.
    rewrite (uis_connected _ _ S), Hto. reflexivity.
Qed.

(* 6(a): a live client retries at the send rate *)
Theorem client_retries : forall c dt,
  client_inv c ->
  is_connecting c = true \/ is_connected c = true ->
  (is_connecting c = true -> token_expired c dt = false) ->
  timed_out c dt = false ->
  (cl_state c = CSendingRequest -> token_sizes_ok (cl_token c)) ->
  (cl_last_send c = None \/
   exists t, cl_last_send c = Some t /\ NC_SEND_RATE_MS * 1000000 <= cl_now c + dt - t) ->
  exists c' d p,
    nclient_update c dt = Ok (c', Some (d, cl_server_addr c')) /\
    cl_last_send c' = Some (cl_now c + dt) /\
    c' = cl_set (cl_tick c dt) (cl_state c) (Some (cl_now c + dt)) (cl_last_recv c) (cl_seq c + 1) /\
    client_packet c = Some p /\
    encode CL_CAP p (protocol_of c) (Some (cl_seq c, c2s_key c)) = Ok d /\
    match cl_state c with
    | CSendingRequest => d = [0] ++ packet_body (token_request (cl_token c))
    | _ => d = sealed_dgram p (protocol_of c) (cl_seq c) (c2s_key c)
    end.
Proof.
  intros c dt Hinv Hst Hexp Hto Htok Hdue.
  pose proof (uis_alive c dt Hinv Hst Hexp Hto) as Hu.
  assert (Hp : exists p, client_packet c = Some p).
  { unfold client_packet, is_connecting, is_connected in *.
    destruct (cl_state c); try (eexists; reflexivity). destruct Hst; discriminate. }
  destruct Hp as [p Hp].
  destruct Hinv as (H1 & H2 & H3 & H4 & H5 & H6 & H7).
  destruct (client_packet_encodes c p H7 Htok Hp) as (d & He & Hd).
  exists (cl_set (cl_tick c dt) (cl_state c) (Some (cl_now c + dt)) (cl_last_recv c) (cl_seq c + 1)), d, p.
  rewrite (update_unfold _ _ _ _ Hu).
  rewrite (generate_packet_due (cl_tick c dt) p d).
  - proj_cbn. repeat split; assumption.
  - unfold last_send_ok. proj_cbn. destruct (cl_last_send c); [lia | exact I].
  - unfold send_due. proj_cbn. destruct Hdue as [->|(t & -> & Ht)]; [reflexivity | lia].
  - exact Hp.
  - exact He.
Qed.

(* conversely: less than the send rate since the last send, nothing leaves - unless the failover
   restarted the handshake on the next server (which resets last_send) *)
Theorem client_rate_limited : forall c dt t c' o,
  client_inv c -> cl_last_send c = Some t -> cl_now c + dt - t < NC_SEND_RATE_MS * 1000000 ->
  nclient_update c dt = Ok (c', o) ->
  o = None \/
  (is_connecting c = true /\ token_expired c dt = false /\ timed_out c dt = true /\
   exists a, failover_target c = Some a /\ cl_server_addr c' = a).
Proof.
  intros c dt t c' o Hinv L Hlt H.
  assert (Htick : generate_packet (cl_tick c dt) = Ok (cl_tick c dt, None)).
  { apply generate_packet_too_soon.
    - apply client_inv_last_send_ok, client_inv_tick, Hinv.
    - unfold send_due. proj_cbn. rewrite L. lia. }
  destruct (cl_state c) as [r| | |] eqn:S.
  - left. rewrite disconnected_update_eq in H by (unfold is_disconnected; rewrite S; reflexivity).
    injection H as _ <-. reflexivity.
  - assert (Hc : is_connecting c = true) by (unfold is_connecting; rewrite S; reflexivity).
    unfold nclient_update in H.
    rewrite (uis_connecting _ _ Hc) in H by (destruct Hinv as (H1 & _); lia).
    destruct (token_expired c dt) eqn:Ex; [cbn [bind] in H; injection H as _ <-; left; reflexivity|].
    destruct (timed_out c dt) eqn:To.
    + rewrite (failover_eq _ _ Hinv) in H. destruct (failover_target c) as [a|] eqn:F.
      * right. split; [exact Hc|]. split; [reflexivity|]. split; [reflexivity|].
        exists a. split; [reflexivity|]. cbn [bind] in H.
        destruct (generate_packet_spec (cl_next c dt a) I) as (ls & sq & o2 & Hg & _).
        rewrite Hg in H. injection H as <- _. reflexivity.
      * cbn [bind] in H. injection H as _ <-. left. reflexivity.
    + cbn [bind] in H. rewrite Htick in H. injection H as _ <-. left. reflexivity.
  - assert (Hc : is_connecting c = true) by (unfold is_connecting; rewrite S; reflexivity).
    unfold nclient_update in H.
    rewrite (uis_connecting _ _ Hc) in H by (destruct Hinv as (H1 & _); lia).
    destruct (token_expired c dt) eqn:Ex; [cbn [bind] in H; injection H as _ <-; left; reflexivity|].
    destruct (timed_out c dt) eqn:To.
    + rewrite (failover_eq _ _ Hinv) in H. destruct (failover_target c) as [a|] eqn:F.
      * right. split; [exact Hc|]. split; [reflexivity|]. split; [reflexivity|].
        exists a. split; [reflexivity|]. cbn [bind] in H.
        destruct (generate_packet_spec (cl_next c dt a) I) as (ls & sq & o2 & Hg & _).
        rewrite Hg in H. injection H as <- _. reflexivity.
      * cbn [bind] in H. injection H as _ <-. left. reflexivity.
    + cbn [bind] in H. rewrite Htick in H. injection H as _ <-. left. reflexivity.
  - unfold nclient_update in H. rewrite (uis_connected _ _ S) in H.
    destruct (timed_out c dt); cbn [bind] in H; [injection H as _ <-; left; reflexivity|].
    rewrite Htick in H. injection H as _ <-. left. reflexivity.
Qed.

(* 6(b): failover to the next server of the token *)
Lemma failover_target_nth : forall c a,
  client_inv c ->
  nth_opt (ct_addrs (cl_token c)) (N.to_nat (cl_addr_index c + 1)) = Some (Some a) ->
  failover_target c = Some a.
Proof.
  intros c a (_ & _ & _ & _ & _ & H6 & _) H. unfold failover_target.
  pose proof (nth_opt_Some_lt _ _ _ _ H) as Hlt. rewrite H6 in Hlt.
  destruct (32 <=? cl_addr_index c + 1) eqn:E; [lia|]. rewrite H. reflexivity.
Qed.

Theorem client_failover : forall c dt a,
  client_inv c -> is_connecting c = true ->
  token_expired c dt = false -> timed_out c dt = true ->
  nth_opt (ct_addrs (cl_token c)) (N.to_nat (cl_addr_index c + 1)) = Some (Some a) ->
  token_sizes_ok (cl_token c) ->
  exists c',
    nclient_update c dt = Ok (c', Some ([0] ++ packet_body (token_request (cl_token c)), a)) /\
    cl_state c' = CSendingRequest /\ cl_server_addr c' = a /\
    cl_addr_index c' = cl_addr_index c + 1 /\
    cl_connect_start c' = cl_now c + dt /\ cl_last_recv c' = cl_now c + dt /\
    cl_now c' = cl_now c + dt /\ cl_last_send c' = Some (cl_now c + dt) /\
    cl_seq c' = cl_seq c + 1 /\ cl_token c' = cl_token c /\ cl_chal_seq c' = 0 /\
    cl_replay c' = cl_replay c.
Proof.
  intros c dt a Hinv Hc Hexp Hto Hnth Htok.
  pose proof (failover_target_nth _ _ Hinv Hnth) as F.
  unfold nclient_update.
  rewrite (uis_connecting _ _ Hc) by (destruct Hinv as (H1 & _); lia).
  rewrite Hexp, Hto, (failover_eq _ _ Hinv), F. cbn [bind].
  rewrite (generate_packet_due (cl_next c dt a) (token_request (cl_token c))
             ([0] ++ packet_body (token_request (cl_token c)))).
  - eexists. split; [reflexivity|]. proj_cbn. repeat split.
  - exact I.
  - reflexivity.
  - reflexivity.
  - apply encode_request_ok. exact Htok.
Qed.

(* the failover restarts the expiry clock: the token's lifetime (expire - create) is granted again
   for every server tried, so a client may keep connecting for up to 32 lifetimes *)
Corollary client_failover_restarts_expiry : forall c dt a,
  client_inv c -> is_connecting c = true ->
  token_expired c dt = false -> timed_out c dt = true ->
  nth_opt (ct_addrs (cl_token c)) (N.to_nat (cl_addr_index c + 1)) = Some (Some a) ->
  token_sizes_ok (cl_token c) ->
  exists c' o, nclient_update c dt = Ok (c', o) /\
    forall dt', token_expired c' dt' =
                (ct_expire (cl_token c) - ct_create (cl_token c) <=? as_secs dt').
Proof.
  intros c dt a Hinv Hc Hexp Hto Hnth Htok.
  destruct (client_failover c dt a Hinv Hc Hexp Hto Hnth Htok)
    as (c' & Hu & _ & _ & _ & Hcs & _ & Hnow & _ & _ & Ht & _).
  eexists c', _. split; [exact Hu|]. intro dt'. unfold token_expired. rewrite Hcs, Hnow, Ht.
  replace (cl_now c + dt + dt' - (cl_now c + dt)) with dt' by lia. reflexivity.
Qed.

(* ... and when the slots are exhausted (or the next one is empty) the client gives up, with the
   reason of the state it was in *)
Theorem client_failover_exhausted : forall c dt,
  client_inv c -> is_connecting c = true ->
  token_expired c dt = false -> timed_out c dt = true ->
  (32 <= cl_addr_index c + 1 \/
   nth_opt (ct_addrs (cl_token c)) (N.to_nat (cl_addr_index c + 1)) = Some None) ->
  nclient_update c dt = Ok (cl_dead c dt, None) /\
  cl_state (cl_dead c dt) =
    CDisconnected (match cl_state c with CSendingResponse => CRResponseTimedOut | _ => CRRequestTimedOut end).
Proof.
  intros c dt Hinv Hc Hexp Hto Hno.
  assert (F : failover_target c = None).
  { unfold failover_target. destruct (32 <=? cl_addr_index c + 1) eqn:E; [reflexivity|].
    destruct Hno as [Hno|Hno]; [lia|]. rewrite Hno. reflexivity. }
  unfold nclient_update.
  rewrite (uis_connecting _ _ Hc) by (destruct Hinv as (H1 & _); lia).
  rewrite Hexp, Hto, (failover_eq _ _ Hinv), F. cbn [bind]. split; reflexivity.
Qed.

(* 6(c) *)
Theorem client_times_out : forall c dt,
  cl_state c = CConnected -> timed_out c dt = true ->
  exists c', nclient_update c dt = Ok (c', None) /\ cl_state c' = CDisconnected CRTimedOut /\
             cl_now c' = cl_now c + dt /\ cl_seq c' = cl_seq c.
Proof.
  intros c dt S Hto. unfold nclient_update. rewrite (uis_connected _ _ S), Hto. cbn [bind].
  eexists. split; [reflexivity|]. proj_cbn. repeat split.
Qed.

Theorem client_stays_alive : forall c dt c' o,
  client_inv c -> cl_state c = CConnected -> timed_out c dt = false ->
  nclient_update c dt = Ok (c', o) -> cl_state c' = CConnected.
Proof.
  intros c dt c' o Hinv S Hto H. unfold nclient_update in H.
  rewrite (uis_connected _ _ S), Hto in H. cbn [bind] in H.
  assert (Hls : last_send_ok (cl_tick c dt)) by (apply client_inv_last_send_ok, client_inv_tick, Hinv).
  destruct (generate_packet_spec _ Hls) as (ls & sq & o2 & Hg & _).
  rewrite Hg in H. injection H as <- _. proj_cbn. exact S.
Qed.

(* the same for a connecting client: not expired, not timed out -> same state *)
Theorem client_keeps_connecting : forall c dt c' o,
  client_inv c -> is_connecting c = true -> token_expired c dt = false -> timed_out c dt = false ->
  nclient_update c dt = Ok (c', o) -> cl_state c' = cl_state c.
Proof.
  intros c dt c' o Hinv Hc Hexp Hto H.
  rewrite (update_unfold _ _ _ _ (uis_alive c dt Hinv (or_introl Hc) (fun _ => Hexp) Hto)) in H.
  assert (Hls : last_send_ok (cl_tick c dt)) by (apply client_inv_last_send_ok, client_inv_tick, Hinv).
  destruct (generate_packet_spec _ Hls) as (ls & sq & o2 & Hg & _).
  rewrite Hg in H. injection H as <- _. reflexivity.
Qed.

Theorem client_token_expiry : forall c dt,
  client_inv c -> is_connecting c = true ->
  ct_expire (cl_token c) - ct_create (cl_token c) <= as_secs (cl_now c + dt - cl_connect_start c) ->
  exists c', nclient_update c dt = Ok (c', None) /\ cl_state c' = CDisconnected CRTokenExpired /\
             cl_now c' = cl_now c + dt /\ cl_seq c' = cl_seq c.
Proof.
  intros c dt Hinv Hc Hexp. unfold nclient_update.
  rewrite (uis_connecting _ _ Hc) by (destruct Hinv as (H1 & _); lia).
  assert (E : token_expired c dt = true) by (unfold token_expired; lia).
  rewrite E. cbn [bind]. eexists. split; [reflexivity|]. proj_cbn. repeat split.
Qed.

(* a token with expire <= create (the subtraction saturates to 0) is dead on the first update *)
Corollary client_token_expiry_degenerate : forall c dt,
  client_inv c -> is_connecting c = true -> ct_expire (cl_token c) <= ct_create (cl_token c) ->
  exists c', nclient_update c dt = Ok (c', None) /\ cl_state c' = CDisconnected CRTokenExpired.
Proof.
  intros c dt Hinv Hc H. destruct (client_token_expiry c dt Hinv Hc) as (c' & H1 & H2 & _); [lia|].
  exists c'. split; assumption.
Qed.

(* ================================================================== *)
(* 11b. runs: any interleaving of the four calls, from any invariant    *)
(*      state (in particular from nclient_new), never panics            *)
(* ================================================================== *)

Inductive cop :=
| COProcess (buf : list N)
| COUpdate (dt : N)
| COPayload (p : list N)
| CODisconnect.

(* one API call; the outputs are dropped, a Panic anywhere is propagated *)
Definition cstep (c : nclient) (o : cop) : nres nclient :=
  match o with
  | COProcess buf => Ok (fst (nclient_process_packet c buf))
  | COUpdate dt => do r <- nclient_update c dt; Ok (fst r)
  | COPayload p =>
      match snd (nclient_generate_payload c p) with
      | Panic s => Panic s
      | _ => Ok (fst (nclient_generate_payload c p))
      end
  | CODisconnect =>
      match snd (nclient_disconnect c) with
      | Panic s => Panic s
      | _ => Ok (fst (nclient_disconnect c))
      end
  end.

Fixpoint crun (c : nclient) (ops : list cop) : nres nclient :=
  match ops with
  | [] => Ok c
  | o :: t => do c1 <- cstep c o; crun c1 t
  end.

Lemma cstep_safe : forall c o,
  client_inv c ->
  exists c', cstep c o = Ok c' /\ client_inv c' /\ cl_seq c <= cl_seq c' /\ cl_token c' = cl_token c /\
             cl_now c <= cl_now c' /\ (is_disconnected c = true -> is_disconnected c' = true).
Proof.
  intros c o Hinv. destruct o as [buf|dt|p|]; cbn [cstep].
  - eexists. split; [reflexivity|]. split; [apply client_inv_step_process; exact Hinv|].
    pose proof (client_process_frame c buf) as F. cbv zeta in F.
    destruct F as (F1 & F2 & F3 & _ & _ & _ & _ & F8).
    split; [lia|]. split; [exact F2|]. split; [lia|].
    intro Hd. unfold is_disconnected in *. rewrite (F8 Hd). exact Hd.
  - destruct (update_spec c dt Hinv) as (c' & o & Hu & Hinv' & Hnow & Htok & Hcase & Hdis).
    rewrite Hu. cbn [bind fst]. exists c'. split; [reflexivity|]. split; [exact Hinv'|].
    split; [destruct Hcase as [(_ & Hs)|(d & q & _ & Hs & _)]; lia|]. split; [exact Htok|]. split; [lia|].
    intro Hd. destruct (Hdis Hd) as [_ ->]. unfold is_disconnected in *. proj_cbn. exact Hd.
  - destruct (is_connected c) eqn:Hc; [destruct (N.leb_spec (len p) NC_MAX_PAYLOAD_BYTES) as [Hl|Hl]|].
    + rewrite (generate_payload_ok _ _ Hc Hl). cbn [fst snd]. eexists. split; [reflexivity|].
      split; [pose proof (client_inv_step_payload c p Hinv) as H;
              rewrite (generate_payload_ok _ _ Hc Hl) in H; exact H|].
      proj_cbn. split; [lia|]. split; [reflexivity|]. split; [lia|].
      intro Hd. unfold is_disconnected in *. proj_cbn. exact Hd.
    + destruct (generate_payload_err c p (or_intror Hl)) as [e ->]. cbn [fst snd].
      exists c. split; [reflexivity|]. split; [exact Hinv|]. split; [lia|]. split; [reflexivity|].
      split; [lia|]. intro Hd; exact Hd.
    + destruct (generate_payload_err c p (or_introl Hc)) as [e ->]. cbn [fst snd].
      exists c. split; [reflexivity|]. split; [exact Hinv|]. split; [lia|]. split; [reflexivity|].
      split; [lia|]. intro Hd; exact Hd.
  - pose proof (client_inv_step_disconnect c Hinv) as H. rewrite disconnect_eq in *. cbn [fst snd] in *.
    eexists. split; [reflexivity|]. split; [exact H|]. proj_cbn.
    split; [lia|]. split; [reflexivity|]. split; [lia|]. intros _. reflexivity.
Qed.

(* C07 at the level of runs: no sequence of calls, with any datagram bytes and any time steps,
   panics; the sequence number never decreases, the clock never goes back, the token is kept,
   and a disconnected client stays disconnected *)
Theorem client_run_safe : forall ops c,
  client_inv c ->
  exists c', crun c ops = Ok c' /\ client_inv c' /\ cl_seq c <= cl_seq c' /\ cl_token c' = cl_token c /\
             cl_now c <= cl_now c' /\ (is_disconnected c = true -> is_disconnected c' = true).
Proof.
  induction ops as [|o t IH]; intros c Hinv.
  - exists c. cbn [crun]. split; [reflexivity|]. split; [exact Hinv|]. split; [lia|]. split; [reflexivity|].
    split; [lia|]. intro Hd; exact Hd.
  - destruct (cstep_safe c o Hinv) as (c1 & Hs & Hinv1 & Hseq1 & Htok1 & Hnow1 & Hd1).
    destruct (IH c1 Hinv1) as (c' & Hr & Hinv' & Hseq' & Htok' & Hnow' & Hd').
    exists c'. cbn [crun]. rewrite Hs. cbn [bind].
    split; [exact Hr|]. split; [exact Hinv'|]. split; [lia|]. split; [congruence|]. split; [lia|].
    intro Hd. apply Hd', Hd1, Hd.
Qed.

Corollary client_reachable_safe : forall now t c ops,
  length (ct_addrs t) = 32%nat -> nclient_new now t = Ok c ->
  exists c', crun c ops = Ok c' /\ client_inv c' /\ cl_token c' = t.
Proof.
  intros now t c ops Hlen Hnew.
  destruct (client_run_safe ops c (client_inv_init _ _ _ Hlen Hnew)) as (c' & Hr & Hinv & _ & Htok & _).
  exists c'. split; [exact Hr|]. split; [exact Hinv|]. rewrite Htok.
  unfold nclient_new in Hnew. destruct (ct_addrs t) as [|[a|] l]; try discriminate.
  injection Hnew as <-. reflexivity.
Qed.

(* ================================================================== *)
(* 11c. tokens: the hypotheses on the token hold for whatever           *)
(*      token_read / token_generate return                              *)
(* ================================================================== *)

Definition all_some {A} (l : list (option A)) : Prop := forall x, In x l -> x <> None.

Lemma read_addrs_loop_spec : forall fuel src acc found rest,
  read_addrs_loop fuel src acc = Ok (found, rest) ->
  all_some acc ->
  all_some found /\ (length acc <= length found <= length acc + fuel)%nat.
Proof.
  induction fuel as [|f IH]; intros src acc found rest H Hacc; cbn [read_addrs_loop] in H.
  - injection H as <- <-. split; [exact Hacc | lia].
  - destruct src as [|ty r]; [discriminate|].
    assert (Hsnoc : forall a, all_some (acc ++ [Some a])).
    { intros a x Hx. apply in_app_or in Hx. destruct Hx as [Hx|[<-|[]]]; [apply Hacc; exact Hx | discriminate]. }
    destruct (ty =? NC_ADDR_V4).
    { destruct (len r <? 6); [discriminate|].
      apply IH in H; [|apply Hsnoc]. rewrite app_length in H. cbn [length] in H. destruct H as [H1 H2].
      split; [exact H1 | lia]. }
    destruct (ty =? NC_ADDR_V6).
    { destruct (len r <? 18); [discriminate|].
      apply IH in H; [|apply Hsnoc]. rewrite app_length in H. cbn [length] in H. destruct H as [H1 H2].
      split; [exact H1 | lia]. }
    destruct (ty =? NC_ADDR_NONE); [|discriminate].
    apply IH in H; [|exact Hacc]. destruct H as [H1 H2]. split; [exact H1 | lia].
Qed.

Lemma pad_slots_length : forall l, (length l <= 32)%nat -> length (pad_slots l) = 32%nat.
Proof. intros l H. unfold pad_slots. rewrite app_length, repeatN_length. lia. Qed.

Lemma read_server_addresses_slots : forall src slots rest,
  read_server_addresses src = Ok (slots, rest) ->
  length slots = 32%nat /\ exists a, nth_opt slots 0 = Some (Some a).
Proof.
  intros src slots rest H. unfold read_server_addresses in H.
  destruct (len src <? 4); [discriminate|]. cbv zeta in H.
  set (n := if 32 <? le_val (takeN 4 src) then 32 else le_val (takeN 4 src)) in H.
  assert (Hn : n <= 32) by (unfold n; destruct (32 <? le_val (takeN 4 src)) eqn:E; lia).
  destruct (read_addrs_loop (N.to_nat n) (dropN 4 src) []) as [[found rest']|e|s] eqn:L;
    cbn [bind] in H; try discriminate.
  apply read_addrs_loop_spec in L; [|intros x []]. destruct L as [Hs Hl]. cbn [length] in Hl.
  destruct found as [|x found]; [discriminate|]. injection H as <- <-.
  split; [apply pad_slots_length; lia|].
  unfold pad_slots. cbn [app nth_opt].
  destruct x as [a|]; [exists a; reflexivity|]. exfalso. apply (Hs None); [left; reflexivity | reflexivity].
Qed.

(* a token that came through token_read always yields a client: SITE_N_NO_SERVER_ADDR is unreachable
   for it, and the invariant holds *)
Theorem token_read_client : forall src t now,
  token_read src = Ok t -> exists c, nclient_new now t = Ok c /\ client_inv c.
Proof.
  intros src t now H.
  assert (Hs : length (ct_addrs t) = 32%nat /\ exists a, nth_opt (ct_addrs t) 0 = Some (Some a)).
  { unfold token_read in H.
    destruct (len src <? 8 + 13); [discriminate|]. cbv zeta in H.
    destruct (negb (bytes_eqb (takeN 13 (dropN 8 src)) NC_VERSION_INFO)); [discriminate|].
    destruct (len (dropN 21 src) <? 8 + 8 + 8 + NC_XNONCE_BYTES + NC_PRIVATE_BYTES + 4); [discriminate|].
    match type of H with
    | bind (read_server_addresses ?x) _ = _ => destruct (read_server_addresses x) as [[slots r4]|e|s] eqn:R
    end; cbn [bind] in H; try discriminate.
    destruct (len r4 <? 2 * NC_KEY_BYTES); [discriminate|]. injection H as <-. cbn [ct_addrs].
    eapply read_server_addresses_slots. exact R. }
  destruct Hs as [Hlen [a Ha]].
  destruct (nclient_new_ok_or_panic now t) as [[c Hc]|Hp].
  - exists c. split; [exact Hc | eapply client_inv_init; eassumption].
  - exfalso. assert (Hex : exists s, nclient_new now t = Panic s) by (eexists; exact Hp).
    apply nclient_new_panics_iff in Hex. apply Hex. exists a. exact Ha.
Qed.

(* the same for a freshly generated token *)
Theorem token_generate_client : forall now0 protocol secs id timeout addrs user key xnonce c2s s2c t now,
  token_generate now0 protocol secs id timeout addrs user key xnonce c2s s2c = Ok t ->
  exists c, nclient_new now t = Ok c /\ client_inv c.
Proof.
  intros now0 protocol secs id timeout addrs user key xnonce c2s s2c t now H.
  unfold token_generate in H. destruct (32 <? len addrs) eqn:E; [discriminate|].
  destruct addrs as [|a addrs]; [discriminate|]. cbv zeta in H. injection H as <-.
  match goal with |- exists c, nclient_new now ?t = _ /\ _ => set (tk := t) end.
  assert (Hlen : length (ct_addrs tk) = 32%nat).
  { unfold tk. cbn [ct_addrs]. apply pad_slots_length. cbn [map length]. rewrite map_length.
    unfold len in E. cbn [length] in E. lia. }
  destruct (nclient_new_ok_or_panic now tk) as [[c Hc]|Hp].
  - exists c. split; [exact Hc | eapply client_inv_init; eassumption].
  - exfalso. assert (Hex : exists s, nclient_new now tk = Panic s) by (eexists; exact Hp).
    apply nclient_new_panics_iff in Hex. apply Hex. exists a. reflexivity.
Qed.

(* ================================================================== *)
(* 12. non-vacuity: a hand-built token, a client, the first request    *)
(* ================================================================== *)

Definition ex_addr : addr := AddrV4 [127; 0; 0; 1] 5000.

Definition ex_token : connect_token :=
  {| ct_client_id := 7; ct_version := NC_VERSION_INFO; ct_protocol := 1; ct_create := 0; ct_expire := 300;
     ct_xnonce := zeros NC_XNONCE_BYTES; ct_addrs := Some ex_addr :: repeatN None 31;
     ct_c2s := zeros NC_KEY_BYTES; ct_s2c := zeros NC_KEY_BYTES; ct_private := zeros NC_PRIVATE_BYTES;
     ct_timeout := 15%Z |}.

Definition ex_client : nclient :=
  {| cl_state := CSendingRequest; cl_id := 7; cl_connect_start := 1000; cl_last_send := None;
     cl_last_recv := 1000; cl_now := 1000; cl_seq := 0; cl_server_addr := ex_addr; cl_addr_index := 0;
     cl_token := ex_token; cl_chal_seq := 0; cl_chal_data := zeros NC_CHALLENGE_BYTES;
     cl_max_clients := 0; cl_client_index := 0; cl_replay := replay_new |}.

Example ex_new : nclient_new 1000 ex_token = Ok ex_client.
Proof. reflexivity. Qed.

Example ex_inv : client_inv ex_client.
Proof. apply (client_inv_init 1000 ex_token); [reflexivity | exact ex_new]. Qed.

Example ex_token_sizes : token_sizes_ok ex_token.
Proof. split; vm_compute; reflexivity. Qed.

(* one update with dt = 0 emits the 1078-byte request, in the clear, to the first server *)
Example ex_first_request :
  exists c' d,
    nclient_update ex_client 0 = Ok (c', Some (d, ex_addr)) /\
    d = [0] ++ packet_body (token_request ex_token) /\ len d = 1078 /\
    cl_seq c' = 1 /\ cl_last_send c' = Some 1000 /\ cl_state c' = CSendingRequest /\ client_inv c'.
Proof.
  eexists. eexists. split; [vm_compute; reflexivity|].
  split; [vm_compute; reflexivity|]. split; [vm_compute; reflexivity|].
  split; [reflexivity|]. split; [reflexivity|]. split; [reflexivity|].
  eapply (client_inv_step_update ex_client 0); [exact ex_inv | vm_compute; reflexivity].
Qed.

(* the same through the theorem (the hypotheses of client_retries are satisfiable) *)
Example ex_first_request_by_theorem :
  exists c' d p, nclient_update ex_client 0 = Ok (c', Some (d, cl_server_addr c')) /\
                 cl_last_send c' = Some (cl_now ex_client + 0) /\ client_packet ex_client = Some p.
Proof.
  destruct (client_retries ex_client 0 ex_inv) as (c' & d & p & H1 & H2 & _ & H4 & _).
  - left. reflexivity.
  - intros _. vm_compute. reflexivity.
  - vm_compute. reflexivity.
  - intros _. exact ex_token_sizes.
  - left. reflexivity.
  - exists c', d, p. repeat split; assumption.
Qed.

(* 250 ms later nothing has been heard: the request is sent again, with sequence number 1 -> 2 *)
Example ex_second_request :
  exists c1 d1 c2 d2,
    nclient_update ex_client 0 = Ok (c1, Some (d1, ex_addr)) /\
    nclient_update c1 249999999 = Ok (cl_tick c1 249999999, None) /\
    nclient_update c1 250000000 = Ok (c2, Some (d2, ex_addr)) /\ d2 = d1 /\ cl_seq c2 = 2.
Proof.
  eexists. eexists. eexists. eexists.
  split; [vm_compute; reflexivity|]. split; [vm_compute; reflexivity|].
  split; [vm_compute; reflexivity|]. split; reflexivity.
Qed.

(* the whole handshake against datagrams really sealed under the server-to-client key (the cipher
   is executed): challenge, keep-alive, a payload that surfaces once, its replay and a tampered copy
   that change nothing, a malformed keep-alive that only moves the window, the server's disconnect *)
Definition srv_dgram (p : npacket) (s : N) : list N :=
  match encode CL_CAP p (protocol_of ex_client) (Some (s, s2c_key ex_client)) with Ok d => d | _ => [] end.

Example ex_handshake :
  let chal := srv_dgram (PChallenge 9 (repeatN 3 300)) 0 in
  let ka := srv_dgram (PKeepAlive 2 64) 1 in
  let pay := srv_dgram (PPayload [1; 2; 3]) 2 in
  let bye := srv_dgram PDisconnect 3 in
  let c1 := fst (nclient_process_packet ex_client chal) in
  let c2 := fst (nclient_process_packet c1 ka) in
  let c3 := fst (nclient_process_packet c2 pay) in
  let c4 := fst (nclient_process_packet c3 bye) in
  opens_sealed (s2c_key ex_client) (protocol_of ex_client) chal /\
  opens_sealed (s2c_key ex_client) (protocol_of ex_client) pay /\
  cl_state c1 = CSendingResponse /\ cl_chal_seq c1 = 9 /\ cl_chal_data c1 = repeatN 3 300 /\
  cl_state c2 = CConnected /\ cl_client_index c2 = 2 /\ cl_max_clients c2 = 64 /\
  snd (nclient_process_packet c2 pay) = Some [1; 2; 3] /\
  nclient_process_packet c3 pay = (c3, None) /\
  nclient_process_packet c2 (upd pay 5 ((nth 5 pay 0 + 1) mod 256)) = (c2, None) /\
  snd (nclient_process_packet ex_client pay) = None /\
  cl_state c4 = CDisconnected CRByServer /\
  nclient_process_packet c4 pay = (c4, None).
Proof.
  cbv zeta.
  split; [split; [vm_compute; discriminate | eexists; eexists; vm_compute; reflexivity]|].
  split; [split; [vm_compute; discriminate | eexists; eexists; vm_compute; reflexivity]|].
  repeat apply conj; vm_compute; reflexivity.
Qed.

(* the response the client then sends carries the challenge it was given *)
Example ex_response :
  let c1 := fst (nclient_process_packet ex_client (srv_dgram (PChallenge 9 (repeatN 3 300)) 0)) in
  exists c2 d, nclient_update c1 0 = Ok (c2, Some (d, ex_addr)) /\
    d = sealed_dgram (PResponse 9 (repeatN 3 300)) 1 0 (zeros NC_KEY_BYTES) /\ len d = 325 /\ cl_seq c2 = 1.
Proof.
  cbv zeta. eexists. eexists. split; [vm_compute; reflexivity|].
  split; [vm_compute; reflexivity|]. split; [vm_compute; reflexivity | reflexivity].
Qed.

(* ================================================================== *)
Print Assumptions client_inv_init.
Print Assumptions nclient_new_panics_iff.
Print Assumptions nclient_new_panics_iff_32.
Print Assumptions client_inv_step_process.
Print Assumptions client_inv_step_payload.
Print Assumptions client_inv_step_disconnect.
Print Assumptions client_inv_step_update.
Print Assumptions client_no_panic.
Print Assumptions client_update_panics_outside_inv.
Print Assumptions client_inauthentic_is_noop.
Print Assumptions client_unsealed_is_noop_or_window.
Print Assumptions client_unsealed_counterexample.
Print Assumptions client_ignores_requests.
Print Assumptions client_replay_is_noop.
Print Assumptions client_replay_is_noop_sealed.
Print Assumptions client_payload_only_connected.
Print Assumptions client_payload_surfaces.
Print Assumptions client_process_frame.
Print Assumptions client_sequence_increases.
Print Assumptions disconnected_emits_nothing.
Print Assumptions disconnected_payload_err.
Print Assumptions disconnect_idempotent.
Print Assumptions disconnected_frame.
Print Assumptions client_retries.
Print Assumptions client_rate_limited.
Print Assumptions client_failover.
Print Assumptions client_failover_exhausted.
Print Assumptions client_times_out.
Print Assumptions client_stays_alive.
Print Assumptions client_keeps_connecting.
Print Assumptions client_token_expiry.
Print Assumptions client_accepts_challenge.
Print Assumptions client_accepts_keepalive.
Print Assumptions client_connected_keepalive.
Print Assumptions client_denied.
Print Assumptions client_server_disconnect.
Print Assumptions replay_u64max_forgotten.
Print Assumptions ex_first_request.
Print Assumptions ex_second_request.
Print Assumptions client_run_safe.
Print Assumptions client_reachable_safe.
Print Assumptions token_read_client.
Print Assumptions token_generate_client.
Print Assumptions ex_handshake.
Print Assumptions ex_response.
Print Assumptions client_failover_restarts_expiry.
