(* RCarryP.v - the sender side of the multiplicity property (Spec/RMultSpec.v, carry_inv): every
   copy of a message that A's output carries on an unreliable channel is a distinct submission of
   A's application.  With RMultP.sys_unreliable_multiplicity: on a network that does not duplicate,
   a message is obtained at most as many times as it was submitted. *)
From RenetV Require Import Base Consts Varint Packet Channels Conn Server.
From RenetV Require Import CodecSpec RecvSpec SendSpec ConnSpec ConnInvSpec RSysSpec RSysInvSpec RMultSpec.
From RenetV Require Import SMapP ConnBaseP ConnProcP ConnFlushP ConnP RSysBaseP RSysStepP RSysInvP RSysP RMultP.
From RenetV Require AcksP VarintP PacketP RecvRelP RecvUnrelP SMapSendP SendRelP SendUnrelP DisconnectP ConnEncP SliceP.
Require Import Lia ZifyBool ZifyN ZifyNat.
Open Scope N_scope.

Arguments N.add : simpl never.
Arguments N.sub : simpl never.
Arguments N.mul : simpl never.
Arguments N.div : simpl never.
Arguments N.modulo : simpl never.
Arguments N.eqb : simpl never.
Arguments N.ltb : simpl never.
Arguments N.leb : simpl never.
Local Opaque SLICE_SIZE MAX_ACK_RANGES SER_BUFFER NC_MAX_PAYLOAD_BYTES DISCARD_PACKET_SECS VARINT_MAX MAX_NUM_SLICES.

(* ================================================================== *)
(* 1. what a packet value carries, and the serialised form *)

Definition psmall (ch : N) (m : list N) (p : packet) : nat :=
  match p with SmallUnreliable _ c ms => if c =? ch then occ ms m else 0%nat | _ => 0%nat end.
Definition pslice (ch : N) (m : list N) (idx : N) (p : packet) : nat :=
  match p with UnreliableSlice _ c sl => if (c =? ch) && slice_is m idx sl then 1%nat else 0%nat | _ => 0%nat end.

Lemma pkt_small_psmall ch m b : pkt_small ch m b = match from_bytes b with Ok p => psmall ch m p | _ => 0%nat end.
Proof. unfold pkt_small. destruct (from_bytes b) as [[]| |]; reflexivity. Qed.

Lemma pkt_slice_pslice ch m idx b : pkt_slice ch m idx b = match from_bytes b with Ok p => pslice ch m idx p | _ => 0%nat end.
Proof. unfold pkt_slice. destruct (from_bytes b) as [[]| |]; reflexivity. Qed.

(* each serialised packet decodes to its source or not at all *)
Definition decodes_to (p : packet) (b : list N) : Prop := forall p', from_bytes b = Ok p' -> p' = p.

Lemma bytes_le_pkts (g : packet -> nat) pk bytes : Forall2 decodes_to pk bytes ->
  (list_sum (map (fun b => match from_bytes b with Ok p => g p | _ => 0%nat end) bytes) <= list_sum (map g pk))%nat.
Proof.
  induction 1 as [|p b pk bytes Hd _ IH]; [cbn; lia|].
  cbn [map]. rewrite !list_sum_cons.
  destruct (from_bytes b) as [p'| |] eqn:E; [rewrite (Hd p' E)|..]; lia.
Qed.

Lemma Forall2_and_l {A B} (P : A -> Prop) (R : A -> B -> Prop) l l' :
  Forall P l -> Forall2 R l l' -> Forall2 (fun x y => P x /\ R x y) l l'.
Proof.
  intros HP H. induction H as [|x y l l' Hxy _ IH]; [constructor|].
  inversion HP; subst. constructor; auto.
Qed.

Lemma Forall2_impl {A B} (R R' : A -> B -> Prop) l l' :
  (forall x y, R x y -> R' x y) -> Forall2 R l l' -> Forall2 R' l l'.
Proof. intros H. induction 1; constructor; auto. Qed.

(* the flush: the gathered packets, the state of the unreliable channels after it, and the
   serialised packets decode to the gathered ones *)
Lemma flush_decode c c' bytes :
  conn_inv c -> chans_u8 c -> is_disconnected c = false -> get_packets_to_send c = Ok (c', bytes) ->
  exists c1 av pk,
    gather_rel (c_order c) c (c_budget c) c1 av pk /\ c_su c' = c_su c1 /\
    Forall2 decodes_to (flush_pkts c1 pk) bytes.
Proof.
  intros Hi Hu8 Hd E.
  destruct (flush_shape c c' bytes Hi E)
    as [(Hd' & _)|(_ & c1 & av & pk & Hrel & -> & HF2 & Hfits & Hv & Hack)]; [congruence|].
  destruct (gather_facts _ _ _ _ _ _ Hrel Hi) as (Hi1 & Hseq & Hseqs & _ & Hfr & _ & Hpk).
  destruct Hfr as (Hnow & Hsent & Hacks & _ & Hrr & Hru & _ & Hst).
  destruct (gather_emits _ _ _ _ _ _ Hrel Hi) as (Hstat & Hem & f & Hsu).
  destruct (flush_state_frame c1 pk) as (_ & G2 & _).
  exists c1, av, pk. split; [exact Hrel|]. split; [exact G2|].
  assert (Hall : Forall (fun p => emit_ok c p /\ unrel_shape (c_su c) p /\ pkt_fits p /\ ConnEncP.varints_ok p)
                        (flush_pkts c1 pk)).
  { rewrite Forall_forall in Hfits, Hv. rewrite Forall_forall. intros p Hp.
    split; [|split; [|split; [exact (Hfits p Hp)|exact (Hv p Hp)]]].
    - unfold flush_pkts in Hp. apply in_app_or in Hp. destruct Hp as [Hp|Hp].
      + rewrite Forall_forall in Hem, Hpk. destruct (Hpk p Hp) as (_ & Hna & _).
        destruct p; try discriminate; cbn [emit_ok]; apply Hem; exact Hp.
      + assert (Hv' : Forall ConnEncP.varints_ok (flush_pkts c1 pk)) by (rewrite Forall_forall; exact Hv).
        apply Forall_app in Hv'. destruct Hv' as [_ Hv'].
        apply Forall_app in Hack. destruct Hack as [_ Hack].
        rewrite Hacks in *. destruct (c_acks c) as [|ab t] eqn:Ea; cbn [ack_part] in *; [destruct Hp|].
        destruct Hp as [<-|[]].
        inversion Hv' as [|? ? Hv1 _]; subst. inversion Hack as [|? ? Ha1 _]; subst.
        cbn [ConnEncP.varints_ok ConnEncP.ack_ok emit_ok packet_wf] in *. rewrite Ea. tauto.
    - unfold flush_pkts in Hp. apply in_app_or in Hp. destruct Hp as [Hp|Hp].
      + eapply su_step_shape; eauto.
      + destruct (c_acks c1); cbn [ack_part] in Hp; [destruct Hp|]. destruct Hp as [<-|[]]. exact I. }
  eapply Forall2_impl; [|exact (Forall2_and_l _ _ _ _ Hall HF2)].
  intros p b ((Hemit & Hshape & Hfit & Hvar) & Hb) p' Hp'.
  now destruct (emit_decode c p b p' Hi Hu8 Hb Hfit Hvar Hemit Hshape Hp').
Qed.

(* ================================================================== *)
(* 2. what the packets of one unreliable channel's turn carry *)

Lemma occ_filter_le f l m : (occ (filter f l) m <= occ l m)%nat.
Proof.
  induction l as [|x t IH]; [cbn; lia|]. cbn [filter]. destruct (f x); rewrite ?occ_cons; lia.
Qed.

Lemma share_cnt_cons x t m idx : share_cnt (x :: t) m idx = (b2n (shares m idx x) + share_cnt t m idx)%nat.
Proof. unfold share_cnt. cbn [filter]. destruct (shares m idx x); reflexivity. Qed.

Lemma share_cnt_app a b m idx : share_cnt (a ++ b) m idx = (share_cnt a m idx + share_cnt b m idx)%nat.
Proof. unfold share_cnt. rewrite filter_app, app_length. reflexivity. Qed.

Lemma share_cnt_nil m idx : share_cnt [] m idx = 0%nat.
Proof. reflexivity. Qed.

Lemma kept_occ_le q m : forall avail, (occ (SendUnrelP.su_kept avail q) m <= occ q m)%nat.
Proof.
  induction q as [|x t IH]; intros avail; cbn [SendUnrelP.su_kept]; [lia|].
  destruct (avail <? len x); rewrite ?occ_cons; [specialize (IH avail)|specialize (IH (avail - len x))]; lia.
Qed.

Lemma kept_share_le q m idx : forall avail, (share_cnt (SendUnrelP.su_kept avail q) m idx <= share_cnt q m idx)%nat.
Proof.
  induction q as [|x t IH]; intros avail; cbn [SendUnrelP.su_kept]; [lia|].
  destruct (avail <? len x); rewrite ?share_cnt_cons; [specialize (IH avail)|specialize (IH (avail - len x))]; lia.
Qed.

(* the SmallUnreliable packets of channel c0 *)
Lemma psmall_sum c0 ch m pk : Forall (SendUnrelP.unrel_pkt_ch c0) pk ->
  list_sum (map (psmall ch m) pk) = if c0 =? ch then occ (SendUnrelP.small_msgs_of pk) m else 0%nat.
Proof.
  induction 1 as [|p pk Hp _ IH]; [cbn; now destruct (c0 =? ch)|].
  cbn [map]. rewrite list_sum_cons, IH. unfold SendUnrelP.small_msgs_of. cbn [flat_map].
  destruct p as [sq c ms|sq c ms|sq c sl|sq c sl|sq rs]; cbn [SendUnrelP.unrel_pkt_ch psmall] in *; try contradiction; subst c.
  - rewrite occ_app. destruct (c0 =? ch); lia.
  - cbn [app]. destruct (c0 =? ch); lia.
Qed.

Definition cntb {A} (f : A -> bool) (l : list A) : nat := length (filter f l).

Lemma cntb_app {A} (f : A -> bool) a b : cntb f (a ++ b) = (cntb f a + cntb f b)%nat.
Proof. unfold cntb. rewrite filter_app, app_length. reflexivity. Qed.

Lemma pslice_sum c0 ch m idx pk : Forall (SendUnrelP.unrel_pkt_ch c0) pk ->
  list_sum (map (pslice ch m idx) pk) = if c0 =? ch then cntb (slice_is m idx) (SendUnrelP.slices_of pk) else 0%nat.
Proof.
  induction 1 as [|p pk Hp _ IH]; [cbn; now destruct (c0 =? ch)|].
  cbn [map]. rewrite list_sum_cons, IH. unfold SendUnrelP.slices_of. cbn [flat_map].
  destruct p as [sq c ms|sq c ms|sq c sl|sq c sl|sq rs]; cbn [SendUnrelP.unrel_pkt_ch pslice] in *; try contradiction; subst c.
  - cbn [app]. destruct (c0 =? ch); lia.
  - rewrite cntb_app. unfold cntb at 2. cbn [filter]. destruct (c0 =? ch); cbn [andb]; [|lia].
    destruct (slice_is m idx sl); cbn [length]; lia.
Qed.

(* among the slices 0..n-1 of x exactly slice idx can be slice idx of m *)
Lemma cntb_slices_of_one m idx x sid : forall n, n <= num_slices_of x ->
  cntb (slice_is m idx) (map (slice_of x sid) (iota n)) =
  if idx <? n then b2n ((num_slices_of x =? num_slices_of m) &&
                        (if msg_eq_dec (slice_payload x idx) (slice_payload m idx) then true else false))
  else 0%nat.
Proof.
  intros n. induction n as [|n IH] using N.peano_ind; intros Hn.
  - rewrite iota_0. cbn [map]. destruct (N.ltb_spec idx 0); [lia|reflexivity].
  - rewrite <- N.add_1_r, iota_succ, map_app, cntb_app, IH by lia. cbn [map]. unfold cntb at 1. cbn [filter].
    rewrite slice_is_of.
    destruct (N.eqb_spec n idx) as [->|Hne].
    + destruct (N.ltb_spec idx idx); [lia|]. destruct (N.ltb_spec idx (idx + 1)); [|lia].
      cbn [andb]. destruct (_ && _); cbn [length b2n]; lia.
    + cbn [andb length]. destruct (N.ltb_spec idx n); destruct (N.ltb_spec idx (n + 1)); try lia.
Qed.

Lemma cntb_all_slices m idx : forall kept sid,
  (cntb (slice_is m idx) (SendUnrelP.all_slices sid (filter SendUnrelP.is_large kept)) <= share_cnt kept m idx)%nat.
Proof.
  induction kept as [|x t IH]; intros sid; cbn [filter SendUnrelP.all_slices]; [cbn; lia|].
  rewrite share_cnt_cons. destruct (SendUnrelP.is_large x) eqn:El.
  - cbn [SendUnrelP.all_slices]. rewrite cntb_app, cntb_slices_of_one by lia.
    specialize (IH (sid + 1)). unfold shares. unfold SendUnrelP.is_large in El. rewrite El. cbn [andb].
    destruct (idx <? num_slices_of x); cbn [andb]; [|cbn [b2n]]; lia.
  - specialize (IH sid). lia.
Qed.

(* one unreliable channel's turn *)
Lemma su_turn_carry s seq avail s' pk seq' avail' ch m :
  su_inv s -> su_get_packets s seq avail = Ok (s', pk, seq', avail') ->
  su_queue s' = [] /\
  (list_sum (map (psmall ch m) pk) <= if (su_ch s =? ch)%N then occ (su_queue s) m else 0)%nat /\
  forall idx, (list_sum (map (pslice ch m idx) pk) <= if (su_ch s =? ch)%N then share_cnt (su_queue s) m idx else 0)%nat.
Proof.
  intros Hinv E.
  destruct (SendUnrelP.su_carried s seq avail s' pk seq' avail' Hinv E) as (_ & Hsm & Hsl & _ & Hch & _).
  set (kept := SendUnrelP.su_kept avail (su_queue s)) in *.
  assert (Hq : su_queue s' = []).
  { rewrite (SendUnrelP.su_get_packets_spec s seq avail Hinv) in E. unfold SendUnrelP.su_spec in E.
    inversion E; subst. reflexivity. }
  split; [exact Hq|]. split.
  - rewrite (psmall_sum _ _ _ _ Hch), Hsm. destruct (su_ch s =? ch); [|lia].
    pose proof (occ_filter_le (fun m0 => negb (SendUnrelP.is_large m0)) kept m).
    pose proof (kept_occ_le (su_queue s) m avail). fold kept in H0. lia.
  - intros idx. rewrite (pslice_sum _ _ _ _ _ Hch), Hsl. destruct (su_ch s =? ch); [|lia].
    pose proof (cntb_all_slices m idx kept (su_sliced_id s)).
    pose proof (kept_share_le (su_queue s) m idx avail). fold kept in H0. lia.
Qed.

(* ================================================================== *)
(* 3. the whole flush *)

Lemma rel_carries_nothing ch m idx p : is_rel_packet p = true -> psmall ch m p = 0%nat /\ pslice ch m idx p = 0%nat.
Proof. destruct p; cbn [is_rel_packet psmall pslice]; intros; try discriminate; auto. Qed.

Lemma list_sum_zero {A} (g : A -> nat) l : Forall (fun x => g x = 0%nat) l -> list_sum (map g l) = 0%nat.
Proof. induction 1 as [|x l Hx _ IH]; [reflexivity|]. cbn [map]. rewrite list_sum_cons. lia. Qed.

Lemma gather_carry ord c avail c1 av pk :
  gather_rel ord c avail c1 av pk -> conn_inv c -> forall ch m,
  (list_sum (map (psmall ch m) pk) + qocc (c_su c1) ch m <= qocc (c_su c) ch m)%nat /\
  forall idx, (list_sum (map (pslice ch m idx) pk) + qshare (c_su c1) ch m idx <= qshare (c_su c) ch m idx)%nat.
Proof.
  induction 1 as [c avail|ch0 t c avail s s' pk seq' avail1 c2 avail2 pk2 Hs Eg Hrel IH
                         |ch0 t c avail s s' pk seq' avail1 c2 avail2 pk2 Hs Eg Hrel IH]; intros Hi ch m.
  - cbn [map list_sum fold_right]. split; [lia|intros; lia].
  - destruct (gather_step_rel c ch0 s avail s' pk seq' avail1 Hi Hs Eg) as (Hi' & _).
    destruct (inv_find_sr _ _ _ Hi Hs) as [Hsi Hch].
    destruct (SendRelP.sr_get_packets_facts _ _ _ _ _ _ _ _ Hsi Eg) as (new & T).
    assert (Hrelp : Forall (fun p => is_rel_packet p = true) pk).
    { eapply Forall_impl; [|exact (SendRelP.tf_pkts _ _ _ _ _ _ _ _ T)]. intros p. apply pkt_ok_is_rel. }
    destruct (IH Hi' ch m) as [A B]. cbn [with_seq with_sr c_su] in A, B.
    rewrite !map_app, !list_sum_app. split.
    + rewrite (list_sum_zero (psmall ch m) pk); [lia|].
      eapply Forall_impl; [|exact Hrelp]. intros p Hp. now destruct (rel_carries_nothing ch m 0 p Hp).
    + intros idx. rewrite map_app, list_sum_app. specialize (B idx).
      rewrite (list_sum_zero (pslice ch m idx) pk); [lia|].
      eapply Forall_impl; [|exact Hrelp]. intros p Hp. now destruct (rel_carries_nothing ch m idx p Hp).
  - destruct (gather_step_unrel c ch0 s avail s' pk seq' avail1 Hi Hs Eg) as (Hi' & _).
    destruct (inv_find_su _ _ _ Hi Hs) as [Hsi Hch].
    destruct (su_turn_carry s (c_seq c) avail s' pk seq' avail1 ch m Hsi Eg) as (Hq & Hsm & Hsl).
    destruct (IH Hi' ch m) as [A B]. cbn [with_seq with_su c_su] in A, B.
    unfold qocc, qshare in *. rewrite sm_find_insert in A, B. rewrite Hch in Hsm, Hsl.
    rewrite !map_app, !list_sum_app.
    destruct (N.eqb_spec ch ch0) as [->|Hne].
    + rewrite Hs. rewrite N.eqb_refl in Hsm, Hsl. rewrite Hq in A, B. split.
      * cbn in A. lia.
      * intros idx. rewrite map_app, list_sum_app. specialize (B idx). specialize (Hsl idx). cbn in B. lia.
    + destruct (N.eqb_spec ch0 ch) as [Heq|_]; [congruence|]. split.
      * lia.
      * intros idx. rewrite map_app, list_sum_app. specialize (B idx). specialize (Hsl idx). lia.
Qed.

Lemma out_small_total_app oa more ch m :
  out_small_total (oa ++ more) ch m = (out_small_total oa ch m + out_small_total more ch m)%nat.
Proof. unfold out_small_total. now rewrite map_app, list_sum_app. Qed.

Lemma out_slice_total_app oa more ch m idx :
  out_slice_total (oa ++ more) ch m idx = (out_slice_total oa ch m idx + out_slice_total more ch m idx)%nat.
Proof. unfold out_slice_total. now rewrite map_app, list_sum_app. Qed.

Lemma map_ext_eq {A B} (f g : A -> B) l : (forall x, f x = g x) -> map f l = map g l.
Proof. intros H. apply map_ext. exact H. Qed.

Lemma flush_carry c c' bytes :
  conn_inv c -> chans_u8 c -> is_disconnected c = false -> get_packets_to_send c = Ok (c', bytes) ->
  forall ch m,
  (out_small_total bytes ch m + qocc (c_su c') ch m <= qocc (c_su c) ch m)%nat /\
  forall idx, (out_slice_total bytes ch m idx + qshare (c_su c') ch m idx <= qshare (c_su c) ch m idx)%nat.
Proof.
  intros Hi Hu8 Hd E ch m.
  destruct (flush_decode c c' bytes Hi Hu8 Hd E) as (c1 & av & pk & Hrel & Hsu & Hdec).
  destruct (gather_carry _ _ _ _ _ _ Hrel Hi ch m) as [A B]. rewrite Hsu.
  assert (Hack : forall g : packet -> nat, (forall sq rs, g (Ack sq rs) = 0%nat) ->
            list_sum (map g (flush_pkts c1 pk)) = list_sum (map g pk)).
  { intros g Hg. unfold flush_pkts. rewrite map_app, list_sum_app.
    destruct (c_acks c1); cbn [ack_part map list_sum fold_right]; rewrite ?Hg; lia. }
  split.
  - unfold out_small_total. rewrite (map_ext_eq _ _ bytes (pkt_small_psmall ch m)).
    pose proof (bytes_le_pkts (psmall ch m) _ _ Hdec) as Hle. rewrite Hack in Hle by reflexivity. lia.
  - intros idx. unfold out_slice_total. rewrite (map_ext_eq _ _ bytes (pkt_slice_pslice ch m idx)).
    pose proof (bytes_le_pkts (pslice ch m idx) _ _ Hdec) as Hle. rewrite Hack in Hle by reflexivity.
    specialize (B idx). lia.
Qed.

(* ================================================================== *)
(* 4. one system step keeps carry_inv *)

Definition carry_at (su : list (N * send_unrel)) (oa : list (list N)) (sent : chan_log) : Prop :=
  forall ch m,
    (out_small_total oa ch m + qocc su ch m <= occ (log_get sent ch) m)%nat /\
    forall idx, (out_slice_total oa ch m idx + qshare su ch m idx <= share_cnt (log_get sent ch) m idx)%nat.

Lemma carry_inv_unfold s : carry_inv s <-> carry_at (c_su (ra s)) (out_a s) (sent_a s).
Proof. reflexivity. Qed.

Lemma carry_at_log_add su oa sent ch0 m0 : carry_at su oa sent -> carry_at su oa (log_add sent ch0 m0).
Proof.
  intros H ch m. destruct (H ch m) as [A B]. rewrite log_get_add. destruct (ch =? ch0).
  - rewrite occ_app. split; [lia|]. intros idx. specialize (B idx). rewrite share_cnt_app. lia.
  - auto.
Qed.

Lemma carry_sender_api c op c' out oa sent :
  conn_inv c -> chans_u8 c -> is_process op = false -> cstep c op = Ok (c', out) ->
  carry_at (c_su c) oa sent -> carry_at (c_su c') (oa ++ outs_of out) (sent_upd c c' op sent).
Proof.
  intros Hi Hu8 Hnp E H.
  assert (Hsame : forall c2, c_su c2 = c_su c -> carry_at (c_su c2) (oa ++ []) sent).
  { intros c2 ->. now rewrite app_nil_r. }
  assert (Hdw : forall r, carry_at (c_su (disconnect_with c r)) (oa ++ []) sent).
  { intros r. destruct (disconnect_with_fields c r) as (_ & A2 & _). now apply Hsame. }
  destruct op as [ch0 m0|ch0|dt|b| | | | |]; try discriminate; cbn [cstep] in E.
  - (* CSend *)
    destruct (send_message c ch0 m0) as [c1| |] eqn:E1; cbn [bind] in E; try discriminate.
    injection E as <- <-. cbn [outs_of sent_upd]. unfold send_message in E1.
    destruct (is_disconnected c) eqn:Hd.
    { injection E1 as <-. cbn [negb andb]. now apply Hsame. }
    destruct (sm_find ch0 (c_sr c)) as [s|] eqn:Hs.
    + destruct (sr_send s m0) as [s'| |] eqn:Es; try discriminate.
      * injection E1 as <-. cbn [with_sr c_su].
        assert (Hd' : is_disconnected (with_sr c (sm_insert ch0 s' (c_sr c))) = false) by exact Hd.
        rewrite Hd'. cbn [negb andb]. rewrite app_nil_r. now apply carry_at_log_add.
      * injection E1 as <-. rewrite DisconnectP.disconnect_with_is_disconnected. cbn [negb andb]. apply Hdw.
    + destruct (sm_find ch0 (c_su c)) as [s|] eqn:Hu; try discriminate.
      injection E1 as <-. cbn [with_su c_su].
      assert (Hd' : is_disconnected (with_su c (sm_insert ch0 (su_send s m0) (c_su c))) = false) by exact Hd.
      rewrite Hd'. cbn [negb andb]. rewrite app_nil_r.
      intros ch m. destruct (H ch m) as [A B]. unfold qocc, qshare in *.
      rewrite sm_find_insert, log_get_add. destruct (N.eqb_spec ch ch0) as [->|Hne]; [|auto].
      rewrite Hu in A, B. rewrite occ_app. unfold su_send.
      destruct (su_max s <? su_mem s + len m0); cbn [su_queue].
      * split; [lia|]. intros idx. specialize (B idx). rewrite share_cnt_app. lia.
      * rewrite occ_app. split; [lia|]. intros idx. specialize (B idx). rewrite !share_cnt_app. lia.
  - (* CRecv *)
    destruct (receive_message c ch0) as [[c1 mo]| |] eqn:E1; cbn [bind] in E; try discriminate.
    injection E as <- <-. cbn [outs_of sent_upd].
    destruct (channel_frame_receive c ch0 c1 mo E1) as (_ & _ & A2 & _). now apply Hsame.
  - (* CUpdate *)
    destruct (update c dt) as [c1| |] eqn:E1; cbn [bind] in E; try discriminate.
    injection E as <- <-. cbn [outs_of sent_upd].
    destruct (update_unfold c dt c1 E1) as (ru1 & sent1 & _ & _ & ->). now apply Hsame.
  - (* CFlush *)
    destruct (get_packets_to_send c) as [[c1 p]| |] eqn:E1; cbn [bind] in E; try discriminate.
    injection E as <- <-. cbn [outs_of sent_upd].
    destruct (is_disconnected c) eqn:Hd.
    + rewrite (DisconnectP.get_packets_to_send_disconnected_noop c Hd) in E1. injection E1 as <- <-. now apply Hsame.
    + intros ch m. destruct (H ch m) as [A B]. destruct (flush_carry c c1 p Hi Hu8 Hd E1 ch m) as [FA FB].
      rewrite out_small_total_app. split; [lia|]. intros idx. specialize (B idx). specialize (FB idx).
      rewrite out_slice_total_app. lia.
  - injection E as <- <-. cbn [outs_of sent_upd]. unfold set_connected. destruct (is_disconnected c); now apply Hsame.
  - injection E as <- <-. cbn [outs_of sent_upd]. unfold set_connecting. destruct (is_disconnected c); now apply Hsame.
  - injection E as <- <-. cbn [outs_of sent_upd]. apply Hdw.
  - injection E as <- <-. cbn [outs_of sent_upd]. apply Hdw.
Qed.

Lemma process_packet_su c bytes c' :
  conn_inv c -> (forall p, from_bytes bytes = Ok p -> packet_wf p) ->
  process_packet c bytes = Ok c' -> c_su c' = c_su c.
Proof.
  intros Hi Hwf Ep.
  destruct (process_packet_cases c bytes) as [(_ & E0)|[(_ & e & _ & E0)|(Hd & p & Hp & E0)]].
  - rewrite E0 in Ep. now injection Ep as <-.
  - rewrite E0 in Ep. injection Ep as <-. now destruct (disconnect_with_fields c (RPacketDeserialization e)) as (_ & A2 & _).
  - specialize (Hwf p Hp). rewrite E0 in Ep.
    set (c1 := with_acks c (add_pending_ack (c_acks c) (packet_seq p))) in *.
    assert (Hi1 : conn_inv c1) by (apply inv_add_pending_ack; [exact Hi|now apply packet_wf_seq]).
    destruct (is_ack p) eqn:Hack.
    + destruct p as [| | | |sq rs]; try discriminate.
      destruct (process_ack_spec c1 sq rs Hi1 (packet_wf_ack_ranges _ _ Hwf)) as (c2 & l & E2 & _ & Hfr & _).
      rewrite E2 in Ep. injection Ep as <-. destruct Hfr as (_ & _ & _ & F4 & _). exact F4.
    + destruct (process_data_spec c1 p Hi1 Hwf Hack) as (c2 & E2 & _ & Hfr).
      rewrite Ep in E2. injection E2 as <-. destruct Hfr as (_ & _ & _ & F4 & _). exact F4.
Qed.

Lemma carry_inv_step cfg_ab cfg_ba s o s' :
  sys_inv cfg_ab cfg_ba s -> sys_step s o = Ok s' -> carry_inv s -> carry_inv s'.
Proof.
  intros ([Ha Hb Hua Hub Hwa Hwb] & _ & _) E M. apply carry_inv_unfold in M. apply carry_inv_unfold.
  destruct o as [x op|x i]; cbn [sys_step] in E.
  - destruct (is_process op) eqn:Hnp; [injection E as <-; exact M|].
    destruct x; cbn [conn_of] in E.
    + destruct (cstep (ra s) op) as [[c' out]| |] eqn:Ec; cbn [bind] in E; try discriminate.
      injection E as <-. cbn [upd_side ra out_a sent_a].
      exact (carry_sender_api _ _ _ _ _ _ Ha Hua Hnp Ec M).
    + destruct (cstep (rb s) op) as [[c' out]| |] eqn:Ec; cbn [bind] in E; try discriminate.
      injection E as <-. cbn [upd_side ra out_a sent_a]. exact M.
  - destruct x.
    + destruct (nth_error (out_b s) i) as [bytes|] eqn:En; [|injection E as <-; exact M].
      destruct (process_packet (ra s) bytes) as [c'| |] eqn:Ep; cbn [bind] in E; try discriminate.
      injection E as <-. cbn [ra out_a sent_a].
      rewrite (process_packet_su (ra s) bytes c' Ha); [exact M| |exact Ep].
      intros p Hp. eapply Hwb; [eapply nth_error_In; eauto|exact Hp].
    + destruct (nth_error (out_a s) i) as [bytes|] eqn:En; [|injection E as <-; exact M].
      destruct (process_packet (rb s) bytes) as [c'| |] eqn:Ep; cbn [bind] in E; try discriminate.
      injection E as <-. cbn [ra out_a sent_a]. exact M.
Qed.

Lemma carry_inv_run cfg_ab cfg_ba ops : forall s s',
  sys_inv cfg_ab cfg_ba s -> sys_run s ops = Ok s' ->
  carry_inv s /\ carry_inv (flip s) -> carry_inv s' /\ carry_inv (flip s').
Proof.
  induction ops as [|o t IH]; intros s s' Hs E [M1 M2]; cbn [sys_run] in E.
  - injection E as <-. auto.
  - destruct (sys_step s o) as [s1| |] eqn:E1; cbn [bind] in E; try discriminate.
    apply (IH s1 s'); [eapply sys_inv_step; eauto|exact E|]. split.
    + eapply carry_inv_step; eauto.
    + destruct Hs as (Hbase & Dab & Dba).
      apply (carry_inv_step cfg_ba cfg_ab (flip s) (flip_op o) (flip s1)); [|now apply sys_step_flip_ok|exact M2].
      split; [now apply base_inv_flip|]. split; [exact Dba|]. now rewrite flip_flip.
Qed.

Lemma carry_inv_fresh s : out_a s = [] -> Forall su_fresh (c_su (ra s)) -> carry_inv s.
Proof.
  intros Ho Hf. apply carry_inv_unfold. rewrite Ho. intros ch m. unfold qocc, qshare.
  destruct (sm_find ch (c_su (ra s))) as [su|] eqn:Hs.
  - pose proof (Forall_sm_find _ _ _ _ Hf Hs) as A. unfold su_fresh in A. cbn [snd] in A. rewrite A.
    split; [cbn; lia|intros idx; cbn; lia].
  - split; [cbn; lia|intros idx; cbn; lia].
Qed.

Lemma sys_init_carry ba bb cfg_ab cfg_ba s0 :
  cfg_u8 cfg_ab -> cfg_u8 cfg_ba -> sys_init ba bb cfg_ab cfg_ba = Ok s0 -> carry_inv s0 /\ carry_inv (flip s0).
Proof.
  intros Hab Hba E. unfold sys_init in E.
  destruct (conn_new ba cfg_ab cfg_ba) as [a| |] eqn:Ea; cbn [bind] in E; try discriminate.
  destruct (conn_new bb cfg_ba cfg_ab) as [b| |] eqn:Eb; cbn [bind] in E; try discriminate.
  injection E as <-.
  destruct (conn_new_fresh _ _ _ _ Ea Hab) as (_ & _ & _ & A2 & _).
  destruct (conn_new_fresh _ _ _ _ Eb Hba) as (_ & _ & _ & B2 & _).
  split; apply carry_inv_fresh; cbn [flip ra out_a]; auto.
Qed.

(* ================================================================== *)
(* 5. the theorems *)

(* (S1) every copy of m that A's output carries on channel ch is a distinct submission: a
   position of a SmallUnreliable packet per submission of m, and a packet with slice idx of m per
   submitted sliced message whose slice idx is that of m *)
Theorem sys_unreliable_carried : forall ba bb cfg_ab cfg_ba s0 ops s,
  cfg_u8 cfg_ab -> cfg_u8 cfg_ba ->
  sys_init ba bb cfg_ab cfg_ba = Ok s0 -> sys_run s0 ops = Ok s -> Forall (sysop_ok cfg_ab cfg_ba) ops ->
  forall ch m,
    (out_small_total (out_a s) ch m <= count_occ msg_eq_dec (log_get (sent_a s) ch) m)%nat /\
    forall idx, (out_slice_total (out_a s) ch m idx <= share_cnt (log_get (sent_a s) ch) m idx)%nat.
Proof.
  intros ba bb cfg_ab cfg_ba s0 ops s Hab Hba Hinit Hrun _ ch m.
  assert (C : carry_inv s).
  { apply (carry_inv_run cfg_ab cfg_ba ops s0 s); [|exact Hrun|].
    - exact (sys_init_inv ba bb cfg_ab cfg_ba s0 Hab Hba Hinit).
    - exact (sys_init_carry ba bb cfg_ab cfg_ba s0 Hab Hba Hinit). }
  apply carry_inv_unfold in C. destruct (C ch m) as [A B]. unfold occ in A. split; [lia|].
  intros idx. specialize (B idx). lia.
Qed.

(* the log of accepted submissions against the calls themselves, with multiplicity *)
Lemma sent_a_count ops : forall s s' ch m, sys_run s ops = Ok s' ->
  (occ (log_get (sent_a s') ch) m <= occ (log_get (sent_a s) ch) m + occ (submitted SA ch ops) m)%nat.
Proof.
  induction ops as [|o t IH]; intros s s' ch m E; cbn [sys_run] in E.
  - injection E as <-. cbn [submitted]. lia.
  - destruct (sys_step s o) as [s1| |] eqn:E1; cbn [bind] in E; try discriminate.
    specialize (IH s1 s' ch m E).
    destruct (sys_step_sent_a _ _ _ E1) as [Hs|(c & m0 & -> & Hs)]; rewrite Hs in IH.
    + assert (Hle : (occ (submitted SA ch t) m <= occ (submitted SA ch (o :: t)) m)%nat).
      { destruct o as [y op|y i]; cbn [submitted]; [|lia]. destruct op; try lia.
        destruct (side_eqb SA y && (ch0 =? ch)); rewrite ?occ_cons; lia. }
      lia.
    + cbn [submitted side_eqb andb]. rewrite log_get_add in IH. destruct (N.eqb_spec ch c) as [->|Hne].
      * rewrite N.eqb_refl. rewrite occ_app, occ_one in IH. rewrite occ_cons. lia.
      * destruct (N.eqb_spec c ch); [congruence|]. lia.
Qed.

(* (M2') on a network that does not duplicate, a message that travels whole is obtained at most
   as many times as A's application submitted it; a sliced message at most as many times as
   sliced messages with the same slice idx were submitted, for every idx *)
Theorem non_duplicating_network_submitted : forall ba bb cfg_ab cfg_ba s0 ops s,
  cfg_u8 cfg_ab -> cfg_u8 cfg_ba ->
  sys_init ba bb cfg_ab cfg_ba = Ok s0 -> sys_run s0 ops = Ok s -> Forall (sysop_ok cfg_ab cfg_ba) ops ->
  forall ch, chan_kind cfg_ab ch = Some TUnreliable -> ordf_of cfg_ab ch = None ->
  NoDup (dlv_b s) ->
  forall m,
    (len m <= SLICE_SIZE ->
       (count_occ msg_eq_dec (log_get (got_b s) ch) m <= count_occ msg_eq_dec (log_get (sent_a s) ch) m)%nat /\
       (count_occ msg_eq_dec (log_get (got_b s) ch) m <= count_occ msg_eq_dec (submitted SA ch ops) m)%nat) /\
    (SLICE_SIZE < len m -> forall idx, idx < num_slices_of m ->
       (count_occ msg_eq_dec (log_get (got_b s) ch) m <= share_cnt (log_get (sent_a s) ch) m idx)%nat).
Proof.
  intros ba bb cfg_ab cfg_ba s0 ops s Hab Hba Hinit Hrun Hops ch Hk Hord Hnd m.
  destruct (non_duplicating_network_bound ba bb cfg_ab cfg_ba s0 ops s Hab Hba Hinit Hrun Hops ch Hk Hord Hnd m) as [A B].
  destruct (sys_unreliable_carried ba bb cfg_ab cfg_ba s0 ops s Hab Hba Hinit Hrun Hops ch m) as [C D].
  split.
  - intros Hs. specialize (A Hs). split; [lia|].
    pose proof (sent_a_count ops s0 s ch m Hrun) as Hc.
    assert (H0 : log_get (sent_a s0) ch = []).
    { unfold sys_init in Hinit.
      destruct (conn_new ba cfg_ab cfg_ba); cbn [bind] in Hinit; try discriminate.
      destruct (conn_new bb cfg_ba cfg_ab); cbn [bind] in Hinit; try discriminate.
      injection Hinit as <-. reflexivity. }
    rewrite H0 in Hc. unfold occ in Hc. cbn [count_occ] in Hc. lia.
  - intros Hl idx Hidx. specialize (B Hl idx Hidx). specialize (D idx). lia.
Qed.

(* (M2) in terms of the submissions: m submitted once and, if it is sliced, some slice of m is not
   a slice (same index, same slice count) of any other submitted message *)
Theorem submitted_once_obtained_at_most_once : forall ba bb cfg_ab cfg_ba s0 ops s,
  cfg_u8 cfg_ab -> cfg_u8 cfg_ba ->
  sys_init ba bb cfg_ab cfg_ba = Ok s0 -> sys_run s0 ops = Ok s -> Forall (sysop_ok cfg_ab cfg_ba) ops ->
  forall ch, chan_kind cfg_ab ch = Some TUnreliable -> ordf_of cfg_ab ch = None ->
  NoDup (dlv_b s) ->
  forall m, count_occ msg_eq_dec (log_get (sent_a s) ch) m = 1%nat ->
    (len m <= SLICE_SIZE \/
     exists idx, idx < num_slices_of m /\ (share_cnt (log_get (sent_a s) ch) m idx <= 1)%nat) ->
    (count_occ msg_eq_dec (log_get (got_b s) ch) m <= 1)%nat.
Proof.
  intros ba bb cfg_ab cfg_ba s0 ops s Hab Hba Hinit Hrun Hops ch Hk Hord Hnd m Hone Hcase.
  destruct (non_duplicating_network_submitted ba bb cfg_ab cfg_ba s0 ops s Hab Hba Hinit Hrun Hops ch Hk Hord Hnd m) as [A B].
  destruct (N.le_gt_cases (len m) SLICE_SIZE) as [Hs|Hl].
  - destruct (A Hs) as [A1 _]. lia.
  - destruct Hcase as [Hs|(idx & Hidx & Hsh)]; [lia|]. specialize (B Hl idx Hidx). lia.
Qed.

(* carried_once follows from the submissions, so that RMultP.non_duplicating_network_at_most_once applies *)
Theorem submitted_once_carried_once : forall ba bb cfg_ab cfg_ba s0 ops s,
  cfg_u8 cfg_ab -> cfg_u8 cfg_ba ->
  sys_init ba bb cfg_ab cfg_ba = Ok s0 -> sys_run s0 ops = Ok s -> Forall (sysop_ok cfg_ab cfg_ba) ops ->
  forall ch m, (count_occ msg_eq_dec (log_get (sent_a s) ch) m <= 1)%nat ->
    (len m <= SLICE_SIZE \/
     exists idx, idx < num_slices_of m /\ (share_cnt (log_get (sent_a s) ch) m idx <= 1)%nat) ->
    carried_once (out_a s) ch m.
Proof.
  intros ba bb cfg_ab cfg_ba s0 ops s Hab Hba Hinit Hrun Hops ch m Hone Hcase.
  destruct (sys_unreliable_carried ba bb cfg_ab cfg_ba s0 ops s Hab Hba Hinit Hrun Hops ch m) as [C D].
  unfold carried_once. destruct (N.leb_spec (len m) SLICE_SIZE) as [Hs|Hl].
  - lia.
  - destruct Hcase as [Hs|(idx & Hidx & Hsh)]; [lia|]. exists idx. split; [exact Hidx|]. specialize (D idx). lia.
Qed.

(* ---------- non-vacuity, on the runs of RMultP ---------- *)
Example carried_example :
  match run_from_init ux_cfg ux_ops_twice with
  | Ok s => Some (out_small_total (out_a s) 0 sx_small, count_occ msg_eq_dec (log_get (sent_a s) 0) sx_small,
                  map (out_slice_total (out_a s) 0 sx_big) [0; 1; 2],
                  map (share_cnt (log_get (sent_a s) 0) sx_big) [0; 1; 2; 3])
  | _ => None
  end = Some (1%nat, 1%nat, [1; 1; 1]%nat, [1; 1; 1; 0]%nat).
Proof. vm_compute. reflexivity. Qed.

Print Assumptions sys_unreliable_carried.
Print Assumptions non_duplicating_network_submitted.
Print Assumptions submitted_once_obtained_at_most_once.
Print Assumptions submitted_once_carried_once.
Print Assumptions carried_example.
