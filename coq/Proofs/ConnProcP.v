(* ConnProcP.v - process_packet on arbitrary bytes: the loops (process_rel_msgs,
   process_unrel_msgs, collect_new_acks, ack_ids, apply_acks), then process_parsed / process_packet. *)
From RenetV Require Import Base Consts Varint Packet Channels Conn Server.
From RenetV Require Import CodecSpec RecvSpec SendSpec ConnSpec ConnInvSpec.
From RenetV Require Import SMapP ConnBaseP.
From RenetV Require AcksP VarintP PacketP RecvRelP RecvUnrelP SMapSendP SendRelP SendUnrelP DisconnectP.
Require Import Lia ZifyBool ZifyN ZifyNat.
Open Scope N_scope.

Arguments N.add : simpl never.
Arguments N.sub : simpl never.
Arguments N.mul : simpl never.
Arguments N.div : simpl never.
Arguments N.modulo : simpl never.
Arguments N.eqb : simpl never.
Arguments N.ltb : simpl never.
Arguments N.leb : simpl never.
Local Opaque SLICE_SIZE MAX_ACK_RANGES SER_BUFFER NC_MAX_PAYLOAD_BYTES DISCARD_PACKET_SECS VARINT_MAX.

(* ================================================================== *)
(* data packets: the two message loops *)

Lemma process_rel_msgs_safe ms : forall r, rr_inv r ->
  match process_rel_msgs r ms with
  | Ok r' => rr_inv r'
  | Err e => e = ReliableChannelMaxMemoryReached
  | Panic _ => False
  end.
Proof.
  induction ms as [|[id m] t IH]; intros r Hr; cbn [process_rel_msgs]; [exact Hr|].
  pose proof (RecvRelP.rr_process_message_safe r m id Hr) as H.
  destruct (rr_process_message r m id) as [r'|e|s]; cbn [bind]; [|exact H|exact H].
  apply IH. apply H.
Qed.

Lemma process_unrel_msgs_safe now ms : forall r, ru_inv now r -> ru_inv now (process_unrel_msgs r ms).
Proof.
  induction ms as [|m t IH]; intros r Hr; cbn [process_unrel_msgs]; [exact Hr|].
  apply IH. apply RecvUnrelP.ru_process_message_safe. exact Hr.
Qed.

(* ================================================================== *)
(* Ack packets: which tracked packets are newly acknowledged *)

Lemma keys_in_range_in a b sent x :
  In x (keys_in_range a b sent) <-> In x (map fst sent) /\ a <= x /\ x < b.
Proof.
  induction sent as [|[s v] t IH]; cbn [keys_in_range map fst In]; [tauto|].
  destruct (N.leb_spec a s), (N.ltb_spec s b); cbn [andb In]; rewrite IH; intuition lia.
Qed.

Lemma keys_in_range_nodup a b sent : NoDup (map fst sent) -> NoDup (keys_in_range a b sent).
Proof.
  induction sent as [|[s v] t IH]; cbn [keys_in_range map fst]; intros H; [constructor|].
  inversion H; subst.
  destruct ((a <=? s) && (s <? b)); [|auto].
  constructor; [|auto]. rewrite keys_in_range_in. tauto.
Qed.

Lemma collect_new_acks_spec sent : NoDup (map fst sent) -> forall rs lo, ranges_wf lo rs ->
  exists l, collect_new_acks rs sent = Ok l /\ NoDup l /\
            forall x, In x l <-> In x (map fst sent) /\ in_ranges x rs.
Proof.
  intros Hnd. induction rs as [|[a b] t IH]; intros lo Hwf; cbn [collect_new_acks].
  - exists []. split; [reflexivity|]. split; [constructor|]. intros x. cbn [In in_ranges]. tauto.
  - cbn [ranges_wf] in Hwf. destruct Hwf as (H1 & H2 & H3).
    destruct (N.ltb_spec b a); [lia|].
    destruct (IH _ H3) as (l & E & Hl & Hin). rewrite E. cbn [bind].
    eexists; split; [reflexivity|]. split.
    + apply SendRelP.NoDup_app_intro; [now apply keys_in_range_nodup|exact Hl|].
      intros x Hx Hx'. apply keys_in_range_in in Hx. apply Hin in Hx'.
      pose proof (AcksP.in_ranges_lo _ _ _ H3 (proj2 Hx')). lia.
    + intros x. rewrite in_app_iff, keys_in_range_in, Hin. cbn [in_ranges]. tauto.
Qed.

(* ================================================================== *)
(* Ack packets: releasing the messages a tracked packet carried *)

Lemma kind_of_ext s s' j : sm_find j (sr_unacked s') = sm_find j (sr_unacked s) -> kind_of s' j = kind_of s j.
Proof. unfold kind_of. intros ->. reflexivity. Qed.

Lemma ack_ids_safe now ids : forall s, sr_inv now s -> Forall (id_small_ok s) ids ->
  exists s', ack_ids s ids = Ok s' /\ sr_inv now s' /\ sr_next_id s' = sr_next_id s /\
    sr_ch s' = sr_ch s /\
    (forall j, ~ In j ids -> sm_find j (sr_unacked s') = sm_find j (sr_unacked s)) /\
    (forall j, kind_of s' j = kind_of s j \/ kind_of s' j = None).
Proof.
  induction ids as [|id t IH]; intros s Hs Hids; cbn [ack_ids].
  - exists s. split; [reflexivity|]. split; [exact Hs|]. split; [reflexivity|].
    split; [reflexivity|]. split; [reflexivity|]. intros j. now left.
  - inversion Hids as [|? ? [Hlt Hk] Ht]; subst.
    destruct (SendRelP.sr_ack_message_safe now s id Hs Hk) as (s1 & E & Hs1 & Hnone & Hother & _ & Hnext).
    rewrite E. cbn [bind].
    assert (Hst : kind_stable s s1).
    { split; [lia|]. intros j _. destruct (N.eq_dec j id) as [->|Hne]; [now right|].
      left. apply kind_of_ext. now apply Hother. }
    assert (Ht1 : Forall (id_small_ok s1) t).
    { eapply Forall_impl; [|exact Ht]. intros j. now apply id_small_ok_stable. }
    destruct (IH s1 Hs1 Ht1) as (s' & E' & Hs' & Hn' & Hc' & Ho' & Hk').
    exists s'. split; [exact E'|]. split; [exact Hs'|]. split; [lia|].
    split; [rewrite Hc'; apply (SendRelP.sr_ack_message_config _ _ _ E)|].
    split.
    + intros j Hj. cbn [In] in Hj. rewrite Ho' by tauto. apply Hother. intros ->. tauto.
    + intros j. destruct (Hk' j) as [F|F]; [|now right].
      rewrite F. destruct (N.eq_dec j id) as [->|Hne]; [now right|].
      left. apply kind_of_ext. now apply Hother.
Qed.

(* everything apply_ack / apply_acks leave alone *)
Definition frame_ack (c c' : conn) : Prop :=
  c_seq c' = c_seq c /\ c_now c' = c_now c /\ c_order c' = c_order c /\ c_su c' = c_su c /\
  c_ru c' = c_ru c /\ c_rr c' = c_rr c /\ c_budget c' = c_budget c /\ c_status c' = c_status c.

Lemma frame_ack_refl c : frame_ack c c.
Proof. repeat split. Qed.

Lemma frame_ack_trans c1 c2 c3 : frame_ack c1 c2 -> frame_ack c2 c3 -> frame_ack c1 c3.
Proof.
  intros (A1 & A2 & A3 & A4 & A5 & A6 & A7 & A8) (B1 & B2 & B3 & B4 & B5 & B6 & B7 & B8).
  repeat split; congruence.
Qed.

(* what happens to the reliable send channels when the record [info] is acknowledged:
   every channel survives, keeps its id counter, and a message disappears only if the
   record lists it *)
Definition sr_released (sr sr' : list (N * send_rel)) (info : sent_info) : Prop :=
  forall ch, match sm_find ch sr with
             | None => sm_find ch sr' = None
             | Some s => exists s', sm_find ch sr' = Some s' /\ sr_next_id s' = sr_next_id s /\
                           forall id, (kind_of s' id = kind_of s id) \/
                                      (kind_of s' id = None /\ info_lists info ch id)
             end.

Lemma sr_released_same sr info : sr_released sr sr info.
Proof. intros ch. destruct (sm_find ch sr) as [s|]; [|reflexivity]. exists s. auto. Qed.

Lemma sr_released_insert sr ch s s' info :
  sm_find ch sr = Some s -> sr_next_id s' = sr_next_id s ->
  (forall id, kind_of s' id = kind_of s id \/ (kind_of s' id = None /\ info_lists info ch id)) ->
  sr_released sr (sm_insert ch s' sr) info.
Proof.
  intros Hf Hn Hk c. rewrite sm_find_insert. destruct (N.eqb_spec c ch) as [->|Hne].
  - rewrite Hf. exists s'. auto.
  - destruct (sm_find c sr) as [s0|]; [|reflexivity]. exists s0. auto.
Qed.

Lemma apply_ack_spec c seq t info :
  conn_inv c -> sm_find seq (c_sent c) = Some (t, info) ->
  exists c', apply_ack c seq = Ok c' /\ conn_inv c' /\ frame_ack c c' /\
    c_sent c' = sm_remove seq (c_sent c) /\
    (forall x, in_ranges x (c_acks c') -> in_ranges x (c_acks c)) /\
    sr_released (c_sr c) (c_sr c') info.
Proof.
  intros Hi Hf. unfold apply_ack. rewrite Hf.
  destruct (inv_find_sent _ _ _ _ Hi Hf) as (Hlt & Ht & Hinfo).
  set (c1 := with_sent c (sm_remove seq (c_sent c))).
  assert (Hi1 : conn_inv c1).
  { apply inv_with_sent; [exact Hi|apply asc_sm_remove, (ci_sent_sorted c Hi)|].
    apply Forall_sm_remove. exact (ci_sent c Hi). }
  destruct info as [|ch ids|ch id idx|largest].
  - exists c1. split; [reflexivity|]. split; [exact Hi1|]. split; [repeat split|].
    split; [reflexivity|]. split; [auto|apply sr_released_same].
  - cbn [sent_info_ok] in Hinfo. destruct Hinfo as (s & Hs & Hids).
    change (c_sr c1) with (c_sr c). rewrite Hs.
    destruct (inv_find_sr _ _ _ Hi Hs) as [Hsi Hch].
    destruct (ack_ids_safe _ ids s Hsi Hids) as (s' & E & Hs' & Hn' & Hc' & Ho' & Hk').
    rewrite E. cbn [lift bind].
    eexists; split; [reflexivity|]. split.
    { apply (inv_with_sr c1 ch s s'); auto; [congruence|]. split; [lia|]. intros j _. apply Hk'. }
    split; [repeat split|]. split; [reflexivity|]. split; [auto|].
    cbn [with_sr c_sr]. apply (sr_released_insert _ _ s); auto.
    intros j. destruct (in_dec N.eq_dec j ids) as [Hin|Hnin].
    + destruct (Hk' j) as [F|F]; [now left|]. right. split; [exact F|]. cbn [info_lists]. auto.
    + left. apply kind_of_ext. now apply Ho'.
  - cbn [sent_info_ok] in Hinfo. destruct Hinfo as (s & Hs & Hlt' & Hk).
    change (c_sr c1) with (c_sr c). rewrite Hs.
    destruct (inv_find_sr _ _ _ Hi Hs) as [Hsi Hch].
    destruct (SendRelP.sr_ack_slice_safe _ s id idx Hsi Hk) as (s' & E & Hs' & Hn' & Ho' & Hcases).
    rewrite E. cbn [lift bind].
    assert (Hkk : forall j, kind_of s' j = kind_of s j \/ (kind_of s' j = None /\ j = id)).
    { intros j. destruct (N.eq_dec j id) as [->|Hne].
      - destruct Hcases as [[_ ->]|[P|P]]; [now left| |].
        + left. apply P.
        + right. split; [apply P|reflexivity].
      - left. apply kind_of_ext. now apply Ho'. }
    eexists; split; [reflexivity|]. split.
    { apply (inv_with_sr c1 ch s s'); auto.
      - rewrite <- Hch. apply (SendRelP.sr_ack_slice_config _ _ _ _ E).
      - split; [lia|]. intros j _. destruct (Hkk j) as [F|[F _]]; auto. }
    split; [repeat split|]. split; [reflexivity|]. split; [auto|].
    cbn [with_sr c_sr]. apply (sr_released_insert _ _ s); auto.
    intros j. destruct (Hkk j) as [F|[F ->]]; [now left|]. right. cbn [info_lists]. auto.
  - eexists; split; [reflexivity|]. split.
    { apply inv_with_acks; [exact Hi1| | |]; change (c_acks c1) with (c_acks c).
      - apply AcksP.acked_largest_wf, (ci_acks_wf c Hi).
      - pose proof (AcksP.acked_largest_len (c_acks c) largest). pose proof (ci_acks_len c Hi). lia.
      - apply AcksP.acked_largest_below, (ci_acks_below c Hi). }
    split; [repeat split|]. split; [reflexivity|]. split; [|apply sr_released_same].
    intros x Hx. cbn [with_acks c_acks] in Hx. change (c_acks c1) with (c_acks c) in Hx.
    apply (AcksP.acked_largest_spec _ _ _ (ci_acks_wf c Hi)) in Hx. apply Hx.
Qed.

(* the loop over the newly acknowledged sequence numbers *)
Definition srs_released (sr sr' : list (N * send_rel)) (sent : list (N * (N * sent_info))) (seqs : list N) : Prop :=
  forall ch, match sm_find ch sr with
             | None => sm_find ch sr' = None
             | Some s => exists s', sm_find ch sr' = Some s' /\ sr_next_id s' = sr_next_id s /\
                 forall id, (kind_of s' id = kind_of s id) \/
                            (kind_of s' id = None /\
                             exists seq t info, In seq seqs /\ sm_find seq sent = Some (t, info) /\
                                                info_lists info ch id)
             end.

Lemma apply_acks_spec seqs : forall c, conn_inv c -> NoDup seqs ->
  Forall (fun s => sm_mem s (c_sent c) = true) seqs ->
  exists c', apply_acks c seqs = Ok c' /\ conn_inv c' /\ frame_ack c c' /\
    (forall k v, sm_find k (c_sent c') = Some v -> sm_find k (c_sent c) = Some v) /\
    (forall x, in_ranges x (c_acks c') -> in_ranges x (c_acks c)) /\
    srs_released (c_sr c) (c_sr c') (c_sent c) seqs.
Proof.
  induction seqs as [|seq t IH]; intros c Hi Hnd Hmem; cbn [apply_acks].
  - exists c. split; [reflexivity|]. split; [exact Hi|]. split; [apply frame_ack_refl|].
    split; [auto|]. split; [auto|].
    intros ch. destruct (sm_find ch (c_sr c)) as [s|]; [|reflexivity]. exists s. auto.
  - inversion Hnd as [|? ? Hnotin Hnd']; subst. inversion Hmem as [|? ? Hm Hmem']; subst.
    destruct (sm_mem_find _ _ Hm) as ([t0 info] & Hf).
    destruct (apply_ack_spec c seq t0 info Hi Hf) as (c1 & E1 & Hi1 & Hfr1 & Hsent1 & Hacks1 & Hrel1).
    rewrite E1. cbn [bind].
    pose proof (ci_sent_sorted c Hi) as Hsorted.
    assert (Hmem1 : Forall (fun s => sm_mem s (c_sent c1) = true) t).
    { rewrite Hsent1. rewrite Forall_forall in *. intros k Hk.
      rewrite sm_mem_remove by exact Hsorted. rewrite (Hmem' k Hk).
      destruct (N.eqb_spec k seq) as [->|]; [contradiction|reflexivity]. }
    destruct (IH c1 Hi1 Hnd' Hmem1) as (c' & E' & Hi' & Hfr' & Hsent' & Hacks' & Hrel').
    exists c'. split; [exact E'|]. split; [exact Hi'|].
    split; [eapply frame_ack_trans; eauto|].
    split.
    { intros k v Hk. apply Hsent' in Hk. rewrite Hsent1 in Hk.
      now apply (sm_find_remove_some _ _ _ _ Hsorted) in Hk. }
    split; [auto|].
    intros ch. specialize (Hrel1 ch). specialize (Hrel' ch).
    destruct (sm_find ch (c_sr c)) as [s|].
    + destruct Hrel1 as (s1 & Hs1 & Hn1 & Hk1). rewrite Hs1 in Hrel'.
      destruct Hrel' as (s' & Hs' & Hn' & Hk'). exists s'. split; [exact Hs'|]. split; [congruence|].
      intros id. destruct (Hk' id) as [F|(F & sq & tq & iq & Hin & Hfq & Hl)].
      * destruct (Hk1 id) as [G|(G & Hl)]; [left; congruence|].
        right. split; [congruence|]. exists seq, t0, info. split; [now left|]. auto.
      * right. split; [exact F|]. exists sq, tq, iq. split; [now right|]. split; [|exact Hl].
        rewrite Hsent1 in Hfq. now apply (sm_find_remove_some _ _ _ _ Hsorted) in Hfq.
    + rewrite Hrel1 in Hrel'. exact Hrel'.
Qed.

(* ================================================================== *)
(* process_parsed *)

Definition is_ack (p : packet) : bool := match p with Ack _ _ => true | _ => false end.

(* what a data packet leaves alone: everything but one receive channel and the status *)
Definition frame_data (c c' : conn) : Prop :=
  c_seq c' = c_seq c /\ c_now c' = c_now c /\ c_order c' = c_order c /\ c_su c' = c_su c /\
  c_sr c' = c_sr c /\ c_sent c' = c_sent c /\ c_acks c' = c_acks c /\ c_budget c' = c_budget c.

Lemma frame_data_disconnect c r : frame_data c (disconnect_with c r).
Proof. unfold disconnect_with. destruct (is_disconnected c); repeat split. Qed.

Lemma slice_wf_decoded b s : slice_wf b s -> slice_decoded s.
Proof. intros (_ & _ & H1 & H2 & _). split; assumption. Qed.

Lemma process_data_spec c p :
  conn_inv c -> packet_wf p -> is_ack p = false ->
  exists c', process_parsed c p = Ok c' /\ conn_inv c' /\ frame_data c c'.
Proof.
  intros Hi Hwf Hna. destruct p as [sq ch ms|sq ch ms|sq ch sl|sq ch sl|sq rs]; [| | | |discriminate];
    cbn [process_parsed].
  - destruct (sm_find ch (c_rr c)) as [r|] eqn:Hr.
    2:{ eexists; split; [reflexivity|]. split; [now apply inv_disconnect_with|apply frame_data_disconnect]. }
    pose proof (process_rel_msgs_safe ms r (inv_find_rr _ _ _ Hi Hr)) as H.
    destruct (process_rel_msgs r ms) as [r'|e|s]; [| |contradiction].
    + eexists; split; [reflexivity|]. split; [now apply inv_with_rr|repeat split].
    + eexists; split; [reflexivity|]. split; [now apply inv_disconnect_with|apply frame_data_disconnect].
  - destruct (sm_find ch (c_ru c)) as [r|] eqn:Hr.
    2:{ eexists; split; [reflexivity|]. split; [now apply inv_disconnect_with|apply frame_data_disconnect]. }
    eexists; split; [reflexivity|]. split; [|repeat split].
    apply inv_with_ru; [exact Hi|]. apply process_unrel_msgs_safe. exact (inv_find_ru _ _ _ Hi Hr).
  - destruct (sm_find ch (c_rr c)) as [r|] eqn:Hr.
    2:{ eexists; split; [reflexivity|]. split; [now apply inv_disconnect_with|apply frame_data_disconnect]. }
    cbn [packet_wf] in Hwf. destruct Hwf as (_ & _ & Hsl).
    pose proof (RecvRelP.rr_process_slice_safe r sl (inv_find_rr _ _ _ Hi Hr) (slice_wf_decoded _ _ Hsl)) as H.
    destruct (rr_process_slice r sl) as [r'|e|s]; [| |contradiction].
    + eexists; split; [reflexivity|]. split; [apply inv_with_rr; [exact Hi|apply H]|repeat split].
    + eexists; split; [reflexivity|]. split; [now apply inv_disconnect_with|apply frame_data_disconnect].
  - destruct (sm_find ch (c_ru c)) as [r|] eqn:Hr.
    2:{ eexists; split; [reflexivity|]. split; [now apply inv_disconnect_with|apply frame_data_disconnect]. }
    cbn [packet_wf] in Hwf. destruct Hwf as (_ & _ & Hsl).
    pose proof (RecvUnrelP.ru_process_slice_safe (c_now c) r sl (inv_find_ru _ _ _ Hi Hr)
                  (slice_wf_decoded _ _ Hsl)) as H.
    destruct (ru_process_slice r sl (c_now c)) as [r'|e|s]; [| |contradiction].
    + eexists; split; [reflexivity|]. split; [apply inv_with_ru; [exact Hi|apply H]|repeat split].
    + eexists; split; [reflexivity|]. split; [now apply inv_disconnect_with|apply frame_data_disconnect].
Qed.

Lemma process_ack_spec c sq rs :
  conn_inv c -> ranges_wf 0 rs ->
  exists c' l, process_parsed c (Ack sq rs) = Ok c' /\ conn_inv c' /\ frame_ack c c' /\
    (forall x, In x l -> in_ranges x rs) /\
    (forall k v, sm_find k (c_sent c') = Some v -> sm_find k (c_sent c) = Some v) /\
    (forall x, in_ranges x (c_acks c') -> in_ranges x (c_acks c)) /\
    srs_released (c_sr c) (c_sr c') (c_sent c) l.
Proof.
  intros Hi Hwf. cbn [process_parsed].
  pose proof (ci_sent_sorted c Hi) as Hsorted.
  destruct (collect_new_acks_spec (c_sent c) (asc_NoDup _ Hsorted) rs 0 Hwf) as (l & E & Hnd & Hin).
  rewrite E. cbn [bind].
  assert (Hmem : Forall (fun s => sm_mem s (c_sent c) = true) l).
  { rewrite Forall_forall. intros x Hx. apply sm_mem_in. now apply Hin. }
  destruct (apply_acks_spec l c Hi Hnd Hmem) as (c' & E' & Hi' & Hfr & Hs & Ha & Hrel).
  exists c', l. split; [exact E'|]. split; [exact Hi'|]. split; [exact Hfr|].
  split; [intros x Hx; now apply Hin|]. auto.
Qed.

(* ================================================================== *)
(* process_packet *)

Lemma packet_wf_seq p : packet_wf p -> packet_seq p <= VARINT_MAX.
Proof. destruct p; cbn [packet_wf packet_seq]; tauto. Qed.

Lemma inv_add_pending_ack c s :
  conn_inv c -> s <= VARINT_MAX -> conn_inv (with_acks c (add_pending_ack (c_acks c) s)).
Proof.
  intros Hi Hs. apply inv_with_acks; [exact Hi| | |].
  - apply AcksP.add_pending_ack_wf, (ci_acks_wf c Hi).
  - apply AcksP.add_pending_ack_bound, (ci_acks_len c Hi).
  - apply AcksP.add_pending_ack_below; [apply (ci_acks_below c Hi)|lia].
Qed.

Lemma packet_wf_ack_ranges sq rs : packet_wf (Ack sq rs) -> ranges_wf 0 rs.
Proof. cbn [packet_wf]. tauto. Qed.

Lemma process_parsed_total c p :
  conn_inv c -> packet_wf p -> exists c', process_parsed c p = Ok c' /\ conn_inv c'.
Proof.
  intros Hi Hwf. destruct (is_ack p) eqn:Ha.
  - destruct p; try discriminate.
    destruct (process_ack_spec c seq ranges Hi (packet_wf_ack_ranges _ _ Hwf)) as (c' & l & E & Hi' & _).
    eauto.
  - destruct (process_data_spec c p Hi Hwf Ha) as (c' & E & Hi' & _). eauto.
Qed.

(* the decoder never panics, so process_packet is one of three cases *)
Lemma process_packet_cases c bytes :
  (is_disconnected c = true /\ process_packet c bytes = Ok c) \/
  (is_disconnected c = false /\ exists e, from_bytes bytes = Err e /\
     process_packet c bytes = Ok (disconnect_with c (RPacketDeserialization e))) \/
  (is_disconnected c = false /\ exists p, from_bytes bytes = Ok p /\
     process_packet c bytes =
       process_parsed (with_acks c (add_pending_ack (c_acks c) (packet_seq p))) p).
Proof.
  unfold process_packet. destruct (is_disconnected c); [left; auto|right].
  pose proof (PacketP.from_bytes_no_panic bytes) as Hnp.
  destruct (from_bytes bytes) as [p|e|s]; [right|left|discriminate]; eauto.
Qed.

Lemma process_packet_safe : forall c bytes,
  conn_inv c -> bytes_ok bytes -> exists c', process_packet c bytes = Ok c' /\ conn_inv c'.
Proof.
  intros c bytes Hi Hb.
  destruct (process_packet_cases c bytes) as [(_ & E)|[(_ & e & _ & E)|(_ & p & Hp & E)]]; rewrite E.
  - eauto.
  - eexists; split; [reflexivity|]. now apply inv_disconnect_with.
  - pose proof (PacketP.from_bytes_wf _ _ Hb Hp) as Hwf.
    apply process_parsed_total; [|exact Hwf].
    apply inv_add_pending_ack; [exact Hi|]. now apply packet_wf_seq.
Qed.
