(* ConnP.v - the connection level (RenetClient): the connection invariant is kept by every call,
   hostile input is safe, packets fit, the budget and the priority order are respected,
   acknowledgements, channel isolation, and a non-vacuity example.
   Helper files: ConnBaseP.v (frames, E1), ConnProcP.v (process_packet, E2), ConnEncP.v (encoder),
   ConnFlushP.v (get_packets_to_send). *)
From RenetV Require Import Base Consts Varint Packet Channels Conn Server.
From RenetV Require Import CodecSpec RecvSpec SendSpec ConnSpec ConnInvSpec.
From RenetV Require Import SMapP ConnBaseP ConnProcP ConnFlushP ConnCountP.
From RenetV Require AcksP VarintP PacketP RecvRelP RecvUnrelP SMapSendP SendRelP SendUnrelP DisconnectP ConnEncP.
Require Import Lia ZifyBool ZifyN ZifyNat.
Open Scope N_scope.

Arguments N.add : simpl never.
Arguments N.sub : simpl never.
Arguments N.mul : simpl never.
Arguments N.div : simpl never.
Arguments N.modulo : simpl never.
Arguments N.eqb : simpl never.
Arguments N.ltb : simpl never.
Arguments N.leb : simpl never.
Local Opaque SLICE_SIZE MAX_ACK_RANGES SER_BUFFER NC_MAX_PAYLOAD_BYTES DISCARD_PACKET_SECS VARINT_MAX.

(* ================================================================== *)
(* E1: construction establishes the invariant; the only panic is a duplicate channel id *)

Theorem conn_inv_init : forall budget scfg rcfg c,
  conn_new budget scfg rcfg = Ok c -> conn_inv c.
Proof.
  intros budget scfg rcfg c E. pose proof (conn_new_cases budget scfg rcfg) as H.
  rewrite E in H. apply H.
Qed.

Theorem conn_new_panics_only_on_duplicates : forall budget scfg rcfg site,
  conn_new budget scfg rcfg = Panic site -> site = SITE_DUP_CHANNEL.
Proof.
  intros budget scfg rcfg site E. pose proof (conn_new_cases budget scfg rcfg) as H.
  rewrite E in H. exact H.
Qed.

(* ================================================================== *)
(* E2: any byte string is processed without panic and the invariant (hence the memory
   accounting of every channel, within its limit) is kept *)

Theorem process_packet_total : forall c bytes,
  conn_inv c -> bytes_ok bytes -> exists c', process_packet c bytes = Ok c' /\ conn_inv c'.
Proof. exact process_packet_safe. Qed.

(* ================================================================== *)
(* send_message / receive_message / update *)

(* no pending reliable message disappears *)
Definition no_release (sr sr' : list (N * send_rel)) : Prop :=
  forall ch s s' id, sm_find ch sr = Some s -> sm_find ch sr' = Some s' ->
                     kind_of s id <> None -> kind_of s' id <> None.

Lemma no_release_refl sr : no_release sr sr.
Proof. intros ch s s' id H1 H2. rewrite H1 in H2. inversion H2; subst. auto. Qed.

Lemma send_message_spec c ch m :
  conn_inv c -> has_send_channel c ch = true ->
  exists c', send_message c ch m = Ok c' /\ conn_inv c' /\ no_release (c_sr c) (c_sr c').
Proof.
  intros Hi Hch. unfold send_message.
  destruct (is_disconnected c); [exists c; split; [reflexivity|split; [exact Hi|apply no_release_refl]]|].
  destruct (sm_find ch (c_sr c)) as [s|] eqn:Hs.
  - destruct (inv_find_sr _ _ _ Hi Hs) as [Hsi Hc].
    pose proof (SendRelP.sr_send_safe (c_now c) s m Hsi) as H.
    destruct (sr_send s m) as [s'|e|st] eqn:E; [| |contradiction].
    + destruct H as (Hs' & Hn & _ & Hother & _).
      eexists; split; [reflexivity|]. split.
      * apply (inv_with_sr c ch s s'); auto.
        -- destruct (SendRelP.sr_send_config _ _ _ E) as (A & _). congruence.
        -- split; [lia|]. intros id Hid. left. apply kind_of_ext. apply Hother. lia.
      * intros c0 s0 s0' id H0 H0' Hk. cbn [with_sr c_sr] in H0'. rewrite sm_find_insert in H0'.
        destruct (N.eqb_spec c0 ch) as [->|Hne].
        -- rewrite Hs in H0. inversion H0; subst s0. inversion H0'; subst s0'.
           destruct (N.eq_dec id (sr_next_id s)) as [->|Hid].
           ++ exfalso. apply Hk. unfold kind_of.
              destruct (sm_find (sr_next_id s) (sr_unacked s)) as [u|] eqn:Eu; [|reflexivity].
              destruct (SendRelP.sr_inv_find _ _ _ _ Hsi Eu) as (Hlt & _). lia.
           ++ rewrite (kind_of_ext s s' id (Hother id Hid)). exact Hk.
        -- rewrite H0 in H0'. inversion H0'; subst. exact Hk.
    + eexists; split; [reflexivity|]. split; [now apply inv_disconnect_with|].
      unfold disconnect_with. destruct (is_disconnected c); apply no_release_refl.
  - destruct (sm_find ch (c_su c)) as [s|] eqn:Hu.
    + destruct (inv_find_su _ _ _ Hi Hu) as [Hsi Hc].
      destruct (SendUnrelP.su_send_safe s m Hsi) as [Hs' Hcase].
      eexists; split; [reflexivity|]. split; [|apply no_release_refl].
      apply inv_with_su; [exact Hi|exact Hs'|].
      destruct (su_max s <? su_mem s + len m); [now rewrite Hcase|].
      destruct Hcase as (_ & _ & _ & _ & A). congruence.
    + exfalso. unfold has_send_channel, sm_mem in Hch. rewrite Hs, Hu in Hch. discriminate.
Qed.

Lemma receive_message_spec c ch :
  conn_inv c -> has_recv_channel c ch = true ->
  exists c' m, receive_message c ch = Ok (c', m) /\ conn_inv c' /\
    c_sr c' = c_sr c /\ c_su c' = c_su c /\ c_sent c' = c_sent c /\ c_acks c' = c_acks c.
Proof.
  intros Hi Hch. unfold receive_message.
  destruct (is_disconnected c); [exists c, None; split; [reflexivity|]; split; [exact Hi|repeat split]|].
  destruct (sm_find ch (c_rr c)) as [r|] eqn:Hr.
  - pose proof (RecvRelP.rr_receive_safe r (inv_find_rr _ _ _ Hi Hr)) as H.
    destruct (rr_receive r) as [[r' m]|e|st]; [|contradiction|contradiction].
    exists (with_rr c (sm_insert ch r' (c_rr c))), m. split; [reflexivity|].
    split; [apply inv_with_rr; [exact Hi|apply H]|repeat split].
  - destruct (sm_find ch (c_ru c)) as [r|] eqn:Hu.
    + pose proof (RecvUnrelP.ru_receive_safe (c_now c) r (inv_find_ru _ _ _ Hi Hu)) as H.
      destruct (ru_receive r) as [[r' m]|e|st]; [|contradiction|contradiction].
      exists (with_ru c (sm_insert ch r' (c_ru c))), m. split; [reflexivity|].
      split; [apply inv_with_ru; [exact Hi|apply H]|repeat split].
    + exfalso. unfold has_recv_channel, sm_mem in Hch. rewrite Hr, Hu in Hch. discriminate.
Qed.

(* the loop over the unreliable receive channels *)
Lemma discard_all_spec now now' : now <= now' -> forall l,
  Forall (fun e : N * recv_unrel => ru_inv now (snd e)) l ->
  exists l', discard_all now' l = Ok l' /\ map fst l' = map fst l /\
             Forall (fun e : N * recv_unrel => ru_inv now' (snd e)) l'.
Proof.
  intros Hle. induction l as [|[ch r] t IH]; intros H; cbn [discard_all].
  - exists []. repeat split; constructor.
  - inversion H as [|? ? Hr Ht]; subst. cbn [snd] in Hr.
    pose proof (RecvUnrelP.ru_discard_old_safe now now' r Hr Hle) as Hd.
    destruct (ru_discard_old r now') as [r'|e|st]; [|contradiction|contradiction].
    destruct (IH Ht) as (t' & E & Hk & Hf). rewrite E. cbn [bind].
    exists ((ch, r') :: t'). split; [reflexivity|]. split; [cbn [map fst]; now rewrite Hk|].
    constructor; [apply Hd|exact Hf].
Qed.

(* the loop over the tracked packets: a prefix is dropped *)
Lemma drop_lost_spec now : forall l,
  Forall (fun e : N * (N * sent_info) => fst (snd e) <= now) l ->
  exists pre l', drop_lost now l = Ok l' /\ l = pre ++ l'.
Proof.
  induction l as [|[s [t i]] l IH]; intros H; cbn [drop_lost].
  - exists [], []. split; reflexivity.
  - inversion H as [|? ? Ht Hl]; subst. cbn [fst snd] in Ht.
    unfold sub_chk. destruct (N.leb_spec t now); [|lia]. cbn [bind].
    destruct (DISCARD_PACKET_SECS * 1000000000 <=? now - t).
    + destruct (IH Hl) as (pre & l' & E & ->). exists ((s, (t, i)) :: pre), l'. split; [exact E|reflexivity].
    + exists [], ((s, (t, i)) :: l). split; reflexivity.
Qed.

Lemma asc_app_r (a b : list N) : asc (a ++ b) -> asc b.
Proof.
  induction a as [|x a IH]; cbn [app]; [auto|]. intros [_ H]. auto.
Qed.

Lemma sm_mem_keys_eq {V W} (m : list (N * V)) (m' : list (N * W)) k :
  map fst m = map fst m' -> sm_mem k m = sm_mem k m'.
Proof.
  intros E. destruct (sm_mem k m) eqn:A, (sm_mem k m') eqn:B; try reflexivity.
  - apply sm_mem_in in A. rewrite E in A. apply sm_mem_in in A. congruence.
  - apply sm_mem_in in B. rewrite <- E in B. apply sm_mem_in in B. congruence.
Qed.

Lemma update_spec c dt :
  conn_inv c ->
  exists c', update c dt = Ok c' /\ conn_inv c' /\
    c_sr c' = c_sr c /\ c_su c' = c_su c /\ c_rr c' = c_rr c /\ c_acks c' = c_acks c /\
    map fst (c_ru c') = map fst (c_ru c) /\ c_now c' = c_now c + dt /\
    (exists pre, c_sent c = pre ++ c_sent c').
Proof.
  intros Hi. unfold update.
  destruct (discard_all_spec (c_now c) (c_now c + dt) ltac:(lia) (c_ru c) (ci_ru c Hi)) as (ru & E1 & Hk & Hru).
  rewrite E1. cbn [bind].
  destruct (drop_lost_spec (c_now c + dt) (c_sent c)) as (pre & sent & E2 & Hsplit).
  { eapply Forall_impl; [|exact (ci_sent c Hi)]. intros e (_ & H & _). lia. }
  rewrite E2. cbn [bind].
  eexists; split; [reflexivity|]. split; [|repeat split; eauto].
  destruct Hi as [S1 S2 S3 S4 S5 Isr Isu Irr Iru Iord A1 A2 A3 Isent].
  constructor; cbn [with_sent with_ru with_now c_sr c_su c_rr c_ru c_sent c_now c_order c_acks c_seq]; auto.
  - unfold sorted_keys. rewrite Hk. exact S4.
  - unfold sorted_keys in *. rewrite Hsplit, map_app in S5. now apply asc_app_r in S5.
  - eapply Forall_impl; [|exact Isr]. intros e [A B]. split; [|exact B].
    eapply SendRelP.sr_inv_mono; [exact A|lia].
  - rewrite Hsplit in Isent. apply Forall_app in Isent. destruct Isent as [_ Isent].
    eapply Forall_impl; [|exact Isent]. intros e (A & B & C). split; [exact A|]. split; [lia|exact C].
Qed.

(* ================================================================== *)
(* E3: every call keeps the invariant; the only panic left is the encoder's unreachable!() *)

Lemma inv_set_connected c : conn_inv c -> conn_inv (set_connected c).
Proof. unfold set_connected. destruct (is_disconnected c); auto using inv_set_status. Qed.

Lemma inv_set_connecting c : conn_inv c -> conn_inv (set_connecting c).
Proof. unfold set_connecting. destruct (is_disconnected c); auto using inv_set_status. Qed.

Lemma flush_safe c :
  conn_inv c ->
  match get_packets_to_send c with
  | Ok (c', _) => conn_inv c'
  | Err _ => False
  | Panic site => site = SITE_VARINT_TOO_LARGE
  end.
Proof.
  intros Hi. destruct (is_disconnected c) eqn:Hd.
  - rewrite (DisconnectP.get_packets_to_send_disconnected_noop c Hd). exact Hi.
  - destruct (flush_cases c Hi Hd) as (c1 & av & pk & _ & Hi3 & Hack & _ & E). rewrite E.
    pose proof (serialize_all_cases _ Hack) as HS.
    destruct (serialize_all (flush_pkts c1 pk)) as [bs|e|s].
    + exact Hi3.
    + now apply inv_disconnect_with.
    + apply HS.
Qed.

Theorem cstep_safe : forall c o,
  conn_inv c -> cop_ok c o -> (forall b, o = CProcess b -> bytes_ok b) ->
  match cstep c o with
  | Ok (c', _) => conn_inv c'
  | Err _ => False
  | Panic site => site = SITE_VARINT_TOO_LARGE
  end.
Proof.
  intros c o Hi Hok Hb. destruct o as [ch m|ch|dt|b| | | | |]; cbn [cstep cop_ok] in *.
  - destruct (send_message_spec c ch m Hi Hok) as (c' & E & Hi' & _). rewrite E. exact Hi'.
  - destruct (receive_message_spec c ch Hi Hok) as (c' & m & E & Hi' & _). rewrite E. exact Hi'.
  - destruct (update_spec c dt Hi) as (c' & E & Hi' & _). rewrite E. exact Hi'.
  - destruct (process_packet_safe c b Hi (Hb b eq_refl)) as (c' & E & Hi'). rewrite E. exact Hi'.
  - pose proof (flush_safe c Hi) as H.
    destruct (get_packets_to_send c) as [[c' p]|e|s]; cbn [bind]; exact H.
  - now apply inv_set_connected.
  - now apply inv_set_connecting.
  - now apply inv_disconnect_with.
  - now apply inv_disconnect_with.
Qed.

(* ---------- the set of channels never changes ---------- *)
Definition same_channels (c c' : conn) : Prop :=
  forall ch, sm_mem ch (c_sr c') = sm_mem ch (c_sr c) /\ sm_mem ch (c_su c') = sm_mem ch (c_su c) /\
             sm_mem ch (c_rr c') = sm_mem ch (c_rr c) /\ sm_mem ch (c_ru c') = sm_mem ch (c_ru c).

Lemma same_channels_refl c : same_channels c c.
Proof. intros ch. auto. Qed.

Lemma same_channels_trans a b c : same_channels a b -> same_channels b c -> same_channels a c.
Proof.
  intros H1 H2 ch. destruct (H1 ch) as (A1 & A2 & A3 & A4), (H2 ch) as (B1 & B2 & B3 & B4).
  repeat split; congruence.
Qed.

Lemma sm_mem_insert_present {V} k j (v v0 : V) m :
  sm_find k m = Some v0 -> sm_mem j (sm_insert k v m) = sm_mem j m.
Proof.
  intros H. rewrite sm_mem_insert. destruct (N.eqb_spec j k) as [->|]; [|reflexivity].
  cbn [orb]. symmetry. eapply sm_find_some_mem. exact H.
Qed.

Lemma sc_disconnect_with c r : same_channels c (disconnect_with c r).
Proof. unfold disconnect_with. destruct (is_disconnected c); intros ch; auto. Qed.

Lemma sc_with_sr c ch s s' : sm_find ch (c_sr c) = Some s -> same_channels c (with_sr c (sm_insert ch s' (c_sr c))).
Proof. intros H k. cbn [with_sr c_sr c_su c_rr c_ru]. rewrite (sm_mem_insert_present _ _ _ _ _ H). auto. Qed.
Lemma sc_with_su c ch s s' : sm_find ch (c_su c) = Some s -> same_channels c (with_su c (sm_insert ch s' (c_su c))).
Proof. intros H k. cbn [with_su c_sr c_su c_rr c_ru]. rewrite (sm_mem_insert_present _ _ _ _ _ H). auto. Qed.
Lemma sc_with_rr c ch s s' : sm_find ch (c_rr c) = Some s -> same_channels c (with_rr c (sm_insert ch s' (c_rr c))).
Proof. intros H k. cbn [with_rr c_sr c_su c_rr c_ru]. rewrite (sm_mem_insert_present _ _ _ _ _ H). auto. Qed.
Lemma sc_with_ru c ch s s' : sm_find ch (c_ru c) = Some s -> same_channels c (with_ru c (sm_insert ch s' (c_ru c))).
Proof. intros H k. cbn [with_ru c_sr c_su c_rr c_ru]. rewrite (sm_mem_insert_present _ _ _ _ _ H). auto. Qed.

Lemma send_message_channels c ch m c' : send_message c ch m = Ok c' -> same_channels c c'.
Proof.
  unfold send_message. destruct (is_disconnected c); [intros E; inversion E; apply same_channels_refl|].
  destruct (sm_find ch (c_sr c)) as [s|] eqn:Hs.
  - destruct (sr_send s m) as [s'|e|st]; intros E; inversion E; subst.
    + eapply sc_with_sr; eauto.
    + apply sc_disconnect_with.
  - destruct (sm_find ch (c_su c)) as [s|] eqn:Hu; intros E; inversion E; subst.
    eapply sc_with_su; eauto.
Qed.

Lemma receive_message_channels c ch c' m : receive_message c ch = Ok (c', m) -> same_channels c c'.
Proof.
  unfold receive_message. destruct (is_disconnected c); [intros E; inversion E; apply same_channels_refl|].
  destruct (sm_find ch (c_rr c)) as [r|] eqn:Hr.
  - destruct (rr_receive r) as [[r' m']|e|st]; intros E; inversion E; subst. eapply sc_with_rr; eauto.
  - destruct (sm_find ch (c_ru c)) as [r|] eqn:Hu; [|discriminate].
    destruct (ru_receive r) as [[r' m']|e|st]; intros E; inversion E; subst. eapply sc_with_ru; eauto.
Qed.

Lemma process_data_channels c p c' : is_ack p = false -> process_parsed c p = Ok c' -> same_channels c c'.
Proof.
  intros Hna. destruct p as [sq ch ms|sq ch ms|sq ch sl|sq ch sl|sq rs]; [| | | |discriminate];
    cbn [process_parsed].
  - destruct (sm_find ch (c_rr c)) as [r|] eqn:Hr; [|intros E; inversion E; apply sc_disconnect_with].
    destruct (process_rel_msgs r ms); intros E; inversion E; subst;
      [eapply sc_with_rr; eauto|apply sc_disconnect_with].
  - destruct (sm_find ch (c_ru c)) as [r|] eqn:Hr; intros E; inversion E;
      [eapply sc_with_ru; eauto|apply sc_disconnect_with].
  - destruct (sm_find ch (c_rr c)) as [r|] eqn:Hr; [|intros E; inversion E; apply sc_disconnect_with].
    destruct (rr_process_slice r sl); intros E; inversion E; subst;
      [eapply sc_with_rr; eauto|apply sc_disconnect_with].
  - destruct (sm_find ch (c_ru c)) as [r|] eqn:Hr; [|intros E; inversion E; apply sc_disconnect_with].
    destruct (ru_process_slice r sl (c_now c)); intros E; inversion E; subst;
      [eapply sc_with_ru; eauto|apply sc_disconnect_with].
Qed.

Lemma srs_released_mem sr sr' sent l ch : srs_released sr sr' sent l -> sm_mem ch sr' = sm_mem ch sr.
Proof.
  intros H. specialize (H ch). unfold sm_mem. destruct (sm_find ch sr) as [s|].
  - destruct H as (s' & -> & _). reflexivity.
  - now rewrite H.
Qed.

Lemma process_packet_channels c b c' :
  conn_inv c -> bytes_ok b -> process_packet c b = Ok c' -> same_channels c c'.
Proof.
  intros Hi Hb E.
  destruct (process_packet_cases c b) as [(_ & E1)|[(_ & e & _ & E1)|(_ & p & Hp & E1)]]; rewrite E1 in E.
  - inversion E; apply same_channels_refl.
  - inversion E; apply sc_disconnect_with.
  - set (c1 := with_acks c (add_pending_ack (c_acks c) (packet_seq p))) in *.
    assert (H1 : same_channels c c1) by (intros ch; auto).
    eapply same_channels_trans; [exact H1|].
    destruct (is_ack p) eqn:Ha; [|now apply (process_data_channels c1 p)].
    destruct p; try discriminate.
    pose proof (PacketP.from_bytes_wf _ _ Hb Hp) as Hwf.
    assert (Hi1 : conn_inv c1) by (apply inv_add_pending_ack; [exact Hi|now apply (packet_wf_seq _ Hwf)]).
    destruct (process_ack_spec c1 seq ranges Hi1 (packet_wf_ack_ranges _ _ Hwf))
      as (c2 & l & E2 & _ & Hfr & _ & _ & _ & Hrel).
    rewrite E2 in E. inversion E; subst c2.
    destruct Hfr as (_ & _ & _ & F1 & F2 & F3 & _).
    intros ch. rewrite F1, F2, F3. split; [|auto]. eapply srs_released_mem; eauto.
Qed.

Lemma gather_su_keys ord c avail c1 av pk :
  gather_rel ord c avail c1 av pk -> forall ch, sm_mem ch (c_su c1) = sm_mem ch (c_su c).
Proof.
  induction 1 as [c avail|ch t c avail s s' pk seq' avail1 c2 avail2 pk2 Hs Eg Hrel IH
                         |ch t c avail s s' pk seq' avail1 c2 avail2 pk2 Hs Eg Hrel IH]; intros k.
  - reflexivity.
  - rewrite IH. reflexivity.
  - rewrite IH. cbn [with_seq with_su c_su]. now apply (sm_mem_insert_present _ _ _ s).
Qed.

Lemma sr_same_kinds_mem sr sr' ch : sr_same_kinds sr sr' -> sm_mem ch sr' = sm_mem ch sr.
Proof.
  intros H. specialize (H ch). unfold sm_mem. destruct (sm_find ch sr) as [s|].
  - destruct H as (s' & -> & _). reflexivity.
  - now rewrite H.
Qed.

Lemma flush_state_frame c1 pk :
  c_sr (flush_state c1 pk) = c_sr c1 /\ c_su (flush_state c1 pk) = c_su c1 /\
  c_rr (flush_state c1 pk) = c_rr c1 /\ c_ru (flush_state c1 pk) = c_ru c1 /\
  c_now (flush_state c1 pk) = c_now c1 /\ c_acks (flush_state c1 pk) = c_acks c1 /\
  c_order (flush_state c1 pk) = c_order c1 /\ c_budget (flush_state c1 pk) = c_budget c1 /\
  c_status (flush_state c1 pk) = c_status c1.
Proof.
  destruct (flush_c2_frame c1) as (F1 & F2 & F3 & F4 & F5 & F6 & F7 & F8 & F9 & F10).
  unfold flush_state. cbn [with_sent c_sr c_su c_rr c_ru c_now c_acks c_order c_budget c_status].
  repeat split; assumption.
Qed.

(* the shape of a successful get_packets_to_send on a live connection: the serialisation of
   the gathered packets followed by the optional Ack packet; it never fails for lack of buffer *)
Lemma flush_shape c c' bytes :
  conn_inv c -> get_packets_to_send c = Ok (c', bytes) ->
  (is_disconnected c = true /\ c' = c /\ bytes = []) \/
  (is_disconnected c = false /\
   exists c1 av pk,
     gather_rel (c_order c) c (c_budget c) c1 av pk /\
     c' = flush_state c1 pk /\
     Forall2 (fun p b => to_bytes SER_BUFFER p = Ok b) (flush_pkts c1 pk) bytes /\
     Forall pkt_fits (flush_pkts c1 pk) /\
     Forall ConnEncP.varints_ok (flush_pkts c1 pk) /\
     Forall ConnEncP.ack_ok (flush_pkts c1 pk)).
Proof.
  intros Hi E. destruct (is_disconnected c) eqn:Hd.
  - left. rewrite (DisconnectP.get_packets_to_send_disconnected_noop c Hd) in E. inversion E. auto.
  - right. split; [reflexivity|].
    destruct (flush_cases c Hi Hd) as (c1 & av & pk & Hrel & Hi3 & Hack & Hfits & E'). rewrite E' in E.
    exists c1, av, pk. split; [exact Hrel|].
    pose proof (serialize_all_cases _ Hack) as HS.
    destruct (serialize_all (flush_pkts c1 pk)) as [bs|e|s]; [| |discriminate].
    + inversion E; subst. destruct HS as [H1 H2]. auto 6.
    + exfalso. destruct HS as (_ & p & Hp & Hlen). rewrite Forall_forall in Hfits.
      specialize (Hfits p Hp). unfold pkt_fits in Hfits. pose proof payload_le_buffer. lia.
Qed.

Lemma flush_channels c c' bytes : conn_inv c -> get_packets_to_send c = Ok (c', bytes) -> same_channels c c'.
Proof.
  intros Hi E. destruct (flush_shape c c' bytes Hi E) as [(_ & -> & _)|(_ & c1 & av & pk & Hrel & -> & _)].
  - apply same_channels_refl.
  - destruct (gather_facts _ _ _ _ _ _ Hrel Hi) as (_ & _ & _ & _ & Hfr & Hsk & _).
    destruct Hfr as (_ & _ & _ & _ & F1 & F2 & _).
    destruct (flush_state_frame c1 pk) as (G1 & G2 & G3 & G4 & _).
    intros ch. rewrite G1, G2, G3, G4, F1, F2.
    split; [now apply sr_same_kinds_mem|]. split; [eapply gather_su_keys; eauto|auto].
Qed.

Lemma cstep_channels c o c' out :
  conn_inv c -> (forall b, o = CProcess b -> bytes_ok b) -> cstep c o = Ok (c', out) -> same_channels c c'.
Proof.
  intros Hi Hb E. destruct o as [ch m|ch|dt|b| | | | |]; cbn [cstep] in E.
  - destruct (send_message c ch m) as [c1| |] eqn:E1; cbn [bind] in E; try discriminate.
    inversion E; subst. eapply send_message_channels; eauto.
  - destruct (receive_message c ch) as [[c1 m]| |] eqn:E1; cbn [bind] in E; try discriminate.
    inversion E; subst. eapply receive_message_channels; eauto.
  - destruct (update_spec c dt Hi) as (c1 & E1 & _ & F1 & F2 & F3 & _ & F4 & _).
    rewrite E1 in E. cbn [bind] in E. inversion E; subst.
    intros ch. rewrite F1, F2, F3. repeat split. now apply sm_mem_keys_eq.
  - destruct (process_packet c b) as [c1| |] eqn:E1; cbn [bind] in E; try discriminate.
    inversion E; subst. eapply process_packet_channels; eauto.
  - destruct (get_packets_to_send c) as [[c1 p]| |] eqn:E1; cbn [bind] in E; try discriminate.
    inversion E; subst. eapply flush_channels; eauto.
  - inversion E. unfold set_connected. destruct (is_disconnected c); intros ch; auto.
  - inversion E. unfold set_connecting. destruct (is_disconnected c); intros ch; auto.
  - inversion E. apply sc_disconnect_with.
  - inversion E. apply sc_disconnect_with.
Qed.

Lemma cop_ok_channels c c' o : same_channels c c' -> cop_ok c o -> cop_ok c' o.
Proof.
  intros H. destruct o; cbn [cop_ok]; auto; unfold has_send_channel, has_recv_channel;
    destruct (H ch) as (A1 & A2 & A3 & A4); congruence.
Qed.

(* call sequences: the operations name channels of the initial connection *)
Definition ops_ok (c : conn) (ops : list cop) : Prop :=
  Forall (fun o => cop_ok c o /\ forall b, o = CProcess b -> bytes_ok b) ops.

Theorem crun_safe : forall ops c,
  conn_inv c -> ops_ok c ops ->
  match crun c ops with
  | Ok (c', _) => conn_inv c'
  | Err _ => False
  | Panic site => site = SITE_VARINT_TOO_LARGE
  end.
Proof.
  induction ops as [|o t IH]; intros c Hi Hops; cbn [crun]; [exact Hi|].
  inversion Hops as [|? ? [Ho Hb] Ht]; subst.
  pose proof (cstep_safe c o Hi Ho Hb) as Hs.
  destruct (cstep c o) as [[c1 out]|e|s] eqn:E; cbn [bind]; [|exact Hs|exact Hs].
  pose proof (cstep_channels c o c1 out Hi Hb E) as Hsc.
  assert (Hops1 : ops_ok c1 t).
  { eapply Forall_impl; [|exact Ht]. intros o' [A B]. split; [|exact B]. eapply cop_ok_channels; eauto. }
  specialize (IH c1 Hs Hops1).
  destruct (crun c1 t) as [[c2 outs]|e|s]; cbn [bind]; exact IH.
Qed.

(* ================================================================== *)
(* E4 (C13): every serialised packet fits a netcode payload; serialisation never fails *)

Theorem renet_packets_fit : forall c c' pkts,
  conn_inv c -> get_packets_to_send c = Ok (c', pkts) ->
  Forall (fun p => len p <= NC_MAX_PAYLOAD_BYTES) pkts /\
  (forall e, c_status c' = Disconnected (RPacketSerialization e) ->
             c_status c = Disconnected (RPacketSerialization e)).
Proof.
  intros c c' pkts Hi E.
  destruct (flush_shape c c' pkts Hi E)
    as [(_ & -> & ->)|(_ & c1 & av & pk & Hrel & -> & HF2 & Hfits & _ & Hack)].
  - split; [constructor|auto].
  - split.
    + clear E. revert HF2 Hfits Hack. generalize (flush_pkts c1 pk). intros l HF2.
      induction HF2 as [|p b l bs Hb _ IH]; intros Hfits Hack; [constructor|].
      inversion Hfits as [|? ? Hf1 Hf2]; subst. inversion Hack as [|? ? Ha1 Ha2]; subst.
      constructor; [|auto].
      pose proof (ConnEncP.to_bytes_cases SER_BUFFER p Ha1) as H. rewrite Hb in H.
      destruct H as (_ & -> & _). exact Hf1.
    + destruct (gather_facts _ _ _ _ _ _ Hrel Hi) as (_ & _ & _ & _ & Hfr & _).
      destruct Hfr as (_ & _ & _ & _ & _ & _ & _ & F).
      destruct (flush_state_frame c1 pk) as (_ & _ & _ & _ & _ & _ & _ & _ & G).
      intros e. rewrite G, F. auto.
Qed.

(* ================================================================== *)
(* E5 (C14): budget and priority *)

Theorem priority_order : forall ord c avail c1 av pk,
  gather ord c avail [] = Ok (c1, av, pk) <-> gather_rel ord c avail c1 av pk.
Proof. intros. split; [apply gather_rel_complete|apply gather_rel_sound]. Qed.

Theorem gather_spec : forall c c1 avail' pk,
  conn_inv c -> gather (c_order c) c (c_budget c) [] = Ok (c1, avail', pk) ->
  avail' + payload_total pk = c_budget c /\
  conn_inv c1 /\ frame_gather c c1 /\ sr_same_kinds (c_sr c) (c_sr c1) /\
  Forall (gathered_ok (c_sr c1)) pk /\
  seqs_from (c_seq c) pk /\ c_seq c1 = c_seq c + len pk.
Proof.
  intros c c1 av pk Hi E. apply priority_order in E.
  destruct (gather_facts _ _ _ _ _ _ E Hi) as (A & B & C & D & F & G & H). auto 8.
Qed.

(* the loop cannot fail *)
Theorem gather_no_panic : forall c, conn_inv c ->
  exists c1 av pk, gather (c_order c) c (c_budget c) [] = Ok (c1, av, pk).
Proof.
  intros c Hi. destruct (gather_total (c_order c) c (c_budget c) Hi (ci_order c Hi)) as (c1 & av & pk & H).
  exists c1, av, pk. now apply priority_order.
Qed.

Theorem budget_respected : forall c c' bytes,
  conn_inv c -> get_packets_to_send c = Ok (c', bytes) ->
  bytes = [] \/
  exists c1 av pk,
    gather_rel (c_order c) c (c_budget c) c1 av pk /\
    av + payload_total pk = c_budget c /\ payload_total pk <= c_budget c /\
    Forall2 (fun p b => to_bytes SER_BUFFER p = Ok b)
            (pk ++ ack_part (c_seq c + len pk) (c_acks c)) bytes.
Proof.
  intros c c' bytes Hi E.
  destruct (flush_shape c c' bytes Hi E) as [(_ & _ & ->)|(_ & c1 & av & pk & Hrel & _ & HF2 & _)];
    [now left|right].
  destruct (gather_facts _ _ _ _ _ _ Hrel Hi) as (_ & Hseq & _ & Hav & Hfr & _).
  destruct Hfr as (_ & _ & Hacks & _).
  exists c1, av, pk. split; [exact Hrel|]. split; [exact Hav|]. split; [lia|].
  unfold flush_pkts in HF2. now rewrite Hseq, Hacks in HF2.
Qed.

(* ================================================================== *)
(* E6 (C08): acknowledgements *)

Lemma disconnect_with_fields c r :
  c_sr (disconnect_with c r) = c_sr c /\ c_su (disconnect_with c r) = c_su c /\
  c_rr (disconnect_with c r) = c_rr c /\ c_ru (disconnect_with c r) = c_ru c /\
  c_acks (disconnect_with c r) = c_acks c /\ c_sent (disconnect_with c r) = c_sent c /\
  c_seq (disconnect_with c r) = c_seq c /\ c_now (disconnect_with c r) = c_now c.
Proof. unfold disconnect_with. destruct (is_disconnected c); repeat split. Qed.

(* nothing is acknowledged unless the packet parsed *)
Theorem ack_only_parsed : forall c bytes c' e,
  process_packet c bytes = Ok c' -> from_bytes bytes = Err e -> c_acks c' = c_acks c.
Proof.
  intros c bytes c' e E He.
  destruct (process_packet_cases c bytes) as [(_ & E1)|[(_ & e' & _ & E1)|(_ & p & Hp & _)]].
  - rewrite E1 in E. inversion E. reflexivity.
  - rewrite E1 in E. inversion E. apply disconnect_with_fields.
  - congruence.
Qed.

Theorem acks_grow_only_by_parsed : forall c bytes c',
  conn_inv c -> bytes_ok bytes -> process_packet c bytes = Ok c' ->
  forall x, in_ranges x (c_acks c') ->
            in_ranges x (c_acks c) \/ exists p, from_bytes bytes = Ok p /\ x = packet_seq p.
Proof.
  intros c bytes c' Hi Hb E x Hx.
  destruct (process_packet_cases c bytes) as [(_ & E1)|[(_ & e' & _ & E1)|(_ & p & Hp & E1)]];
    rewrite E1 in E.
  - inversion E; subst. now left.
  - inversion E; subst. left. destruct (disconnect_with_fields c (RPacketDeserialization e')) as (_ & _ & _ & _ & A & _).
    now rewrite A in Hx.
  - pose proof (PacketP.from_bytes_wf _ _ Hb Hp) as Hwf.
    set (c1 := with_acks c (add_pending_ack (c_acks c) (packet_seq p))) in *.
    assert (Hi1 : conn_inv c1) by (apply inv_add_pending_ack; [exact Hi|now apply packet_wf_seq]).
    assert (Hx1 : in_ranges x (c_acks c1)).
    { destruct (is_ack p) eqn:Ha.
      - destruct p; try discriminate.
        destruct (process_ack_spec c1 seq ranges Hi1 (packet_wf_ack_ranges _ _ Hwf))
          as (c2 & l & E2 & _ & _ & _ & _ & Hacks & _).
        rewrite E2 in E. inversion E; subst c2. auto.
      - destruct (process_data_spec c1 p Hi1 Hwf Ha) as (c2 & E2 & _ & Hfr).
        rewrite E2 in E. inversion E; subst c2.
        destruct Hfr as (_ & _ & _ & _ & _ & _ & A & _). now rewrite A in Hx. }
    cbn [c1 with_acks c_acks] in Hx1.
    apply (AcksP.add_pending_ack_sound _ _ _ (ci_acks_wf c Hi)) in Hx1.
    destruct Hx1 as [->|Hx1]; [right; eauto|now left].
Qed.

(* the Ack packet of a flush carries exactly pending_acks, and it is the only Ack packet *)
Theorem flush_acks_subset : forall c c' bytes,
  conn_inv c -> is_disconnected c = false -> get_packets_to_send c = Ok (c', bytes) ->
  exists pk bs ba,
    bytes = bs ++ ba /\
    Forall2 (fun p b => to_bytes SER_BUFFER p = Ok b) pk bs /\
    Forall (fun p => is_ack p = false) pk /\
    match c_acks c with
    | [] => ba = []
    | acks => exists b, ba = [b] /\
                        to_bytes SER_BUFFER (Ack (c_seq c + len pk) acks) = Ok b /\
                        from_bytes b = Ok (Ack (c_seq c + len pk) acks)
    end.
Proof.
  intros c c' bytes Hi Hd E.
  destruct (flush_shape c c' bytes Hi E)
    as [(Hd' & _)|(_ & c1 & av & pk & Hrel & -> & HF2 & _ & Hv & Hack)]; [congruence|].
  destruct (gather_facts _ _ _ _ _ _ Hrel Hi) as (_ & Hseq & _ & _ & Hfr & _ & Hpk).
  destruct Hfr as (_ & _ & Hacks & _).
  unfold flush_pkts in *. rewrite Hseq, Hacks in *.
  apply Forall2_app_inv_l in HF2. destruct HF2 as (bs & ba & H1 & H2 & ->).
  exists pk, bs, ba. split; [reflexivity|]. split; [exact H1|].
  split; [eapply Forall_impl; [|exact Hpk]; intros p (_ & A & _); exact A|].
  apply Forall_app in Hv. destruct Hv as [_ Hv]. apply Forall_app in Hack. destruct Hack as [_ Hack].
  destruct (c_acks c) as [|ab t]; cbn [ack_part] in *.
  - inversion H2. reflexivity.
  - inversion H2 as [|? b ? ? Hb Hnil]; subst. inversion Hnil; subst.
    exists b. split; [reflexivity|]. split; [exact Hb|].
    inversion Hv as [|? ? Hv1 _]; subst. inversion Hack as [|? ? Ha1 _]; subst.
    cbn [ConnEncP.varints_ok ConnEncP.ack_ok] in Hv1, Ha1.
    eapply PacketP.packet_roundtrip'; [|exact Hb]. cbn [packet_wf]. tauto.
Qed.

Lemma set_connected_sr c : c_sr (set_connected c) = c_sr c.
Proof. unfold set_connected. destruct (is_disconnected c); reflexivity. Qed.
Lemma set_connecting_sr c : c_sr (set_connecting c) = c_sr c.
Proof. unfold set_connecting. destruct (is_disconnected c); reflexivity. Qed.

Lemma no_release_eq sr sr' : sr' = sr -> no_release sr sr'.
Proof. intros ->. apply no_release_refl. Qed.

(* a reliable message is released only by processing an acknowledgement that covers a tracked
   packet which carried it *)
Theorem release_needs_ack : forall c o c' out ch s s' id,
  conn_inv c -> cop_ok c o -> (forall b, o = CProcess b -> bytes_ok b) ->
  cstep c o = Ok (c', out) ->
  sm_find ch (c_sr c) = Some s -> sm_find ch (c_sr c') = Some s' ->
  kind_of s id <> None -> kind_of s' id = None ->
  exists bytes seq rs sq t info,
    o = CProcess bytes /\ from_bytes bytes = Ok (Ack sq rs) /\ in_ranges seq rs /\
    sm_find seq (c_sent c) = Some (t, info) /\ info_lists info ch id.
Proof.
  intros c o c' out ch s s' id Hi Hok Hb E Hs Hs' Hk Hk'.
  assert (Hnr : no_release (c_sr c) (c_sr c') -> False).
  { intros H. exact (H ch s s' id Hs Hs' Hk Hk'). }
  destruct o as [c0 m|c0|dt|b| | | | |]; cbn [cstep cop_ok] in *.
  - exfalso. destruct (send_message_spec c c0 m Hi Hok) as (c1 & E1 & _ & H1).
    rewrite E1 in E. cbn [bind] in E. inversion E; subst. auto.
  - exfalso. destruct (receive_message_spec c c0 Hi Hok) as (c1 & m & E1 & _ & H1 & _).
    rewrite E1 in E. cbn [bind] in E. inversion E; subst. apply Hnr. now apply no_release_eq.
  - exfalso. destruct (update_spec c dt Hi) as (c1 & E1 & _ & H1 & _).
    rewrite E1 in E. cbn [bind] in E. inversion E; subst. apply Hnr. now apply no_release_eq.
  - destruct (process_packet c b) as [c1| |] eqn:E1; cbn [bind] in E; try discriminate.
    inversion E; subst c1 out. clear E.
    destruct (process_packet_cases c b) as [(_ & E2)|[(_ & e' & _ & E2)|(_ & p & Hp & E2)]];
      rewrite E2 in E1.
    + exfalso. inversion E1; subst. apply Hnr, no_release_refl.
    + exfalso. inversion E1; subst. apply Hnr, no_release_eq. apply disconnect_with_fields.
    + pose proof (PacketP.from_bytes_wf _ _ (Hb b eq_refl) Hp) as Hwf.
      set (c1 := with_acks c (add_pending_ack (c_acks c) (packet_seq p))) in *.
      assert (Hi1 : conn_inv c1) by (apply inv_add_pending_ack; [exact Hi|now apply packet_wf_seq]).
      destruct (is_ack p) eqn:Ha.
      * destruct p; try discriminate.
        destruct (process_ack_spec c1 seq ranges Hi1 (packet_wf_ack_ranges _ _ Hwf))
          as (c2 & l & E3 & _ & _ & Hl & _ & _ & Hrel).
        rewrite E3 in E1. inversion E1; subst c2.
        specialize (Hrel ch). change (c_sr c1) with (c_sr c) in Hrel. rewrite Hs in Hrel.
        destruct Hrel as (s2 & Hs2 & _ & Hkinds). rewrite Hs' in Hs2. inversion Hs2; subst s2.
        destruct (Hkinds id) as [F|(_ & sq' & t & info & Hin & Hf & Hlists)]; [congruence|].
        exists b, sq', ranges, seq, t, info. split; [reflexivity|]. split; [exact Hp|].
        split; [now apply Hl|]. split; [exact Hf|exact Hlists].
      * exfalso. destruct (process_data_spec c1 p Hi1 Hwf Ha) as (c2 & E3 & _ & Hfr).
        rewrite E3 in E1. inversion E1; subst c2. apply Hnr, no_release_eq.
        destruct Hfr as (_ & _ & _ & _ & A & _). exact A.
  - exfalso. destruct (get_packets_to_send c) as [[c1 p]| |] eqn:E1; cbn [bind] in E; try discriminate.
    inversion E; subst c1 out. clear E.
    destruct (flush_shape c c' p Hi E1) as [(_ & -> & _)|(_ & c1 & av & pk & Hrel & -> & _)].
    + apply Hnr, no_release_refl.
    + destruct (gather_facts _ _ _ _ _ _ Hrel Hi) as (_ & _ & _ & _ & _ & Hsk & _).
      destruct (flush_state_frame c1 pk) as (G1 & _). rewrite G1 in Hs'.
      specialize (Hsk ch). rewrite Hs in Hsk. destruct Hsk as (s2 & Hs2 & _ & Hkinds).
      rewrite Hs' in Hs2. inversion Hs2; subst s2. rewrite Hkinds in Hk'. contradiction.
  - exfalso. inversion E; subst. apply Hnr, no_release_eq, set_connected_sr.
  - exfalso. inversion E; subst. apply Hnr, no_release_eq, set_connecting_sr.
  - exfalso. inversion E; subst. apply Hnr, no_release_eq. apply disconnect_with_fields.
  - exfalso. inversion E; subst. apply Hnr, no_release_eq. apply disconnect_with_fields.
Qed.

(* what a flush records about the packets it emits *)
Theorem sent_info_faithful : forall c c' bytes,
  conn_inv c -> is_disconnected c = false -> get_packets_to_send c = Ok (c', bytes) ->
  exists pk,
    Forall2 (fun p b => to_bytes SER_BUFFER p = Ok b) pk bytes /\
    seqs_from (c_seq c) pk /\
    (* every emitted packet is tracked, stamped with the current time, with exactly its contents *)
    (forall p, In p pk -> sm_find (packet_seq p) (c_sent c') = Some (c_now c, pkt_info p)) /\
    (* every tracked packet is an old one or an emitted one *)
    (forall k v, sm_find k (c_sent c') = Some v ->
       sm_find k (c_sent c) = Some v \/
       exists p, In p pk /\ packet_seq p = k /\ v = (c_now c, pkt_info p)) /\
    (* the old records are untouched *)
    (forall k, k < c_seq c -> sm_find k (c_sent c') = sm_find k (c_sent c)).
Proof.
  intros c c' bytes Hi Hd E.
  destruct (flush_shape c c' bytes Hi E)
    as [(Hd' & _)|(_ & c1 & av & pk & Hrel & -> & HF2 & _)]; [congruence|].
  destruct (gather_facts _ _ _ _ _ _ Hrel Hi) as (_ & Hseq & Hseqs & _ & Hfr & _).
  destruct Hfr as (Hnow & Hsent & _).
  exists (flush_pkts c1 pk). split; [exact HF2|].
  assert (Hseqs2 : seqs_from (c_seq c) (flush_pkts c1 pk)).
  { unfold flush_pkts. apply SMapSendP.seqs_from_app. split; [exact Hseqs|].
    destruct (c_acks c1); cbn [ack_part seqs_from packet_seq]; [exact I|]. split; [lia|exact I]. }
  split; [exact Hseqs2|].
  unfold flush_state. cbn [with_sent c_sent]. rewrite Hnow, Hsent.
  split; [|split].
  - intros p Hp. apply rec_sent_find_new; [|exact Hp]. eapply seqs_from_nodup; eauto.
  - intros k v Hf. now apply rec_sent_find_inv in Hf.
  - intros k Hk. apply rec_sent_find_old. intros Hin. apply in_map_iff in Hin.
    destruct Hin as (p & <- & Hp). pose proof (seqs_from_bounds _ _ Hseqs2) as HB.
    rewrite Forall_forall in HB. specialize (HB p Hp). lia.
Qed.

(* ================================================================== *)
(* E7 (C11): channel isolation *)

(* sending on a channel touches that send channel only (and possibly the status) *)
Theorem channel_frame_send : forall c ch m c',
  send_message c ch m = Ok c' ->
  (forall ch', ch' <> ch ->
     sm_find ch' (c_sr c') = sm_find ch' (c_sr c) /\ sm_find ch' (c_su c') = sm_find ch' (c_su c)) /\
  c_rr c' = c_rr c /\ c_ru c' = c_ru c /\ c_acks c' = c_acks c /\ c_sent c' = c_sent c /\
  c_seq c' = c_seq c /\ c_now c' = c_now c.
Proof.
  intros c ch m c'. unfold send_message.
  destruct (is_disconnected c); [intros E; inversion E; subst; repeat split|].
  destruct (sm_find ch (c_sr c)) as [s|].
  - destruct (sr_send s m) as [s'|e|st]; intros E; inversion E; subst.
    + cbn [with_sr c_sr c_su c_rr c_ru c_acks c_sent c_seq c_now]. split; [|repeat split].
      intros ch' Hne. split; [|reflexivity]. now apply sm_find_insert_other.
    + destruct (disconnect_with_fields c (RSendChannelError ch e)) as (A1 & A2 & A3 & A4 & A5 & A6 & A7 & A8).
      rewrite A1, A2, A3, A4, A5, A6, A7, A8. repeat split.
  - destruct (sm_find ch (c_su c)) as [s|]; intros E; inversion E; subst.
    cbn [with_su c_sr c_su c_rr c_ru c_acks c_sent c_seq c_now]. split; [|repeat split].
    intros ch' Hne. split; [reflexivity|]. now apply sm_find_insert_other.
Qed.

Theorem channel_frame_receive : forall c ch c' m,
  receive_message c ch = Ok (c', m) ->
  (forall ch', ch' <> ch ->
     sm_find ch' (c_rr c') = sm_find ch' (c_rr c) /\ sm_find ch' (c_ru c') = sm_find ch' (c_ru c)) /\
  c_sr c' = c_sr c /\ c_su c' = c_su c /\ c_acks c' = c_acks c /\ c_sent c' = c_sent c /\
  c_seq c' = c_seq c /\ c_now c' = c_now c /\ c_status c' = c_status c.
Proof.
  intros c ch c' m. unfold receive_message.
  destruct (is_disconnected c); [intros E; inversion E; subst; repeat split|].
  destruct (sm_find ch (c_rr c)) as [r|].
  - destruct (rr_receive r) as [[r' m']|e|st]; intros E; inversion E; subst.
    cbn [with_rr c_sr c_su c_rr c_ru c_acks c_sent c_seq c_now c_status]. split; [|repeat split].
    intros ch' Hne. split; [|reflexivity]. now apply sm_find_insert_other.
  - destruct (sm_find ch (c_ru c)) as [r|]; [|discriminate].
    destruct (ru_receive r) as [[r' m']|e|st]; intros E; inversion E; subst.
    cbn [with_ru c_sr c_su c_rr c_ru c_acks c_sent c_seq c_now c_status]. split; [|repeat split].
    intros ch' Hne. split; [reflexivity|]. now apply sm_find_insert_other.
Qed.

Definition packet_ch (p : packet) : N :=
  match p with
  | SmallReliable _ ch _ | SmallUnreliable _ ch _ | ReliableSlice _ ch _ | UnreliableSlice _ ch _ => ch
  | Ack _ _ => 0
  end.
Definition is_rel_packet (p : packet) : bool :=
  match p with SmallReliable _ _ _ | ReliableSlice _ _ _ => true | _ => false end.

Lemma process_data_frame c p c' :
  is_ack p = false -> process_parsed c p = Ok c' ->
  (forall ch', ch' <> packet_ch p ->
     sm_find ch' (c_rr c') = sm_find ch' (c_rr c) /\ sm_find ch' (c_ru c') = sm_find ch' (c_ru c)) /\
  (is_rel_packet p = true -> c_ru c' = c_ru c) /\ (is_rel_packet p = false -> c_rr c' = c_rr c) /\
  c_sr c' = c_sr c /\ c_su c' = c_su c /\ c_sent c' = c_sent c /\ c_acks c' = c_acks c.
Proof.
  assert (HD : forall r, (forall ch', ch' <> packet_ch p ->
     sm_find ch' (c_rr (disconnect_with c r)) = sm_find ch' (c_rr c) /\
     sm_find ch' (c_ru (disconnect_with c r)) = sm_find ch' (c_ru c)) /\
     (is_rel_packet p = true -> c_ru (disconnect_with c r) = c_ru c) /\
     (is_rel_packet p = false -> c_rr (disconnect_with c r) = c_rr c) /\
     c_sr (disconnect_with c r) = c_sr c /\ c_su (disconnect_with c r) = c_su c /\
     c_sent (disconnect_with c r) = c_sent c /\ c_acks (disconnect_with c r) = c_acks c).
  { intros r. destruct (disconnect_with_fields c r) as (A1 & A2 & A3 & A4 & A5 & A6 & _).
    rewrite A1, A2, A3, A4, A5, A6. repeat split. }
  intros Hna. destruct p as [sq ch ms|sq ch ms|sq ch sl|sq ch sl|sq rs]; [| | | |discriminate];
    cbn [process_parsed packet_ch is_rel_packet] in *.
  - destruct (sm_find ch (c_rr c)) as [r|]; [|intros E; inversion E; apply HD].
    destruct (process_rel_msgs r ms); intros E; inversion E; subst; [|apply HD].
    cbn [with_rr c_sr c_su c_rr c_ru c_acks c_sent]. split; [|repeat split; discriminate].
    intros ch' Hne. split; [|reflexivity]. now apply sm_find_insert_other.
  - destruct (sm_find ch (c_ru c)) as [r|]; intros E; inversion E; subst; [|apply HD].
    cbn [with_ru c_sr c_su c_rr c_ru c_acks c_sent]. split; [|repeat split; discriminate].
    intros ch' Hne. split; [reflexivity|]. now apply sm_find_insert_other.
  - destruct (sm_find ch (c_rr c)) as [r|]; [|intros E; inversion E; apply HD].
    destruct (rr_process_slice r sl); intros E; inversion E; subst; [|apply HD].
    cbn [with_rr c_sr c_su c_rr c_ru c_acks c_sent]. split; [|repeat split; discriminate].
    intros ch' Hne. split; [|reflexivity]. now apply sm_find_insert_other.
  - destruct (sm_find ch (c_ru c)) as [r|]; [|intros E; inversion E; apply HD].
    destruct (ru_process_slice r sl (c_now c)); intros E; inversion E; subst; [|apply HD].
    cbn [with_ru c_sr c_su c_rr c_ru c_acks c_sent]. split; [|repeat split; discriminate].
    intros ch' Hne. split; [reflexivity|]. now apply sm_find_insert_other.
Qed.

(* a data packet naming channel ch changes no other receive channel, no send channel and no
   tracked packet (pending_acks only learns its sequence number) *)
Theorem channel_frame_process : forall c bytes c' p,
  process_packet c bytes = Ok c' -> from_bytes bytes = Ok p -> is_ack p = false ->
  (forall ch', ch' <> packet_ch p ->
     sm_find ch' (c_rr c') = sm_find ch' (c_rr c) /\ sm_find ch' (c_ru c') = sm_find ch' (c_ru c)) /\
  (is_rel_packet p = true -> c_ru c' = c_ru c) /\ (is_rel_packet p = false -> c_rr c' = c_rr c) /\
  c_sr c' = c_sr c /\ c_su c' = c_su c /\ c_sent c' = c_sent c /\
  (c_acks c' = c_acks c \/ c_acks c' = add_pending_ack (c_acks c) (packet_seq p)).
Proof.
  intros c bytes c' p E Hp Hna.
  destruct (process_packet_cases c bytes) as [(_ & E1)|[(_ & e' & He & _)|(_ & p' & Hp' & E1)]].
  - rewrite E1 in E. inversion E; subst. repeat split; auto.
  - congruence.
  - rewrite Hp in Hp'. inversion Hp'; subst p'. rewrite E1 in E.
    destruct (process_data_frame _ p c' Hna E) as (A1 & A2 & A3 & A4 & A5 & A6 & A7).
    cbn [with_acks c_sr c_su c_rr c_ru c_sent c_acks] in *. auto 10.
Qed.

Theorem channel_frame :
  (forall c ch m c', send_message c ch m = Ok c' ->
     forall ch', ch' <> ch ->
       sm_find ch' (c_sr c') = sm_find ch' (c_sr c) /\ sm_find ch' (c_su c') = sm_find ch' (c_su c) /\
       sm_find ch' (c_rr c') = sm_find ch' (c_rr c) /\ sm_find ch' (c_ru c') = sm_find ch' (c_ru c)) /\
  (forall c ch c' m, receive_message c ch = Ok (c', m) ->
     forall ch', ch' <> ch ->
       sm_find ch' (c_sr c') = sm_find ch' (c_sr c) /\ sm_find ch' (c_su c') = sm_find ch' (c_su c) /\
       sm_find ch' (c_rr c') = sm_find ch' (c_rr c) /\ sm_find ch' (c_ru c') = sm_find ch' (c_ru c)) /\
  (forall c bytes c' p, process_packet c bytes = Ok c' -> from_bytes bytes = Ok p -> is_ack p = false ->
     forall ch', ch' <> packet_ch p ->
       sm_find ch' (c_sr c') = sm_find ch' (c_sr c) /\ sm_find ch' (c_su c') = sm_find ch' (c_su c) /\
       sm_find ch' (c_rr c') = sm_find ch' (c_rr c) /\ sm_find ch' (c_ru c') = sm_find ch' (c_ru c)).
Proof.
  split; [|split].
  - intros c ch m c' E ch' Hne. destruct (channel_frame_send c ch m c' E) as (A & B & C & _).
    destruct (A ch' Hne). rewrite B, C. auto.
  - intros c ch c' m E ch' Hne. destruct (channel_frame_receive c ch c' m E) as (A & B & C & _).
    destruct (A ch' Hne). rewrite B, C. auto.
  - intros c bytes c' p E Hp Hna ch' Hne.
    destruct (channel_frame_process c bytes c' p E Hp Hna) as (A & _ & _ & B & C & _).
    destruct (A ch' Hne). rewrite B, C. auto.
Qed.

(* ================================================================== *)
(* E8: non-vacuity - the three default channels, one message there and its acknowledgement back *)

Definition ex_cfg : list chan_config :=
  [ {| cc_id := 0; cc_max := 10000; cc_type := TUnreliable |};
    {| cc_id := 1; cc_max := 10000; cc_type := TReliableUnordered 300000000 |};
    {| cc_id := 2; cc_max := 10000; cc_type := TReliableOrdered 300000000 |} ].
Definition ex_msg : list N := [104; 105; 33].

(* ids of the reliable messages still waiting for an acknowledgement on a channel *)
Definition pending_ids (c : conn) (ch : N) : option (list N) :=
  match sm_find ch (c_sr c) with Some s => Some (map fst (sr_unacked s)) | None => None end.

Definition bytes_okb (l : list N) : bool := forallb (fun b => b <? 256) l.
Lemma bytes_okb_ok l : bytes_okb l = true -> bytes_ok l.
Proof.
  unfold bytes_okb, bytes_ok. rewrite forallb_forall, Forall_forall.
  intros H x Hx. specialize (H x Hx). lia.
Qed.

Example conn_roundtrip :
  exists a a1 p1 b1 p2 a2 outs2,
    conn_new 60000 ex_cfg ex_cfg = Ok a /\ conn_inv a /\
    (* the first connection sends on channel 2 and flushes *)
    crun a [CSend 2 ex_msg; CFlush] = Ok (a1, [ONone; OPkts p1]) /\
    pending_ids a1 2 = Some [0] /\ c_sent a1 = [(0, (0, SIReliableMessages 2 [0]))] /\
    (* a second connection processes those bytes, delivers the message and flushes its Ack *)
    crun a (map CProcess p1 ++ [CRecv 2; CFlush]) = Ok (b1, [ONone; OMsg (Some ex_msg); OPkts p2]) /\
    (* the first connection processes the Ack: the message is released *)
    crun a1 (map CProcess p2) = Ok (a2, outs2) /\
    pending_ids a2 2 = Some [] /\ c_sent a2 = [] /\
    conn_inv a1 /\ conn_inv b1 /\ conn_inv a2.
Proof.
  destruct (conn_new 60000 ex_cfg ex_cfg) as [a| |] eqn:Ea; try (vm_compute in Ea; discriminate).
  pose proof (conn_inv_init _ _ _ _ Ea) as Hia.
  assert (Ea' : Ok a = conn_new 60000 ex_cfg ex_cfg) by (symmetry; exact Ea).
  vm_compute in Ea'. inversion Ea' as [Ha]. clear Ea'.
  destruct (crun a [CSend 2 ex_msg; CFlush]) as [[a1 o1]| |] eqn:E1; try (subst a; vm_compute in E1; discriminate).
  assert (Hia1 : conn_inv a1).
  { pose proof (crun_safe [CSend 2 ex_msg; CFlush] a Hia) as H. rewrite E1 in H. apply H.
    repeat constructor; try discriminate. subst a. vm_compute. reflexivity. }
  assert (E1' : Ok (a1, o1) = crun a [CSend 2 ex_msg; CFlush]) by (symmetry; exact E1).
  rewrite Ha in E1'. vm_compute in E1'. inversion E1' as [[Ha1 Ho1]]. clear E1'.
  set (p1 := [[0; 0; 2; 0; 1; 0; 3; 104; 105; 33]]) in *.
  destruct (crun a (map CProcess p1 ++ [CRecv 2; CFlush])) as [[b1 o2]| |] eqn:E2;
    try (subst a; vm_compute in E2; discriminate).
  assert (Hib1 : conn_inv b1).
  { pose proof (crun_safe (map CProcess p1 ++ [CRecv 2; CFlush]) a Hia) as H. rewrite E2 in H. apply H.
    subst p1. cbn [map app]. repeat constructor; try discriminate.
    - intros b Hb. inversion Hb; subst b. apply bytes_okb_ok. reflexivity.
    - subst a. vm_compute. reflexivity. }
  assert (E2' : Ok (b1, o2) = crun a (map CProcess p1 ++ [CRecv 2; CFlush])) by (symmetry; exact E2).
  rewrite Ha in E2'. vm_compute in E2'. inversion E2' as [[Hb1 Ho2]]. clear E2'.
  set (p2 := [[4; 0; 0; 0; 0]]) in *.
  destruct (crun a1 (map CProcess p2)) as [[a2 o3]| |] eqn:E3; try (subst a1; vm_compute in E3; discriminate).
  assert (Hia2 : conn_inv a2).
  { pose proof (crun_safe (map CProcess p2) a1 Hia1) as H. rewrite E3 in H. apply H.
    subst p2. cbn [map]. repeat constructor; try discriminate.
    intros b Hb. inversion Hb; subst b. apply bytes_okb_ok. reflexivity. }
  assert (E3' : Ok (a2, o3) = crun a1 (map CProcess p2)) by (symmetry; exact E3).
  rewrite Ha1 in E3'. vm_compute in E3'. inversion E3' as [[Ha2 Ho3]]. clear E3'.
  exists a, a1, p1, b1, p2, a2, o3.
  split; [exact Ea|]. split; [exact Hia|]. split; [rewrite E1, Ho1; reflexivity|].
  split; [subst a1; reflexivity|]. split; [subst a1; reflexivity|].
  split; [rewrite E2, Ho2; reflexivity|]. split; [exact E3|].
  split; [subst a2; reflexivity|]. split; [subst a2; reflexivity|]. auto.
Qed.

(* ================================================================== *)
(* E3, last part: with small counters the encoder's unreachable!() is not reached either *)

Theorem flush_no_overflow : forall c,
  conn_inv c -> counters_small c -> exists c' pk, get_packets_to_send c = Ok (c', pk).
Proof.
  intros c Hi Hsmall. destruct (is_disconnected c) eqn:Hd.
  - rewrite (DisconnectP.get_packets_to_send_disconnected_noop c Hd). eauto.
  - destruct (flush_cases c Hi Hd) as (c1 & av & pk & Hrel & _ & Hack & Hfits & E). rewrite E.
    pose proof (flush_varints_ok c c1 av pk Hi Hsmall Hrel) as Hv.
    pose proof (serialize_all_cases _ Hack) as HS.
    destruct (serialize_all (flush_pkts c1 pk)) as [bs|e|s]; [eauto|eauto|].
    exfalso. destruct HS as [_ HS]. exact (HS Hv).
Qed.

(* so, with small counters, a step never panics at all *)
Corollary cstep_no_panic : forall c o,
  conn_inv c -> counters_small c -> cop_ok c o -> (forall b, o = CProcess b -> bytes_ok b) ->
  exists c' out, cstep c o = Ok (c', out) /\ conn_inv c'.
Proof.
  intros c o Hi Hsmall Hok Hb. pose proof (cstep_safe c o Hi Hok Hb) as H.
  destruct (cstep c o) as [[c' out]|e|s] eqn:E; [eauto|contradiction|].
  exfalso. destruct o as [ch m|ch|dt|b| | | | |]; cbn [cstep cop_ok] in *; try discriminate.
  - destruct (send_message_spec c ch m Hi Hok) as (c1 & E2 & _). rewrite E2 in E. discriminate.
  - destruct (receive_message_spec c ch Hi Hok) as (c1 & m & E2 & _). rewrite E2 in E. discriminate.
  - destruct (update_spec c dt Hi) as (c1 & E2 & _). rewrite E2 in E. discriminate.
  - destruct (process_packet_safe c b Hi (Hb b eq_refl)) as (c1 & E2 & _). rewrite E2 in E. discriminate.
  - destruct (flush_no_overflow c Hi Hsmall) as (c1 & pk & E2). rewrite E2 in E. discriminate.
Qed.

(* ================================================================== *)
(* complements *)

(* the priority order is the order of the send configurations *)
Definition order_entry (cfg : chan_config) : bool * N :=
  (match cc_type cfg with TUnreliable => false | _ => true end, cc_id cfg).

Lemma build_send_order cfgs : forall su sr ord su' sr' ord',
  build_send cfgs su sr ord = Ok (su', sr', ord') -> ord' = ord ++ map order_entry cfgs.
Proof.
  induction cfgs as [|cfg t IH]; intros su sr ord su' sr' ord' E; cbn [build_send map] in *.
  - inversion E. now rewrite app_nil_r.
  - unfold order_entry at 1. destruct (cc_type cfg) as [|rt|rt].
    + destruct (sm_mem (cc_id cfg) su); [discriminate|]. apply IH in E. now rewrite <- app_assoc in E.
    + destruct (sm_mem (cc_id cfg) sr); [discriminate|]. apply IH in E. now rewrite <- app_assoc in E.
    + destruct (sm_mem (cc_id cfg) sr); [discriminate|]. apply IH in E. now rewrite <- app_assoc in E.
Qed.

Theorem conn_new_order : forall budget scfg rcfg c,
  conn_new budget scfg rcfg = Ok c -> c_order c = map order_entry scfg /\ c_budget c = budget.
Proof.
  intros budget scfg rcfg c. unfold conn_new.
  destruct (build_send scfg [] [] []) as [[[su sr] ord]| |] eqn:E1; cbn [bind]; try discriminate.
  destruct (build_recv rcfg [] []) as [[ru rr]| |]; cbn [bind]; try discriminate.
  intros E. inversion E; subst. cbn [c_order c_budget]. split; [|reflexivity].
  now apply build_send_order in E1.
Qed.

(* E2, restated as the memory bound: whatever bytes arrive, every receive channel stays
   within its configured memory limit *)
Corollary process_packet_memory_bounded : forall c bytes c',
  conn_inv c -> bytes_ok bytes -> process_packet c bytes = Ok c' ->
  (forall ch r, sm_find ch (c_rr c') = Some r -> rr_mem r <= rr_max r) /\
  (forall ch r, sm_find ch (c_ru c') = Some r -> ru_mem r <= ru_max r) /\
  len (c_acks c') <= MAX_ACK_RANGES.
Proof.
  intros c bytes c' Hi Hb E. destruct (process_packet_total c bytes Hi Hb) as (c2 & E2 & Hi2).
  rewrite E in E2. inversion E2; subst c2. split; [|split].
  - intros ch r Hr. destruct (inv_find_rr _ _ _ Hi2 Hr) as (_ & H & _). exact H.
  - intros ch r Hr. destruct (inv_find_ru _ _ _ Hi2 Hr) as (_ & H & _). exact H.
  - exact (ci_acks_len c' Hi2).
Qed.

(* the first channel of the priority order is served as if it were alone, with the whole budget *)
Corollary first_channel_gets_full_budget : forall c ch t c1 av pk s,
  c_order c = (true, ch) :: t -> sm_find ch (c_sr c) = Some s ->
  gather (c_order c) c (c_budget c) [] = Ok (c1, av, pk) ->
  exists s' pk1 seq' av1 pk2,
    sr_get_packets s (c_seq c) (c_budget c) (c_now c) = Ok (s', pk1, seq', av1) /\ pk = pk1 ++ pk2.
Proof.
  intros c ch t c1 av pk s Hord Hs E. apply priority_order in E. rewrite Hord in E.
  inversion E; subst. match goal with H : sm_find ch (c_sr c) = Some _ |- _ => rewrite Hs in H; inversion H; subst end.
  eauto 8.
Qed.

(* an observation on the model (and on remote_connection.rs, where add_pending_ack(packet.sequence())
   is called for every parsed packet, Ack packets included): Ack packets are themselves
   acknowledged, so after a single message two otherwise idle connections exchange one Ack
   packet per flush for ever, each consuming a sequence number. x flushes, y processes, swap. *)
Definition xfer (x y : conn) : option (conn * conn * list (list N)) :=
  match crun x [CUpdate 16000000; CFlush] with
  | Ok (x1, [_; OPkts p]) =>
      match crun y (map CProcess p) with Ok (y1, _) => Some (x1, y1, p) | _ => None end
  | _ => None
  end.
Fixpoint pingpong (n : nat) (x y : conn) (acc : list (list (list N))) : option (list (list (list N))) :=
  match n with
  | O => Some (List.rev acc)
  | S k => match xfer x y with Some (x1, y1, p) => pingpong k y1 x1 (p :: acc) | None => None end
  end.

Example ack_ping_pong :
  match conn_new 60000 ex_cfg ex_cfg with
  | Ok a => match crun a [CSend 2 ex_msg] with
            | Ok (a1, _) => pingpong 8 a1 a []
            | _ => None
            end
  | _ => None
  end =
  Some [ [[0; 0; 2; 0; 1; 0; 3; 104; 105; 33]];   (* the message *)
         [[4; 0; 0; 0; 0]];                        (* its acknowledgement *)
         [[4; 1; 0; 0; 0]]; [[4; 1; 1; 0; 0]];     (* and then acknowledgements of acknowledgements *)
         [[4; 2; 1; 0; 0]]; [[4; 2; 2; 0; 0]]; [[4; 3; 2; 0; 0]]; [[4; 3; 3; 0; 0]] ].
Proof. vm_compute. reflexivity. Qed.

(* counters_small is satisfiable: the first connection of the example, after its send *)
Example counters_small_example :
  exists a a1 outs, conn_new 60000 ex_cfg ex_cfg = Ok a /\
    crun a [CSend 2 ex_msg] = Ok (a1, outs) /\ counters_small a1 /\ flush_pkt_bound a1 = 5.
Proof.
  eexists _, _, _. split; [vm_compute; reflexivity|]. split; [vm_compute; reflexivity|].
  split; [|vm_compute; reflexivity].
  unfold counters_small, sr_small, su_small. cbn [c_sr c_su c_seq snd].
  split; [vm_compute; discriminate|].
  split; repeat constructor; vm_compute; discriminate.
Qed.

(* ================================================================== *)
Print Assumptions conn_inv_init.
Print Assumptions conn_new_panics_only_on_duplicates.
Print Assumptions process_packet_total.
Print Assumptions cstep_safe.
Print Assumptions crun_safe.
Print Assumptions flush_no_overflow.
Print Assumptions cstep_no_panic.
Print Assumptions renet_packets_fit.
Print Assumptions gather_spec.
Print Assumptions gather_no_panic.
Print Assumptions budget_respected.
Print Assumptions priority_order.
Print Assumptions ack_only_parsed.
Print Assumptions acks_grow_only_by_parsed.
Print Assumptions flush_acks_subset.
Print Assumptions release_needs_ack.
Print Assumptions sent_info_faithful.
Print Assumptions channel_frame_send.
Print Assumptions channel_frame_receive.
Print Assumptions channel_frame_process.
Print Assumptions channel_frame.
Print Assumptions conn_roundtrip.
Print Assumptions conn_new_order.
Print Assumptions process_packet_memory_bounded.
Print Assumptions counters_small_example.
Print Assumptions first_channel_gets_full_budget.
Print Assumptions ack_ping_pong.
