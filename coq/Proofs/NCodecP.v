(* NCodecP.v - the facts about the netcode packet codec and the tokens that the server proofs use:
   no panic sites, shapes of what decode returns, lengths of what encode produces. The cipher is
   only used through Proofs/AeadP.v. *)
From RenetV Require Import Base Consts Aead NPacket Token NServer.
From RenetV Require Import Spec.NetSpec.
From RenetV Require Import Proofs.AeadP Proofs.NSlotsP.
Require Import Lia ZifyBool ZifyN ZifyNat.
Arguments N.add : simpl never.
Arguments N.sub : simpl never.
Arguments N.mul : simpl never.
Arguments N.div : simpl never.
Arguments N.modulo : simpl never.
Arguments N.eqb : simpl never.
Arguments N.ltb : simpl never.
Arguments N.leb : simpl never.
Open Scope N_scope.

(* ------------------------------------------------------------------ *)
(* the constants, isolated                                             *)
(* ------------------------------------------------------------------ *)
Lemma request_min_val : 13 + 8 + 8 + NC_XNONCE_BYTES + NC_PRIVATE_BYTES = 1077.
Proof. reflexivity. Qed.
Lemma challenge_val : NC_CHALLENGE_BYTES = 300.
Proof. reflexivity. Qed.
Lemma mac_val : NC_MAC_BYTES = 16.
Proof. reflexivity. Qed.
Lemma user_data_val : NC_USER_DATA_BYTES = 256.
Proof. reflexivity. Qed.
Lemma max_packet_val : NC_MAX_PACKET_BYTES = 1400.
Proof. reflexivity. Qed.
Lemma global_seq_init_val : NC_GLOBAL_SEQUENCE_INIT = 2 ^ 63.
Proof. reflexivity. Qed.

(* ------------------------------------------------------------------ *)
(* sequence bytes                                                      *)
(* ------------------------------------------------------------------ *)
Lemma seq_bytes_fuel_le f s : seq_bytes_fuel f s <= N.of_nat f.
Proof.
  revert s. induction f as [|f IH]; intros s; cbn [seq_bytes_fuel]; [lia|].
  destruct (s =? 0); [lia|]. specialize (IH (s / 256)). lia.
Qed.

Lemma sequence_bytes_le s : sequence_bytes_required s <= 8.
Proof. unfold sequence_bytes_required. pose proof (seq_bytes_fuel_le 8 (s mod U64)). lia. Qed.

(* ------------------------------------------------------------------ *)
(* encode                                                              *)
(* ------------------------------------------------------------------ *)
Lemma encode_no_panic cap p proto cr site : encode cap p proto cr <> Panic site.
Proof.
  unfold encode. destruct p; try (destruct cr as [[q key]|]; [|discriminate]);
  match goal with |- (if ?c then _ else _) <> _ => destruct c; discriminate end.
Qed.

(* what a sealed datagram looks like *)
Lemma encode_sealed_inv cap p proto q key d :
  packet_id p <> 0 -> encode cap p proto (Some (q, key)) = Ok d ->
  d = ([encode_prefix (packet_id p) q] ++ le_bytes (N.to_nat (sequence_bytes_required q)) q)
        ++ aead_seal key (nonce_of q) (packet_aad (encode_prefix (packet_id p) q) proto) (packet_body p).
Proof.
  intros Hid H. unfold encode in H. destruct p; cbn [packet_id] in Hid; try congruence;
  match type of H with (if ?c then _ else _) = _ => destruct c; [discriminate|] end;
  injection H as <-; reflexivity.
Qed.

Lemma encode_sealed_len cap p proto q key d :
  packet_id p <> 0 -> encode cap p proto (Some (q, key)) = Ok d ->
  len d = 1 + sequence_bytes_required q + len (packet_body p) + NC_MAC_BYTES.
Proof.
  intros Hid H. rewrite (encode_sealed_inv _ _ _ _ _ _ Hid H).
  rewrite !len_app, len_cons, len_nil, len_le_bytes, aead_seal_len, mac_val. lia.
Qed.

Lemma encode_sealed_len_le cap p proto q key d :
  packet_id p <> 0 -> encode cap p proto (Some (q, key)) = Ok d ->
  len d <= 1 + 8 + len (packet_body p) + NC_MAC_BYTES.
Proof.
  intros Hid H. rewrite (encode_sealed_len _ _ _ _ _ _ Hid H). pose proof (sequence_bytes_le q). lia.
Qed.

(* small packets always fit *)
Lemma encode_small_ok p proto q key :
  packet_id p <> 0 -> len (packet_body p) <= 1300 ->
  exists d, encode OUT_CAP p proto (Some (q, key)) = Ok d.
Proof.
  intros Hid Hl. unfold encode. pose proof (sequence_bytes_le q) as Hs.
  destruct p; cbn [packet_id] in Hid; try congruence;
  match goal with |- exists d, (if ?c then _ else _) = _ => destruct c eqn:E; [exfalso|eauto] end;
  rewrite len_app, len_cons, len_nil, len_le_bytes in E; unfold OUT_CAP in E; rewrite max_packet_val, mac_val in E; lia.
Qed.

(* ------------------------------------------------------------------ *)
(* read_packet                                                         *)
(* ------------------------------------------------------------------ *)
Ltac split_ty ty :=
  destruct ty as [|ty]; [|destruct ty as [ty|ty|]; [destruct ty as [ty|ty|]; [destruct ty as [ty|ty|]| destruct ty as [ty|ty|] |]
                                                    |destruct ty as [ty|ty|]; [destruct ty as [ty|ty|]| destruct ty as [ty|ty|] |] |]].

Lemma read_packet_no_panic ty src site : read_packet ty src <> Panic site.
Proof.
  split_ty ty; cbn [read_packet]; try discriminate;
  match goal with |- (if ?c then _ else _) <> _ => destruct c; discriminate end.
Qed.

Lemma read_packet_id ty src p : read_packet ty src = Ok p -> packet_id p = ty.
Proof.
  split_ty ty; cbn [read_packet]; try discriminate;
  try (intros H; injection H as <-; reflexivity);
  match goal with |- (if ?c then _ else _) = _ -> _ => destruct c; [discriminate|] end;
  intros H; injection H as <-; reflexivity.
Qed.

Lemma read_packet_request_len src p :
  read_packet 0 src = Ok p -> 13 + 8 + 8 + NC_XNONCE_BYTES + NC_PRIVATE_BYTES <= len src.
Proof.
  cbn [read_packet]. destruct (len src <? 13 + 8 + 8 + NC_XNONCE_BYTES + NC_PRIVATE_BYTES) eqn:E; [discriminate|].
  intros _. lia.
Qed.

Lemma read_packet_response_len src p :
  read_packet 3 src = Ok p -> 8 + NC_CHALLENGE_BYTES <= len src.
Proof.
  cbn [read_packet]. destruct (len src <? 8 + NC_CHALLENGE_BYTES) eqn:E; [discriminate|].
  intros _. lia.
Qed.

Lemma packet_id_request p : packet_id p = 0 -> exists v pr ex xn data, p = PRequest v pr ex xn data.
Proof. destruct p; cbn [packet_id]; try discriminate. intros _. eauto 6. Qed.

Lemma packet_id_response p : packet_id p = 3 -> exists ts td, p = PResponse ts td.
Proof. destruct p; cbn [packet_id]; try discriminate. intros _. eauto. Qed.

(* ------------------------------------------------------------------ *)
(* decode                                                              *)
(* ------------------------------------------------------------------ *)
Lemma bind_no_panic_pkt (r : nres npacket) (q : N) site :
  (forall s, r <> Panic s) -> (do p <- r; Ok (q, p)) <> (Panic site : nres (N * npacket)).
Proof. destruct r; cbn [bind]; intros H; try discriminate. exfalso. apply (H site0). reflexivity. Qed.

Lemma decode_no_panic buf proto key rp site : snd (decode buf proto key rp) <> Panic site.
Proof.
  unfold decode.
  destruct (len buf <? 2 + NC_MAC_BYTES); [discriminate|].
  destruct buf as [|prefix rest]; [discriminate|].
  destruct (6 <? prefix mod 16); [discriminate|].
  destruct (prefix mod 16 =? 0).
  { cbn [snd]. apply bind_no_panic_pkt. intros s. apply read_packet_no_panic. }
  destruct key as [key|]; [|discriminate].
  destruct (8 <? prefix / 16); [discriminate|].
  destruct (len rest <? prefix / 16); [discriminate|].
  destruct (len (dropN (prefix / 16) rest) <? NC_MAC_BYTES); [discriminate|].
  match goal with |- snd (if ?c then _ else _) <> _ => destruct c; [discriminate|] end.
  destruct (aead_open _ _ _ _); [|discriminate].
  cbn [snd]. apply bind_no_panic_pkt. intros s. apply read_packet_no_panic.
Qed.

Lemma bind_pkt_ok_inv (r : nres npacket) (q q' : N) p :
  (do x <- r; Ok (q, x)) = (Ok (q', p) : nres (N * npacket)) -> r = Ok p /\ q' = q.
Proof. destruct r; cbn [bind]; intros H; try discriminate. injection H as <- <-. auto. Qed.

(* everything a successful decode tells *)
Lemma decode_ok_inv buf proto key rp rp' q p :
  decode buf proto key rp = (rp', Ok (q, p)) ->
  exists prefix rest, buf = prefix :: rest /\ packet_id p = prefix mod 16 /\
    ((prefix mod 16 = 0 /\ read_packet 0 rest = Ok p /\ q = 0 /\ rp' = rp) \/
     (prefix mod 16 <> 0 /\ exists k plain, key = Some k /\ prefix / 16 <= len rest /\
        q = le_val (takeN (prefix / 16) rest) /\
        aead_open k (nonce_of q) (packet_aad prefix proto) (dropN (prefix / 16) rest) = Some plain /\
        read_packet (prefix mod 16) plain = Ok p)).
Proof.
  unfold decode.
  destruct (len buf <? 2 + NC_MAC_BYTES); [discriminate|].
  destruct buf as [|prefix rest]; [discriminate|].
  destruct (6 <? prefix mod 16); [discriminate|].
  destruct (prefix mod 16 =? 0) eqn:E0.
  { intros H. injection H as <- H. apply bind_pkt_ok_inv in H. destruct H as [H ->].
    change (read_packet 0 rest = Ok p) in H.
    exists prefix, rest. apply N.eqb_eq in E0. split; [reflexivity|]. split.
    - rewrite E0. apply (read_packet_id _ _ _ H).
    - left. rewrite E0. auto. }
  destruct key as [key|]; [|discriminate].
  destruct (8 <? prefix / 16); [discriminate|].
  destruct (len rest <? prefix / 16) eqn:E1; [discriminate|].
  destruct (len (dropN (prefix / 16) rest) <? NC_MAC_BYTES); [discriminate|].
  match goal with |- (if ?c then _ else _) = _ -> _ => destruct c; [discriminate|] end.
  destruct (aead_open _ _ _ _) as [plain|] eqn:Eo; [|discriminate].
  intros H. injection H as _ H. apply bind_pkt_ok_inv in H. destruct H as [H ->].
  exists prefix, rest. split; [reflexivity|]. split; [apply (read_packet_id _ _ _ H)|].
  right. split; [lia|]. exists key, plain. repeat split; auto. lia.
Qed.

(* without a key only requests come out *)
Lemma decode_nokey_request buf proto rp rp' q p :
  decode buf proto None rp = (rp', Ok (q, p)) -> packet_id p = 0.
Proof.
  intros H. apply decode_ok_inv in H. destruct H as [prefix [rest [-> [Hid [[H0 _]|[_ [k [plain [Hk _]]]]]]]]].
  - congruence.
  - discriminate.
Qed.

Lemma decode_request_len buf proto key rp rp' q p :
  decode buf proto key rp = (rp', Ok (q, p)) -> packet_id p = 0 ->
  1 + (13 + 8 + 8 + NC_XNONCE_BYTES + NC_PRIVATE_BYTES) <= len buf.
Proof.
  intros H Hp. apply decode_ok_inv in H.
  destruct H as [prefix [rest [-> [Hid [[H0 [Hr _]]|[Hn _]]]]]]; [|congruence].
  apply read_packet_request_len in Hr. rewrite len_cons. lia.
Qed.

Lemma decode_response_len buf proto key rp rp' q p :
  decode buf proto key rp = (rp', Ok (q, p)) -> packet_id p = 3 ->
  1 + (8 + NC_CHALLENGE_BYTES) + NC_MAC_BYTES <= len buf.
Proof.
  intros H Hp. apply decode_ok_inv in H.
  destruct H as [prefix [rest [-> [Hid [[H0 _]|[Hn [k [plain [_ [Hl [_ [Ho Hr]]]]]]]]]]]]; [congruence|].
  rewrite <- Hid, Hp in Hr. apply read_packet_response_len in Hr.
  apply aead_open_length in Ho. rewrite len_cons.
  assert (len (dropN (prefix / 16) rest) = len plain + 16) by (unfold len; rewrite Ho; lia).
  rewrite len_dropN in H. rewrite mac_val. lia.
Qed.

(* the replay window keeps its shape *)
Lemma advance_sequence_wf r s : rp_wf r -> rp_wf (advance_sequence r s).
Proof. unfold rp_wf, advance_sequence. cbn [rp_slots]. rewrite upd_length. auto. Qed.

Lemma replay_new_wf : rp_wf replay_new.
Proof. unfold rp_wf, replay_new. cbn [rp_slots]. apply repeatN_length. Qed.

Lemma decode_replay_wf buf proto key r :
  rp_wf r -> exists r', fst (decode buf proto key (Some r)) = Some r' /\ rp_wf r'.
Proof.
  intros W. unfold decode.
  assert (K : forall x : nres (N * npacket), exists r', fst (Some r, x) = Some r' /\ rp_wf r') by (intros x; exists r; split; [reflexivity | exact W]).
  destruct (len buf <? 2 + NC_MAC_BYTES); [apply K|].
  destruct buf as [|prefix rest]; [apply K|].
  destruct (6 <? prefix mod 16); [apply K|].
  destruct (prefix mod 16 =? 0); [apply K|].
  destruct key as [key|]; [|apply K].
  destruct (8 <? prefix / 16); [apply K|].
  destruct (len rest <? prefix / 16); [apply K|].
  destruct (len (dropN (prefix / 16) rest) <? NC_MAC_BYTES); [apply K|].
  match goal with |- exists _, fst (if ?c then _ else _) = _ /\ _ => destruct c; [apply K|] end.
  destruct (aead_open _ _ _ _); [|apply K].
  cbn [fst]. destruct (applies_replay (prefix mod 16)); [|exists r; split; [reflexivity | exact W]].
  eexists. split; [reflexivity|]. apply advance_sequence_wf. exact W.
Qed.

(* ------------------------------------------------------------------ *)
(* tokens                                                              *)
(* ------------------------------------------------------------------ *)
Lemma read_addrs_loop_no_panic fuel : forall src acc site, read_addrs_loop fuel src acc <> Panic site.
Proof.
  induction fuel as [|f IH]; intros src acc site; cbn [read_addrs_loop]; [discriminate|].
  destruct src as [|ty r]; [discriminate|].
  destruct (ty =? NC_ADDR_V4).
  { destruct (len r <? 6); [discriminate | apply IH]. }
  destruct (ty =? NC_ADDR_V6).
  { destruct (len r <? 18); [discriminate | apply IH]. }
  destruct (ty =? NC_ADDR_NONE); [apply IH | discriminate].
Qed.

Lemma read_server_addresses_no_panic src site : read_server_addresses src <> Panic site.
Proof.
  unfold read_server_addresses. destruct (len src <? 4); [discriminate|].
  match goal with |- bind ?r _ <> _ => destruct r as [[found rest]|e|s] eqn:E end; cbn [bind].
  - destruct found; discriminate.
  - discriminate.
  - exfalso. apply (read_addrs_loop_no_panic _ _ _ _ E).
Qed.

Lemma private_read_no_panic src site : private_read src <> Panic site.
Proof.
  unfold private_read. destruct (len src <? 12); [discriminate|].
  destruct (read_server_addresses (dropN 12 src)) as [[addrs r1]|e|s] eqn:E; cbn [bind].
  - destruct (len r1 <? NC_KEY_BYTES + NC_KEY_BYTES + NC_USER_DATA_BYTES); discriminate.
  - discriminate.
  - exfalso. apply (read_server_addresses_no_panic _ _ E).
Qed.

Lemma private_read_user_len src t : private_read src = Ok t -> len (pt_user t) <= NC_USER_DATA_BYTES.
Proof.
  unfold private_read. destruct (len src <? 12); [discriminate|].
  destruct (read_server_addresses (dropN 12 src)) as [[addrs r1]|e|s] eqn:E; cbn [bind]; try discriminate.
  destruct (len r1 <? NC_KEY_BYTES + NC_KEY_BYTES + NC_USER_DATA_BYTES); [discriminate|].
  intros H. injection H as <-. cbn [pt_user]. apply len_takeN_le.
Qed.

Lemma private_decode_no_panic data proto ex xn key site : private_decode data proto ex xn key <> Panic site.
Proof.
  unfold private_decode. destruct (xaead_open _ _ _ _) as [plain|]; [|discriminate].
  destruct (private_read plain) eqn:E; try discriminate.
  exfalso. apply (private_read_no_panic _ _ E).
Qed.

Lemma private_decode_user_len data proto ex xn key t :
  private_decode data proto ex xn key = Ok t -> len (pt_user t) <= NC_USER_DATA_BYTES.
Proof.
  unfold private_decode. destruct (xaead_open _ _ _ _) as [plain|]; [|discriminate].
  destruct (private_read plain) eqn:E; try discriminate.
  intros H. injection H as <-. apply (private_read_user_len _ _ E).
Qed.

Lemma challenge_decode_no_panic td ts key site : challenge_decode td ts key <> Panic site.
Proof.
  unfold challenge_decode. destruct (aead_open _ _ _ _) as [plain|]; [|discriminate].
  destruct (len plain <? 8 + NC_USER_DATA_BYTES); discriminate.
Qed.

(* the challenge packet is NC_CHALLENGE_BYTES + 8 long as soon as the user data fits *)
Lemma len_zeros n : len (zeros n) = n.
Proof. unfold zeros. rewrite len_repeatN. lia. Qed.

Lemma challenge_body_len id user cseq key :
  len user <= NC_USER_DATA_BYTES ->
  len (packet_body (generate_challenge id user cseq key)) = 8 + NC_CHALLENGE_BYTES.
Proof.
  intros H. unfold generate_challenge. cbn [packet_body].
  rewrite len_app, aead_seal_len. unfold le64, challenge_plain.
  rewrite !len_app, len_zeros. unfold le64. rewrite !len_le_bytes.
  rewrite user_data_val in H. rewrite challenge_val, mac_val. lia.
Qed.

Lemma generate_challenge_id id user cseq key : packet_id (generate_challenge id user cseq key) = 2.
Proof. reflexivity. Qed.

(* ------------------------------------------------------------------ *)
(* the sequence number a sealed datagram carries in the clear          *)
(* ------------------------------------------------------------------ *)
Lemma le_val_le_bytes n v : le_val (le_bytes n v) = v mod 256 ^ N.of_nat n.
Proof.
  revert v. induction n as [|n IH]; intros v.
  - cbn [le_bytes le_val fold_right]. change (256 ^ N.of_nat 0) with 1. rewrite N.mod_1_r. reflexivity.
  - cbn [le_bytes]. change (le_val (v mod 256 :: le_bytes n (v / 256))) with (v mod 256 + 256 * le_val (le_bytes n (v / 256))).
    rewrite IH. replace (N.of_nat (S n)) with (1 + N.of_nat n) by lia.
    rewrite N.pow_add_r. change (256 ^ 1) with 256.
    rewrite N.mod_mul_r; [reflexivity | lia | apply N.pow_nonzero; lia].
Qed.

Lemma seq_bytes_fuel_bound f : forall s, s < 256 ^ N.of_nat f -> s < 256 ^ seq_bytes_fuel f s.
Proof.
  induction f as [|f IH]; intros s H; cbn [seq_bytes_fuel].
  - exact H.
  - destruct (s =? 0) eqn:E.
    + apply N.eqb_eq in E. subst. change (256 ^ 0) with 1. lia.
    + apply N.eqb_neq in E. rewrite N.pow_add_r. change (256 ^ 1) with 256.
      replace (N.of_nat (S f)) with (1 + N.of_nat f) in H by lia.
      rewrite N.pow_add_r in H. change (256 ^ 1) with 256 in H.
      assert (s / 256 < 256 ^ N.of_nat f) by (apply N.div_lt_upper_bound; lia).
      specialize (IH _ H0).
      pose proof (N.mul_div_le s 256 ltac:(lia)). pose proof (N.mod_upper_bound s 256 ltac:(lia)).
      pose proof (N.div_mod s 256 ltac:(lia)). nia.
Qed.

Lemma sequence_bytes_enough q : q < U64 -> q < 256 ^ sequence_bytes_required q.
Proof.
  intros H. unfold sequence_bytes_required. rewrite N.mod_small by exact H.
  apply seq_bytes_fuel_bound. exact H.
Qed.

Lemma takeN_app_exact {A} (l1 l2 : list A) n : len l1 = n -> takeN n (l1 ++ l2) = l1.
Proof.
  intros <-. unfold takeN. rewrite len_length.
  rewrite firstn_app, Nat.sub_diag, firstn_all. cbn [firstn]. apply app_nil_r.
Qed.

Lemma packet_id_lt p : packet_id p < 16.
Proof. destruct p; cbn [packet_id]; lia. Qed.

(* dgram_seq (Spec/NetSpec.v) reads back the sequence number encode was given *)
Theorem encode_dgram_seq cap p proto q key d :
  packet_id p <> 0 -> q < U64 -> encode cap p proto (Some (q, key)) = Ok d -> dgram_seq d = q.
Proof.
  intros Hid Hq H. rewrite (encode_sealed_inv _ _ _ _ _ _ Hid H).
  cbn [app dgram_seq]. unfold encode_prefix.
  pose proof (packet_id_lt p) as Hp.
  assert (E : (packet_id p + 16 * sequence_bytes_required q) / 16 = sequence_bytes_required q).
  { rewrite N.mul_comm, N.div_add by lia. rewrite N.div_small by exact Hp. lia. }
  rewrite E, takeN_app_exact by (rewrite len_le_bytes; lia).
  rewrite le_val_le_bytes, N2Nat.id. apply N.mod_small. apply sequence_bytes_enough. exact Hq.
Qed.

(* and the type it was given *)
Theorem encode_dgram_type cap p proto q key d :
  packet_id p <> 0 -> encode cap p proto (Some (q, key)) = Ok d -> dgram_type d = packet_id p.
Proof.
  intros Hid H. rewrite (encode_sealed_inv _ _ _ _ _ _ Hid H).
  cbn [app dgram_type]. unfold encode_prefix. pose proof (packet_id_lt p) as Hp.
  rewrite N.mul_comm, N.mod_add by lia. apply N.mod_small. exact Hp.
Qed.

(* ------------------------------------------------------------------ *)
(* decode after encode (sealed packets)                                *)
(* ------------------------------------------------------------------ *)
Lemma dropN_app_exact {A} (l1 l2 : list A) n : len l1 = n -> dropN n (l1 ++ l2) = l2.
Proof.
  intros <-. unfold dropN. rewrite len_length.
  rewrite skipn_app, Nat.sub_diag, skipn_all. reflexivity.
Qed.

Lemma le_val_le_bytes_small n v : v < 256 ^ N.of_nat n -> le_val (le_bytes n v) = v.
Proof. intros H. rewrite le_val_le_bytes. apply N.mod_small. exact H. Qed.

Lemma takeN_all_len {A} (l : list A) n : len l = n -> takeN n l = l.
Proof. intros <-. unfold takeN. rewrite len_length. apply firstn_all. Qed.

Lemma read_packet_body p :
  npacket_wf p -> packet_id p <> 0 -> read_packet (packet_id p) (packet_body p) = Ok p.
Proof.
  destruct p as [v pr ex xn data| |ts td|ts td|ci mc|pl|]; cbn [packet_id packet_body npacket_wf]; intros W Hid;
    try congruence; try reflexivity.
  - destruct W as [Wt Wl]. cbn [read_packet].
    assert (L : len (le64 ts ++ td) = 8 + NC_CHALLENGE_BYTES) by (unfold le64; rewrite len_app, len_le_bytes; lia).
    destruct (len (le64 ts ++ td) <? 8 + NC_CHALLENGE_BYTES) eqn:E; [lia|].
    unfold le64. rewrite takeN_app_exact, dropN_app_exact by (rewrite len_le_bytes; lia).
    rewrite le_val_le_bytes_small by exact Wt. rewrite takeN_all_len by exact Wl. reflexivity.
  - destruct W as [Wt Wl]. cbn [read_packet].
    assert (L : len (le64 ts ++ td) = 8 + NC_CHALLENGE_BYTES) by (unfold le64; rewrite len_app, len_le_bytes; lia).
    destruct (len (le64 ts ++ td) <? 8 + NC_CHALLENGE_BYTES) eqn:E; [lia|].
    unfold le64. rewrite takeN_app_exact, dropN_app_exact by (rewrite len_le_bytes; lia).
    rewrite le_val_le_bytes_small by exact Wt. rewrite takeN_all_len by exact Wl. reflexivity.
  - destruct W as [W1 W2]. cbn [read_packet].
    assert (L : len (le32 ci ++ le32 mc) = 8) by (unfold le32; rewrite len_app, !len_le_bytes; lia).
    destruct (len (le32 ci ++ le32 mc) <? 8) eqn:E; [lia|].
    unfold le32. rewrite takeN_app_exact, dropN_app_exact by (rewrite len_le_bytes; lia).
    rewrite takeN_all_len by (rewrite len_le_bytes; lia).
    rewrite !le_val_le_bytes_small by assumption. reflexivity.
Qed.

Lemma packet_id_le6 p : packet_id p <= 6.
Proof. destruct p; cbn [packet_id]; lia. Qed.

(* a sealed packet opens again: same key, same protocol id, not rejected by the replay window *)
Theorem decode_encode cap p proto q key d rp :
  npacket_wf p -> packet_id p <> 0 -> q < U64 -> 1 <= sequence_bytes_required q + len (packet_body p) ->
  encode cap p proto (Some (q, key)) = Ok d ->
  (forall r, rp = Some r -> applies_replay (packet_id p) && already_received r q = false) ->
  decode d proto (Some key) rp =
    (match rp with
     | Some r => if applies_replay (packet_id p) then Some (advance_sequence r q) else Some r
     | None => None
     end, Ok (q, p)).
Proof.
  intros W Hid Hq Hlen He Hrp.
  pose proof (encode_sealed_len _ _ _ _ _ _ Hid He) as Ld.
  rewrite (encode_sealed_inv _ _ _ _ _ _ Hid He). cbn [app].
  set (n := sequence_bytes_required q) in *.
  set (prefix := encode_prefix (packet_id p) q).
  set (sealed := aead_seal key (nonce_of q) (packet_aad prefix proto) (packet_body p)).
  pose proof (packet_id_lt p) as Hp. pose proof (packet_id_le6 p) as Hp6. pose proof (sequence_bytes_le q) as Hn.
  assert (Em : prefix mod 16 = packet_id p).
  { unfold prefix, encode_prefix. rewrite N.mul_comm, N.mod_add by lia. apply N.mod_small. exact Hp. }
  assert (Ed : prefix / 16 = n).
  { unfold prefix, encode_prefix. fold n. rewrite N.mul_comm, N.div_add by lia. rewrite N.div_small by exact Hp. lia. }
  assert (Ls : len sealed = len (packet_body p) + 16) by apply aead_seal_len.
  unfold decode.
  assert (L1 : len (prefix :: le_bytes (N.to_nat n) q ++ sealed) = 1 + n + len (packet_body p) + 16).
  { rewrite len_cons, len_app, len_le_bytes, Ls. lia. }
  rewrite L1, mac_val.
  destruct (1 + n + len (packet_body p) + 16 <? 2 + 16) eqn:E1; [lia|].
  rewrite Em, Ed.
  destruct (6 <? packet_id p) eqn:E2; [lia|].
  destruct (packet_id p =? 0) eqn:E3; [lia|].
  destruct (8 <? n) eqn:E4; [lia|].
  rewrite len_app, len_le_bytes.
  destruct (N.of_nat (N.to_nat n) + len sealed <? n) eqn:E5; [lia|].
  rewrite takeN_app_exact, dropN_app_exact by (rewrite len_le_bytes; lia).
  rewrite le_val_le_bytes_small by (rewrite N2Nat.id; apply sequence_bytes_enough; exact Hq).
  destruct (len sealed <? 16) eqn:E6; [lia|].
  assert (Edup : match rp with Some r => applies_replay (packet_id p) && already_received r q | None => false end = false).
  { destruct rp as [r|]; [apply Hrp; reflexivity | reflexivity]. }
  rewrite Edup. unfold sealed. rewrite aead_open_seal.
  rewrite (read_packet_body _ W Hid). cbn [bind]. reflexivity.
Qed.

(* the challenge token opens again *)
Lemma challenge_decode_generate id user cseq key :
  id < U64 -> len user = NC_USER_DATA_BYTES ->
  match generate_challenge id user cseq key with
  | PChallenge ts td => ts = cseq /\ len td = NC_CHALLENGE_BYTES /\ challenge_decode td ts key = Ok (id, user)
  | _ => False
  end.
Proof.
  intros Hi Hu. unfold generate_challenge. split; [reflexivity|].
  assert (Lp : len (challenge_plain id user) = NC_CHALLENGE_BYTES - NC_MAC_BYTES).
  { unfold challenge_plain, le64. rewrite !len_app, len_zeros. rewrite !len_le_bytes.
    rewrite user_data_val in Hu. rewrite challenge_val, mac_val. lia. }
  split.
  - rewrite aead_seal_len, Lp, challenge_val, mac_val. lia.
  - unfold challenge_decode. rewrite aead_open_seal.
    rewrite user_data_val in *. rewrite challenge_val, mac_val in Lp.
    destruct (len (challenge_plain id user) <? 8 + 256) eqn:E; [lia|].
    unfold challenge_plain, le64. rewrite <- !app_assoc.
    rewrite takeN_app_exact, dropN_app_exact by (rewrite len_le_bytes; lia).
    rewrite takeN_app_exact by lia.
    rewrite le_val_le_bytes_small by exact Hi. reflexivity.
Qed.
