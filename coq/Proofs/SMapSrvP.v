(* SMapSrvP.v - finite-map facts about the key-sorted association lists of Channels.v
   (sm_find / sm_insert / sm_remove / sm_mem), as needed for the server's id -> connection map. *)
From RenetV Require Import Base Consts Varint Packet Channels.
Require Import Lia ZifyBool ZifyN.
Open Scope N_scope.
Arguments N.add : simpl never.
Arguments N.sub : simpl never.
Arguments N.mul : simpl never.
Arguments N.eqb : simpl never.
Arguments N.ltb : simpl never.
Arguments N.leb : simpl never.

(* strictly ascending key list *)
Fixpoint asc (ks : list N) : Prop :=
  match ks with
  | [] => True
  | k :: t => Forall (N.lt k) t /\ asc t
  end.

Definition sm_sorted {V} (m : list (N * V)) : Prop := asc (map fst m).

Section SMapFacts.
  Context {V : Type}.
  Implicit Types (m : list (N * V)) (k j : N) (v : V).

  Lemma sm_sorted_nil : sm_sorted (@nil (N * V)).
  Proof. exact I. Qed.

  (* ---- find after insert: no sortedness needed ---- *)
  Lemma sm_find_insert_eq : forall k v m, sm_find k (sm_insert k v m) = Some v.
  Proof.
    intros k v m. induction m as [|[k' v'] t IH]; cbn [sm_insert sm_find].
    - rewrite N.eqb_refl. reflexivity.
    - destruct (k <? k') eqn:E1; cbn [sm_find].
      + rewrite N.eqb_refl. reflexivity.
      + destruct (k =? k') eqn:E2; cbn [sm_find].
        * rewrite N.eqb_refl. reflexivity.
        * rewrite E2. exact IH.
  Qed.

  Lemma sm_find_insert_neq : forall j k v m, j <> k -> sm_find j (sm_insert k v m) = sm_find j m.
  Proof.
    intros j k v m Hn. induction m as [|[k' v'] t IH]; cbn [sm_insert sm_find].
    - destruct (j =? k) eqn:E; [lia | reflexivity].
    - destruct (k <? k') eqn:E1; cbn [sm_find].
      + destruct (j =? k) eqn:E; [lia | reflexivity].
      + destruct (k =? k') eqn:E2; cbn [sm_find].
        * destruct (j =? k) eqn:E; [lia|]. destruct (j =? k') eqn:E3; [lia | reflexivity].
        * destruct (j =? k') eqn:E3; [reflexivity | exact IH].
  Qed.

  Lemma sm_find_insert : forall j k v m,
      sm_find j (sm_insert k v m) = if j =? k then Some v else sm_find j m.
  Proof.
    intros j k v m. destruct (j =? k) eqn:E.
    - apply N.eqb_eq in E. subst j. apply sm_find_insert_eq.
    - apply sm_find_insert_neq. lia.
  Qed.

  (* ---- find after remove ---- *)
  Lemma sm_find_remove_neq : forall j k m, j <> k -> sm_find j (sm_remove k m) = sm_find j m.
  Proof.
    intros j k m Hn. induction m as [|[k' v'] t IH]; cbn [sm_remove sm_find].
    - reflexivity.
    - destruct (k =? k') eqn:E1; cbn [sm_find].
      + destruct (j =? k') eqn:E2; [lia | reflexivity].
      + destruct (j =? k') eqn:E2; [reflexivity | exact IH].
  Qed.

  Lemma sm_find_lt_none : forall k m, Forall (N.lt k) (map fst m) -> sm_find k m = None.
  Proof.
    intros k m. induction m as [|[k' v'] t IH]; cbn [map fst sm_find]; intros H.
    - reflexivity.
    - inversion H as [|? ? Hlt Ht]; subst. destruct (k =? k') eqn:E; [lia | auto].
  Qed.

  (* needs the keys to be duplicate free *)
  Lemma sm_find_remove_eq : forall k m, sm_sorted m -> sm_find k (sm_remove k m) = None.
  Proof.
    intros k m. unfold sm_sorted.
    induction m as [|[k' v'] t IH]; cbn [map fst asc sm_remove sm_find]; intros H.
    - reflexivity.
    - destruct H as [Hlt Hs]. destruct (k =? k') eqn:E; cbn [sm_find].
      + apply N.eqb_eq in E. subst k'. apply sm_find_lt_none. exact Hlt.
      + rewrite E. auto.
  Qed.

  Lemma sm_find_remove : forall j k m, sm_sorted m ->
      sm_find j (sm_remove k m) = if j =? k then None else sm_find j m.
  Proof.
    intros j k m Hs. destruct (j =? k) eqn:E.
    - apply N.eqb_eq in E. subst j. apply sm_find_remove_eq. exact Hs.
    - apply sm_find_remove_neq. lia.
  Qed.

  (* ---- keys ---- *)
  Lemma sm_insert_keys_in : forall x k v m, In x (map fst (sm_insert k v m)) -> x = k \/ In x (map fst m).
  Proof.
    intros x k v m. induction m as [|[k' v'] t IH]; cbn [sm_insert map fst In].
    - intuition auto.
    - destruct (k <? k') eqn:E1; cbn [map fst In].
      + intuition auto.
      + destruct (k =? k') eqn:E2; cbn [map fst In].
        * intuition auto.
        * intros [H|H]; [tauto|]. apply IH in H. tauto.
  Qed.

  Lemma sm_remove_keys_in : forall x k m, In x (map fst (sm_remove k m)) -> In x (map fst m).
  Proof.
    intros x k m. induction m as [|[k' v'] t IH]; cbn [sm_remove map fst In].
    - tauto.
    - destruct (k =? k') eqn:E1; cbn [map fst In].
      + tauto.
      + intros [H|H]; [tauto|]. right. auto.
  Qed.

  Lemma sm_sorted_insert : forall k v m, sm_sorted m -> sm_sorted (sm_insert k v m).
  Proof.
    intros k v m. unfold sm_sorted.
    induction m as [|[k' v'] t IH]; cbn [sm_insert map fst asc]; intros H.
    - split; [constructor | exact I].
    - destruct H as [Hlt Hs]. destruct (k <? k') eqn:E1; cbn [map fst asc].
      + split; [|split; assumption].
        constructor; [lia|]. eapply Forall_impl; [|exact Hlt]. cbv beta. intros a Ha. lia.
      + destruct (k =? k') eqn:E2; cbn [map fst asc].
        * apply N.eqb_eq in E2. subst k'. split; assumption.
        * split; [|auto]. apply Forall_forall. intros x Hx.
          apply sm_insert_keys_in in Hx. destruct Hx as [Hx|Hx].
          -- subst x. lia.
          -- rewrite Forall_forall in Hlt. auto.
  Qed.

  Lemma sm_sorted_remove : forall k m, sm_sorted m -> sm_sorted (sm_remove k m).
  Proof.
    intros k m. unfold sm_sorted.
    induction m as [|[k' v'] t IH]; cbn [sm_remove map fst asc]; intros H.
    - exact I.
    - destruct H as [Hlt Hs]. destruct (k =? k') eqn:E1; cbn [map fst asc].
      + exact Hs.
      + split; [|auto]. apply Forall_forall. intros x Hx.
        apply sm_remove_keys_in in Hx. rewrite Forall_forall in Hlt. auto.
  Qed.

  (* overwriting a present key keeps the key list (sorted maps only) *)
  Lemma sm_insert_present_keys : forall k v v0 m,
      sm_sorted m -> sm_find k m = Some v0 -> map fst (sm_insert k v m) = map fst m.
  Proof.
    intros k v v0 m. unfold sm_sorted.
    induction m as [|[k' v'] t IH]; cbn [sm_insert sm_find map fst asc]; intros Hs Hf.
    - discriminate.
    - destruct Hs as [Hlt Hs]. destruct (k =? k') eqn:E2.
      + apply N.eqb_eq in E2. subst k'.
        destruct (k <? k) eqn:E1; [lia|]. reflexivity.
      + destruct (k <? k') eqn:E1.
        * (* k < k' and k occurs in t: contradiction *)
          exfalso. assert (Hn : sm_find k t = None).
          { apply sm_find_lt_none. eapply Forall_impl; [|exact Hlt]. cbv beta. intros a Ha. lia. }
          congruence.
        * cbn [map fst]. f_equal. auto.
  Qed.

  (* ---- membership ---- *)
  Lemma sm_mem_find_some : forall k m v, sm_find k m = Some v -> sm_mem k m = true.
  Proof. unfold sm_mem. intros k m v H. rewrite H. reflexivity. Qed.

  Lemma sm_mem_find_none : forall k m, sm_find k m = None -> sm_mem k m = false.
  Proof. unfold sm_mem. intros k m H. rewrite H. reflexivity. Qed.

  Lemma sm_mem_true : forall k m, sm_mem k m = true -> exists v, sm_find k m = Some v.
  Proof. unfold sm_mem. intros k m. destruct (sm_find k m) as [v|]; [eauto | discriminate]. Qed.

  Lemma sm_mem_false : forall k m, sm_mem k m = false -> sm_find k m = None.
  Proof. unfold sm_mem. intros k m. destruct (sm_find k m) as [v|]; [discriminate | reflexivity]. Qed.

  Lemma sm_mem_existsb : forall k m, sm_mem k m = existsb (N.eqb k) (map fst m).
  Proof.
    intros k m. unfold sm_mem. induction m as [|[k' v'] t IH]; cbn [sm_find map fst existsb].
    - reflexivity.
    - destruct (k =? k') eqn:E; [reflexivity | exact IH].
  Qed.

  Lemma sm_mem_insert : forall j k v m, sm_mem j (sm_insert k v m) = (j =? k) || sm_mem j m.
  Proof.
    intros j k v m. unfold sm_mem. rewrite sm_find_insert.
    destruct (j =? k); reflexivity.
  Qed.

  Lemma sm_mem_remove : forall j k m, sm_sorted m ->
      sm_mem j (sm_remove k m) = negb (j =? k) && sm_mem j m.
  Proof.
    intros j k m Hs. unfold sm_mem. rewrite sm_find_remove by exact Hs.
    destruct (j =? k); reflexivity.
  Qed.

  Lemma sm_mem_insert_present : forall j k v v0 m,
      sm_find k m = Some v0 -> sm_mem j (sm_insert k v m) = sm_mem j m.
  Proof.
    intros j k v v0 m Hf. rewrite sm_mem_insert. destruct (j =? k) eqn:E; [|reflexivity].
    apply N.eqb_eq in E. subst j. cbn [orb]. symmetry. eapply sm_mem_find_some; eauto.
  Qed.
End SMapFacts.

Lemma sm_sorted_keys : forall {V W} (m : list (N * V)) (m' : list (N * W)),
    map fst m' = map fst m -> sm_sorted m -> sm_sorted m'.
Proof. unfold sm_sorted. intros V W m m' E H. rewrite E. exact H. Qed.

Lemma sm_mem_keys : forall {V W} k (m : list (N * V)) (m' : list (N * W)),
    map fst m' = map fst m -> sm_mem k m' = sm_mem k m.
Proof. intros V W k m m' E. rewrite !sm_mem_existsb, E. reflexivity. Qed.

(* the finite-map laws genuinely need sortedness: with a duplicated key, removal leaves a binding *)
Example remove_needs_sorted :
  sm_find 1 (sm_remove 1 [(1, 10); (1, 20)]) = Some 20.
Proof. reflexivity. Qed.
